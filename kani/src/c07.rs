//! C07 — status-code tables (the serialisation layout and the response parser are outside the claim).
use crate::Src;
use humphrey::http::StatusCode;
use std::convert::TryFrom;

/// RFC 7231 §6 / RFC 9110 §15 codes that Humphrey models, with the reason phrases that have been
/// registered for them (RFC 2616 / RFC 7231 / RFC 9110 spellings all accepted).
pub fn registered(code: u16) -> Option<[&'static str; 3]> {
    Some(match code {
        100 => ["Continue", "", ""],
        101 => ["Switching Protocols", "", ""],
        200 => ["OK", "", ""],
        201 => ["Created", "", ""],
        202 => ["Accepted", "", ""],
        203 => ["Non-Authoritative Information", "", ""],
        204 => ["No Content", "", ""],
        205 => ["Reset Content", "", ""],
        206 => ["Partial Content", "", ""],
        300 => ["Multiple Choices", "", ""],
        301 => ["Moved Permanently", "", ""],
        302 => ["Found", "", ""],
        303 => ["See Other", "", ""],
        304 => ["Not Modified", "", ""],
        305 => ["Use Proxy", "", ""],
        307 => ["Temporary Redirect", "", ""],
        400 => ["Bad Request", "", ""],
        401 => ["Unauthorized", "", ""],
        403 => ["Forbidden", "", ""],
        404 => ["Not Found", "", ""],
        405 => ["Method Not Allowed", "", ""],
        406 => ["Not Acceptable", "", ""],
        407 => ["Proxy Authentication Required", "", ""],
        408 => ["Request Timeout", "", ""],
        409 => ["Conflict", "", ""],
        410 => ["Gone", "", ""],
        411 => ["Length Required", "", ""],
        412 => ["Precondition Failed", "", ""],
        413 => ["Request Entity Too Large", "Payload Too Large", "Content Too Large"],
        414 => ["Request-URI Too Long", "URI Too Long", ""],
        415 => ["Unsupported Media Type", "", ""],
        416 => ["Requested Range Not Satisfiable", "Range Not Satisfiable", ""],
        417 => ["Expectation Failed", "", ""],
        500 => ["Internal Server Error", "", ""],
        501 => ["Not Implemented", "", ""],
        502 => ["Bad Gateway", "", ""],
        503 => ["Service Unavailable", "", ""],
        504 => ["Gateway Timeout", "", ""],
        505 => ["HTTP Version Not Supported", "", ""],
        _ => return None,
    })
}

fn str_eq(a: &str, b: &str) -> bool {
    let (x, y) = (a.as_bytes(), b.as_bytes());
    if x.len() != y.len() {
        return false;
    }
    let mut i = 0;
    while i < x.len() {
        if x[i] != y[i] {
            return false;
        }
        i += 1;
    }
    true
}

/// For every u16: accepted iff modelled; code and phrase round-trip.
pub fn status_tables<S: Src>(s: &mut S) {
    let code = s.u16();
    match StatusCode::try_from(code) {
        Ok(st) => {
            let reg = registered(code);
            assert!(reg.is_some(), "C07 status: only registered codes are accepted");
            assert!(u16::from(st) == code, "C07 status: u16::from(try_from(c)) == c");
            let phrase: &str = st.into();
            let r = reg.unwrap();
            assert!(
                str_eq(phrase, r[0]) || (r[1].len() > 0 && str_eq(phrase, r[1])) || (r[2].len() > 0 && str_eq(phrase, r[2])),
                "C07 status: reason phrase is the registered one for the code"
            );
            match StatusCode::try_from(u16::from(st)) {
                Ok(st2) => assert!(st2 == st, "C07 status: try_from(u16::from(s)) == s"),
                Err(_) => assert!(false, "C07 status: own code must parse"),
            }
        }
        Err(_) => {
            assert!(registered(code).is_none(), "C07 status: every modelled code is accepted");
        }
    }
    s.reached();
}

/// Accept set and code inversion only (no phrase comparison).
pub fn status_codes<S: Src>(s: &mut S) {
    let code = s.u16();
    match StatusCode::try_from(code) {
        Ok(st) => {
            assert!(registered(code).is_some(), "C07 status: only registered codes are accepted");
            assert!(u16::from(st) == code, "C07 status: u16::from(try_from(c)) == c");
        }
        Err(_) => assert!(registered(code).is_none(), "C07 status: every modelled code is accepted"),
    }
    s.reached();
}

/// Class digit: the first digit of every modelled code is 1..5 and the variant's code stays in its class.
pub fn status_class<S: Src>(s: &mut S) {
    let code = s.u16();
    if let Ok(st) = StatusCode::try_from(code) {
        let c = u16::from(st);
        assert!(c >= 100 && c <= 599, "C07 status: codes are three-digit 1xx..5xx");
        let phrase: &str = st.into();
        assert!(phrase.len() >= 2 && phrase.len() <= 40, "C07 status: reason phrase is non-empty, single line sized");
        let b = phrase.as_bytes();
        let mut i = 0;
        while i < b.len() {
            assert!(b[i] >= 0x20 && b[i] < 0x7f, "C07 status: reason phrase is printable ASCII (no CR/LF)");
            i += 1;
        }
    }
    s.reached();
}

include!("gen/c07_list.rs");
