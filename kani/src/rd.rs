//! In-memory reader with a *concrete* read plan (DESIGN §2: segmentations are concrete per harness).
use std::io::Read;

#[derive(Clone, Copy)]
pub enum Plan {
    /// each read returns as much as asked/available
    Whole,
    /// each read returns at most one byte
    ByteWise,
    /// reads never cross offset k (one segment boundary at k)
    Split(usize),
}

pub struct Rd<'a> {
    pub data: &'a [u8],
    pub pos: usize,
    pub plan: Plan,
    /// number of read calls made
    pub calls: usize,
}

impl<'a> Rd<'a> {
    pub fn new(data: &'a [u8], plan: Plan) -> Self {
        Rd { data, pos: 0, plan, calls: 0 }
    }
}

impl<'a> Read for Rd<'a> {
    fn read(&mut self, buf: &mut [u8]) -> std::io::Result<usize> {
        self.calls += 1;
        let avail = self.data.len() - self.pos;
        let mut n = if buf.len() < avail { buf.len() } else { avail };
        match self.plan {
            Plan::Whole => {}
            Plan::ByteWise => {
                if n > 1 {
                    n = 1
                }
            }
            Plan::Split(k) => {
                if self.pos < k && self.pos + n > k {
                    n = k - self.pos
                }
            }
        }
        buf[..n].copy_from_slice(&self.data[self.pos..self.pos + n]);
        self.pos += n;
        Ok(n)
    }
}
