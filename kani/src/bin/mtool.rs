//! Native evaluator of the real kernels for engine M: translator validation and counterexample replay.
//! Reads one request per line on stdin, prints one result per line.
//!   wildcard <hex utf8 pattern> <hex utf8 text>      -> 0 | 1
//!   date <i64 timestamp>                              -> ts year month day weekday hour minute second | PANIC
//!   datestr <i64 timestamp>                           -> the IMF-fixdate string | PANIC
use std::io::BufRead;

fn unhex(s: &str) -> Vec<u8> {
    let mut v = Vec::new();
    if s == "-" {
        return v;
    }
    let mut i = 0;
    while i + 1 < s.len() {
        v.push(u8::from_str_radix(&s[i..i + 2], 16).unwrap());
        i += 2;
    }
    v
}

fn main() {
    std::panic::set_hook(Box::new(|_| {}));
    let stdin = std::io::stdin();
    for line in stdin.lock().lines() {
        let line = line.unwrap();
        let parts: Vec<&str> = line.split_whitespace().collect();
        if parts.is_empty() {
            continue;
        }
        match parts[0] {
            // conf <hex utf8 of a whole configuration text> -> Debug print of the tree | ERR <message> | PANIC
            "conf" => {
                let text = String::from_utf8(unhex(parts[1])).unwrap();
                let r = std::panic::catch_unwind(|| humphrey_server::config::tree::parse_conf(&text, "f"));
                match r {
                    Ok(Ok(node)) => println!("OK {:?}", node),
                    Ok(Err(e)) => println!("ERR {}", format!("{:?}", e).replace('\n', " ")),
                    Err(_) => println!("PANIC"),
                }
            }
            // json <hex utf8> -> OK | ERR | PANIC      jsond <depth> <hex> -> same through parse_max_depth
            "json" | "jsond" => {
                let (depth, hx) = if parts[0] == "json" { (None, parts[1]) } else { (Some(parts[1].parse::<usize>().unwrap()), parts[2]) };
                let text = String::from_utf8(unhex(hx)).unwrap();
                let r = std::panic::catch_unwind(|| match depth {
                    None => humphrey_json::Value::parse(&text).is_ok(),
                    Some(d) => humphrey_json::Value::parse_max_depth(&text, d).is_ok(),
                });
                match r {
                    Ok(true) => println!("OK"),
                    Ok(false) => println!("ERR"),
                    Err(_) => println!("PANIC"),
                }
            }
            "sha1" => {
                use humphrey_ws::verif::SHA1Hash;
                let m = unhex(parts[1]);
                let r = std::panic::catch_unwind(|| m.hash());
                match r {
                    Ok(d) => println!("{}", d.iter().map(|b| format!("{:02x}", b)).collect::<String>()),
                    Err(_) => println!("PANIC"),
                }
            }
            "wildcard" => {
                let p = String::from_utf8(unhex(parts[1])).unwrap();
                let t = String::from_utf8(unhex(parts[2])).unwrap();
                let r = std::panic::catch_unwind(|| humphrey::krauss::wildcard_match(&p, &t));
                match r {
                    Ok(b) => println!("{}", if b { 1 } else { 0 }),
                    Err(_) => println!("PANIC"),
                }
            }
            "date" => {
                let ts: i64 = parts[1].parse().unwrap();
                let r = std::panic::catch_unwind(|| humphrey::http::date::DateTime::from(ts));
                match r {
                    Ok(d) => println!("{} {} {} {} {} {} {} {}", d.timestamp, d.year, d.month, d.day, d.weekday, d.hour, d.minute, d.second),
                    Err(_) => println!("PANIC"),
                }
            }
            "datestr" => {
                let ts: i64 = parts[1].parse().unwrap();
                let r = std::panic::catch_unwind(|| humphrey::http::date::DateTime::from(ts).to_string());
                match r {
                    Ok(s) => println!("{}", s),
                    Err(_) => println!("PANIC"),
                }
            }
            // cache <limit> <time_limit> <size> <n> {<route> <host> <len> <age>}*n <op> <route> <host> [<len>]
            //   op = set | get ; prints: OK size=<s> items=<route>:<host>:<len>,... get=<route>:<host>:<len>|none   or PANIC
            "cache" => {
                use humphrey_server::cache::{Cache, CachedItem};
                use humphrey::http::mime::MimeType;
                let nums: Vec<&str> = parts[1..].to_vec();
                let limit: usize = nums[0].parse().unwrap();
                let tl: u64 = nums[1].parse().unwrap();
                let size: usize = nums[2].parse().unwrap();
                let n: usize = nums[3].parse().unwrap();
                let now = std::time::SystemTime::now().duration_since(std::time::UNIX_EPOCH).unwrap().as_secs();
                let mut dq = std::collections::VecDeque::new();
                for i in 0..n {
                    let b = 4 + 4 * i;
                    let len: usize = nums[b + 2].parse().unwrap();
                    let age: u64 = nums[b + 3].parse().unwrap();
                    dq.push_back(CachedItem { route: nums[b].to_string(), host: nums[b + 1].parse().unwrap(), mime_type: MimeType::TextHtml, cache_time: now - age, data: vec![i as u8 + 1; len] });
                }
                let b = 4 + 4 * n;
                let op = nums[b].to_string();
                let route = nums[b + 1].to_string();
                let host: usize = nums[b + 2].parse().unwrap();
                let vlen: usize = if op == "set" { nums[b + 3].parse().unwrap() } else { 0 };
                let r = std::panic::catch_unwind(move || {
                    let mut c = Cache::verif_from_parts(limit, tl, size, dq);
                    if op == "set" {
                        c.set(&route, host, vec![0xEE; vlen], MimeType::TextCss);
                    }
                    let got = c.get(&route, host).map(|i| format!("{}:{}:{}:{}", i.route, i.host, i.data.len(), i.data.first().copied().unwrap_or(0))).unwrap_or("none".to_string());
                    let (_l, _t, sz, items) = c.verif_parts();
                    let list: Vec<String> = items.iter().map(|i| format!("{}:{}:{}:{}", i.route, i.host, i.data.len(), i.data.first().copied().unwrap_or(0))).collect();
                    format!("OK size={} items={} get={}", sz, list.join(","), got)
                });
                match r {
                    Ok(s) => println!("{}", s),
                    Err(_) => println!("PANIC"),
                }
            }
            _ => println!("?"),
        }
    }
}
