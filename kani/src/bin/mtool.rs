//! Native evaluator of the real kernels for engine M: translator validation and counterexample replay.
//! Reads one request per line on stdin, prints one result per line.
//!   wildcard <hex utf8 pattern> <hex utf8 text>      -> 0 | 1
//!   date <i64 timestamp>                              -> ts year month day weekday hour minute second | PANIC
//!   datestr <i64 timestamp>                           -> the IMF-fixdate string | PANIC
use std::io::BufRead;

fn unhex(s: &str) -> Vec<u8> {
    let mut v = Vec::new();
    if s == "-" {
        return v;
    }
    let mut i = 0;
    while i + 1 < s.len() {
        v.push(u8::from_str_radix(&s[i..i + 2], 16).unwrap());
        i += 2;
    }
    v
}

fn main() {
    std::panic::set_hook(Box::new(|_| {}));
    let stdin = std::io::stdin();
    for line in stdin.lock().lines() {
        let line = line.unwrap();
        let parts: Vec<&str> = line.split_whitespace().collect();
        if parts.is_empty() {
            continue;
        }
        match parts[0] {
            "wildcard" => {
                let p = String::from_utf8(unhex(parts[1])).unwrap();
                let t = String::from_utf8(unhex(parts[2])).unwrap();
                let r = std::panic::catch_unwind(|| humphrey::krauss::wildcard_match(&p, &t));
                match r {
                    Ok(b) => println!("{}", if b { 1 } else { 0 }),
                    Err(_) => println!("PANIC"),
                }
            }
            "date" => {
                let ts: i64 = parts[1].parse().unwrap();
                let r = std::panic::catch_unwind(|| humphrey::http::date::DateTime::from(ts));
                match r {
                    Ok(d) => println!("{} {} {} {} {} {} {} {}", d.timestamp, d.year, d.month, d.day, d.weekday, d.hour, d.minute, d.second),
                    Err(_) => println!("PANIC"),
                }
            }
            "datestr" => {
                let ts: i64 = parts[1].parse().unwrap();
                let r = std::panic::catch_unwind(|| humphrey::http::date::DateTime::from(ts).to_string());
                match r {
                    Ok(s) => println!("{}", s),
                    Err(_) => println!("PANIC"),
                }
            }
            _ => println!("?"),
        }
    }
}
