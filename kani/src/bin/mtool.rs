//! Native evaluator of the real kernels for engine M: translator validation and counterexample replay.
//! Reads one request per line on stdin, prints one result per line.
//!   wildcard <hex utf8 pattern> <hex utf8 text>      -> 0 | 1
//!   date <i64 timestamp>                              -> ts year month day weekday hour minute second | PANIC
//!   datestr <i64 timestamp>                           -> the IMF-fixdate string | PANIC
use std::io::BufRead;

#[global_allocator]
static ALLOC: vk::alloc_track::Tracking = vk::alloc_track::Tracking;

fn unhex(s: &str) -> Vec<u8> {
    let mut v = Vec::new();
    if s == "-" {
        return v;
    }
    let mut i = 0;
    while i + 1 < s.len() {
        v.push(u8::from_str_radix(&s[i..i + 2], 16).unwrap());
        i += 2;
    }
    v
}

fn hexs(b: &[u8]) -> String {
    if b.is_empty() {
        return "-".to_string();
    }
    b.iter().map(|x| format!("{:02x}", x)).collect()
}

fn dump_str(s: &str) -> String {
    let cps: Vec<String> = s.chars().map(|c| format!("{:x}", c as u32)).collect();
    format!("S{}:{}", cps.len(), cps.join(","))
}

fn dump_value(v: &humphrey_json::Value) -> String {
    use humphrey_json::Value;
    match v {
        Value::Null => "n".to_string(),
        Value::Bool(true) => "t".to_string(),
        Value::Bool(false) => "f".to_string(),
        Value::Number(x) => format!("N{:016x}", x.to_bits()),
        Value::String(s) => dump_str(s),
        Value::Array(a) => format!("A[{}]", a.iter().map(dump_value).collect::<Vec<_>>().join(";")),
        Value::Object(o) => format!("O{{{}}}", o.iter().map(|(k, v)| format!("{}={}", dump_str(k), dump_value(v))).collect::<Vec<_>>().join(";")),
    }
}

fn undump_str(b: &[u8], pos: &mut usize) -> String {
    assert!(b[*pos] == b'S');
    *pos += 1;
    let mut n = 0usize;
    while b[*pos] != b':' {
        n = n * 10 + (b[*pos] - b'0') as usize;
        *pos += 1;
    }
    *pos += 1;
    let mut out = String::new();
    for i in 0..n {
        let mut cp = 0u32;
        while *pos < b.len() && (b[*pos] as char).is_ascii_hexdigit() {
            cp = cp * 16 + (b[*pos] as char).to_digit(16).unwrap();
            *pos += 1;
        }
        out.push(char::from_u32(cp).unwrap());
        if i + 1 < n {
            assert!(b[*pos] == b',');
            *pos += 1;
        }
    }
    out
}

fn undump_value(b: &[u8], pos: &mut usize) -> humphrey_json::Value {
    use humphrey_json::Value;
    match b[*pos] {
        b'n' => { *pos += 1; Value::Null }
        b't' => { *pos += 1; Value::Bool(true) }
        b'f' => { *pos += 1; Value::Bool(false) }
        b'N' => {
            let h = std::str::from_utf8(&b[*pos + 1..*pos + 17]).unwrap();
            *pos += 17;
            Value::Number(f64::from_bits(u64::from_str_radix(h, 16).unwrap()))
        }
        b'S' => Value::String(undump_str(b, pos)),
        b'A' => {
            *pos += 2;
            let mut items = Vec::new();
            while b[*pos] != b']' {
                items.push(undump_value(b, pos));
                if b[*pos] == b';' { *pos += 1; }
            }
            *pos += 1;
            Value::Array(items)
        }
        b'O' => {
            *pos += 2;
            let mut items = Vec::new();
            while b[*pos] != b'}' {
                let k = undump_str(b, pos);
                assert!(b[*pos] == b'=');
                *pos += 1;
                let v = undump_value(b, pos);
                items.push((k, v));
                if b[*pos] == b';' { *pos += 1; }
            }
            *pos += 1;
            Value::Object(items)
        }
        _ => panic!("bad dump"),
    }
}

fn main() {
    std::panic::set_hook(Box::new(|_| {}));
    let stdin = std::io::stdin();
    for line in stdin.lock().lines() {
        let line = line.unwrap();
        let parts: Vec<&str> = line.split_whitespace().collect();
        if parts.is_empty() {
            continue;
        }
        match parts[0] {
            // conf <hex utf8 of a whole configuration text> -> Debug print of the tree | ERR <message> | PANIC
            "conf" => {
                let text = String::from_utf8(unhex(parts[1])).unwrap();
                let r = std::panic::catch_unwind(|| humphrey_server::config::tree::parse_conf(&text, "f"));
                match r {
                    Ok(Ok(node)) => println!("OK {:?}", node),
                    Ok(Err(e)) => println!("ERR {}", format!("{:?}", e).replace('\n', " ")),
                    Err(_) => println!("PANIC"),
                }
            }
            // json <hex utf8> -> OK | ERR | PANIC      jsond <depth> <hex> -> same through parse_max_depth
            "json" | "jsond" => {
                let (depth, hx) = if parts[0] == "json" { (None, parts[1]) } else { (Some(parts[1].parse::<usize>().unwrap()), parts[2]) };
                let text = String::from_utf8(unhex(hx)).unwrap();
                let r = std::panic::catch_unwind(|| match depth {
                    None => humphrey_json::Value::parse(&text).is_ok(),
                    Some(d) => humphrey_json::Value::parse_max_depth(&text, d).is_ok(),
                });
                match r {
                    Ok(true) => println!("OK"),
                    Ok(false) => println!("ERR"),
                    Err(_) => println!("PANIC"),
                }
            }
            // wsmsg b|n <arrived> <eof 0|1> <hex client bytes> -> one recv (b) / recv_nonblocking (n) on a loopback connection whose peer has
            //   delivered the first <arrived> bytes when the call starts (the rest follows 250 ms later; with eof=1 the peer then shuts its
            //   side down, otherwise it stays silent), then the stream is dropped:
            //   "OK <text 0|1> <hex payload>|ERR <error>|NONE|PANIC ; <hex of everything the server wrote>"
            "wsmsg" => {
                use std::io::{Read, Write};
                let nonblocking = parts[1] == "n";
                let arrived: usize = parts[2].parse().unwrap();
                let eof = parts[3] == "1";
                let data = unhex(parts[4]);
                let listener = std::net::TcpListener::bind("127.0.0.1:0").unwrap();
                let addr = listener.local_addr().unwrap();
                let k = arrived.min(data.len());
                let late = k < data.len();
                let client = std::thread::spawn(move || {
                    let mut c = std::net::TcpStream::connect(addr).unwrap();
                    c.set_nodelay(true).ok();
                    c.write_all(&data[..k]).ok();
                    c.flush().ok();
                    if late {
                        std::thread::sleep(std::time::Duration::from_millis(250));
                        c.write_all(&data[k..]).ok();
                        c.flush().ok();
                    }
                    if eof {
                        c.shutdown(std::net::Shutdown::Write).ok();
                    }
                    let mut out = Vec::new();
                    c.set_read_timeout(Some(std::time::Duration::from_secs(5))).ok();
                    c.read_to_end(&mut out).ok();
                    out
                });
                let (server, _) = listener.accept().unwrap();
                server.set_read_timeout(Some(std::time::Duration::from_secs(3))).ok();
                std::thread::sleep(std::time::Duration::from_millis(if late || eof { 80 } else { 40 }));
                let r = std::panic::catch_unwind(std::panic::AssertUnwindSafe(|| {
                    let mut ws = humphrey_ws::stream::WebsocketStream::new(humphrey::stream::Stream::Tcp(server));
                    let s = if nonblocking {
                        match ws.recv_nonblocking() {
                            humphrey_ws::restion::Restion::Ok(m) => format!("OK {} {}", m.is_text() as u8, hexs(m.bytes())),
                            humphrey_ws::restion::Restion::Err(e) => format!("ERR {:?}", e),
                            humphrey_ws::restion::Restion::None => "NONE".to_string(),
                        }
                    } else {
                        match ws.recv() {
                            Ok(m) => format!("OK {} {}", m.is_text() as u8, hexs(m.bytes())),
                            Err(e) => format!("ERR {:?}", e),
                        }
                    };
                    drop(ws);
                    s
                }));
                let out = client.join().unwrap();
                match r {
                    Ok(s) => println!("{} ; {}", s, hexs(&out)),
                    Err(_) => println!("PANIC ; {}", hexs(&out)),
                }
            }
            // req <plan> <hex bytes> -> Request::from_stream over a reader that delivers the bytes whole (plan 0), one byte per read (1) or split
            //   at offset k (k >= 2):  "OK <method Debug>|<uri hex>|<query hex>|<version hex>|<headers Debug>|<content hex or none>" | "ERR <error Debug>" | PANIC
            "req" => {
                struct Planned {
                    data: Vec<u8>,
                    pos: usize,
                    plan: usize,
                }
                impl std::io::Read for Planned {
                    fn read(&mut self, buf: &mut [u8]) -> std::io::Result<usize> {
                        let avail = self.data.len() - self.pos;
                        if avail == 0 || buf.is_empty() {
                            return Ok(0);
                        }
                        let want = match self.plan {
                            0 => avail,
                            1 => 1,
                            k => {
                                if self.pos < k {
                                    k - self.pos
                                } else {
                                    avail
                                }
                            }
                        };
                        let n = want.min(avail).min(buf.len());
                        buf[..n].copy_from_slice(&self.data[self.pos..self.pos + n]);
                        self.pos += n;
                        Ok(n)
                    }
                }
                let plan: usize = parts[1].parse().unwrap();
                let mut rd = Planned { data: unhex(parts[2]), pos: 0, plan };
                let addr: std::net::SocketAddr = "127.0.0.1:4000".parse().unwrap();
                let r = std::panic::catch_unwind(std::panic::AssertUnwindSafe(|| humphrey::http::Request::from_stream(&mut rd, addr)));
                match r {
                    Ok(Ok(q)) => println!(
                        "OK {:?}|{}|{}|{}|{:?}|{}",
                        q.method,
                        hexs(q.uri.as_bytes()),
                        hexs(q.query.as_bytes()),
                        hexs(q.version.as_bytes()),
                        q.headers,
                        match &q.content {
                            Some(c) => hexs(c),
                            None => "none".to_string(),
                        }
                    ),
                    Ok(Err(e)) => println!("ERR {:?}", e),
                    Err(_) => println!("PANIC"),
                }
            }
            // framedec <hex> -> Frame::from_stream on the bytes: "OK <fin> <rsv bits> <opcode u8> <mask> <length> <key hex> <payload hex>" | "ERR <error>" | PANIC
            "framedec" => {
                let data = unhex(parts[1]);
                let r = std::panic::catch_unwind(|| humphrey_ws::verif::Frame::from_stream(&data[..]));
                match r {
                    Ok(Ok(f)) => {
                        let (fin, rsv, op, mask, len, key, pay) = humphrey_ws::verif::frame_parts(f);
                        println!("OK {} {}{}{} {} {} {} {} {}", fin as u8, rsv[0] as u8, rsv[1] as u8, rsv[2] as u8, op as u8, mask as u8, len, hexs(&key), hexs(&pay));
                    }
                    Ok(Err(e)) => println!("ERR {:?}", e),
                    Err(_) => println!("PANIC"),
                }
            }
            // frameenc <fin> <rsv bits> <opcode u8> <mask> <key hex> <payload hex> -> hex of Vec<u8>::from(frame) (length field = payload length)
            "frameenc" => {
                use std::convert::TryFrom;
                let fin = parts[1] == "1";
                let rb: Vec<bool> = parts[2].chars().map(|c| c == '1').collect();
                let op = humphrey_ws::verif::Opcode::try_from(parts[3].parse::<u8>().unwrap()).unwrap();
                let mask = parts[4] == "1";
                let k = unhex(parts[5]);
                let pay = unhex(parts[6]);
                let r = std::panic::catch_unwind(|| {
                    let f = humphrey_ws::verif::frame_from_parts(fin, [rb[0], rb[1], rb[2]], op, mask, pay.len() as u64, [k[0], k[1], k[2], k[3]], pay.clone());
                    let v: Vec<u8> = f.into();
                    v
                });
                match r {
                    Ok(v) => println!("{}", hexs(&v)),
                    Err(_) => println!("PANIC"),
                }
            }
            // reqalloc <hex bytes> -> "<OK|ERR|PANIC> alloc=<largest single allocation request in bytes during Request::from_stream>"
            "reqalloc" => {
                let data = unhex(parts[1]);
                let addr: std::net::SocketAddr = "127.0.0.1:4000".parse().unwrap();
                vk::alloc_track::reset();
                let r = std::panic::catch_unwind(std::panic::AssertUnwindSafe(|| {
                    let mut rd: &[u8] = &data[..];
                    humphrey::http::Request::from_stream(&mut rd, addr).is_ok()
                }));
                let a = vk::alloc_track::max_request();
                match r {
                    Ok(true) => println!("OK alloc={}", a),
                    Ok(false) => println!("ERR alloc={}", a),
                    Err(_) => println!("PANIC alloc={}", a),
                }
            }
            // resp <plan> <hex bytes> -> Response::from_stream under a read plan: "OK <version hex>|<status u16>|<headers Debug>|<body hex>" | "ERR <error>" | PANIC
            // respalloc <hex bytes> -> "<OK|ERR|PANIC> alloc=<largest single allocation request>"
            "resp" | "respalloc" => {
                struct Planned {
                    data: Vec<u8>,
                    pos: usize,
                    plan: usize,
                }
                impl std::io::Read for Planned {
                    fn read(&mut self, buf: &mut [u8]) -> std::io::Result<usize> {
                        let avail = self.data.len() - self.pos;
                        if avail == 0 || buf.is_empty() {
                            return Ok(0);
                        }
                        let want = match self.plan {
                            0 => avail,
                            1 => 1,
                            k => {
                                if self.pos < k {
                                    k - self.pos
                                } else {
                                    avail
                                }
                            }
                        };
                        let n = want.min(avail).min(buf.len());
                        buf[..n].copy_from_slice(&self.data[self.pos..self.pos + n]);
                        self.pos += n;
                        Ok(n)
                    }
                }
                let alloc = parts[0] == "respalloc";
                let plan: usize = if alloc { 0 } else { parts[1].parse().unwrap() };
                let mut rd = Planned { data: unhex(parts[if alloc { 1 } else { 2 }]), pos: 0, plan };
                vk::alloc_track::reset();
                let r = std::panic::catch_unwind(std::panic::AssertUnwindSafe(|| humphrey::http::Response::from_stream(&mut rd)));
                let a = vk::alloc_track::max_request();
                if alloc {
                    match r {
                        Ok(Ok(_)) => println!("OK alloc={}", a),
                        Ok(Err(_)) => println!("ERR alloc={}", a),
                        Err(_) => println!("PANIC alloc={}", a),
                    }
                } else {
                    match r {
                        Ok(Ok(q)) => println!("OK {}|{}|{:?}|{}", hexs(q.version.as_bytes()), Into::<u16>::into(q.status_code), q.headers, hexs(&q.body)),
                        Ok(Err(e)) => println!("ERR {:?}", e),
                        Err(_) => println!("PANIC"),
                    }
                }
            }
            "sha1" => {
                use humphrey_ws::verif::SHA1Hash;
                let m = unhex(parts[1]);
                let r = std::panic::catch_unwind(|| m.hash());
                match r {
                    Ok(d) => println!("{}", d.iter().map(|b| format!("{:02x}", b)).collect::<String>()),
                    Err(_) => println!("PANIC"),
                }
            }
            "wildcard" => {
                let p = String::from_utf8(unhex(parts[1])).unwrap();
                let t = String::from_utf8(unhex(parts[2])).unwrap();
                let r = std::panic::catch_unwind(|| humphrey::krauss::wildcard_match(&p, &t));
                match r {
                    Ok(b) => println!("{}", if b { 1 } else { 0 }),
                    Err(_) => println!("PANIC"),
                }
            }
            "date" => {
                let ts: i64 = parts[1].parse().unwrap();
                let r = std::panic::catch_unwind(|| humphrey::http::date::DateTime::from(ts));
                match r {
                    Ok(d) => println!("{} {} {} {} {} {} {} {}", d.timestamp, d.year, d.month, d.day, d.weekday, d.hour, d.minute, d.second),
                    Err(_) => println!("PANIC"),
                }
            }
            "datestr" => {
                let ts: i64 = parts[1].parse().unwrap();
                let r = std::panic::catch_unwind(|| humphrey::http::date::DateTime::from(ts).to_string());
                match r {
                    Ok(s) => println!("{}", s),
                    Err(_) => println!("PANIC"),
                }
            }
            // cache <limit> <time_limit> <size> <n> {<route> <host> <len> <age>}*n <op> <route> <host> [<len>]
            //   op = set | get ; prints: OK size=<s> items=<route>:<host>:<len>,... get=<route>:<host>:<len>|none   or PANIC
            "cache" => {
                use humphrey_server::cache::{Cache, CachedItem};
                use humphrey::http::mime::MimeType;
                let nums: Vec<&str> = parts[1..].to_vec();
                let limit: usize = nums[0].parse().unwrap();
                let tl: u64 = nums[1].parse().unwrap();
                let size: usize = nums[2].parse().unwrap();
                let n: usize = nums[3].parse().unwrap();
                let now = std::time::SystemTime::now().duration_since(std::time::UNIX_EPOCH).unwrap().as_secs();
                let mut dq = std::collections::VecDeque::new();
                for i in 0..n {
                    let b = 4 + 4 * i;
                    let len: usize = nums[b + 2].parse().unwrap();
                    let age: u64 = nums[b + 3].parse().unwrap();
                    dq.push_back(CachedItem { route: nums[b].to_string(), host: nums[b + 1].parse().unwrap(), mime_type: MimeType::TextHtml, cache_time: now - age, data: vec![i as u8 + 1; len] });
                }
                let b = 4 + 4 * n;
                let op = nums[b].to_string();
                let route = nums[b + 1].to_string();
                let host: usize = nums[b + 2].parse().unwrap();
                let vlen: usize = if op == "set" { nums[b + 3].parse().unwrap() } else { 0 };
                let r = std::panic::catch_unwind(move || {
                    let mut c = Cache::verif_from_parts(limit, tl, size, dq);
                    if op == "set" {
                        c.set(&route, host, vec![0xEE; vlen], MimeType::TextCss);
                    }
                    let got = c.get(&route, host).map(|i| format!("{}:{}:{}:{}", i.route, i.host, i.data.len(), i.data.first().copied().unwrap_or(0))).unwrap_or("none".to_string());
                    let (_l, _t, sz, items) = c.verif_parts();
                    let list: Vec<String> = items.iter().map(|i| format!("{}:{}:{}:{}", i.route, i.host, i.data.len(), i.data.first().copied().unwrap_or(0))).collect();
                    format!("OK size={} items={} get={}", sz, list.join(","), got)
                });
                match r {
                    Ok(s) => println!("{}", s),
                    Err(_) => println!("PANIC"),
                }
            }
            // confdir <hex dir> <hex utf8 configuration text> -> like `conf`, with the working directory set to <dir> (relative include paths)
            "confdir" => {
                let dir = String::from_utf8(unhex(parts[1])).unwrap();
                let text = String::from_utf8(unhex(parts[2])).unwrap();
                std::env::set_current_dir(&dir).unwrap();
                let r = std::panic::catch_unwind(|| humphrey_server::config::tree::parse_conf(&text, "f"));
                match r {
                    Ok(Ok(node)) => println!("OK {:?}", node),
                    Ok(Err(e)) => println!("ERR {}", format!("{:?}", e).replace('\n', " ")),
                    Err(_) => println!("PANIC"),
                }
            }
            // reqaddr <hex request> -> "OK <origin>|<proxy,proxy,..>|<port>" (peer 127.0.0.1:4000) | ERR | PANIC
            "reqaddr" => {
                let data = unhex(parts[1]);
                let addr: std::net::SocketAddr = "127.0.0.1:4000".parse().unwrap();
                let r = std::panic::catch_unwind(move || {
                    let mut cur = std::io::Cursor::new(data);
                    humphrey::http::Request::from_stream(&mut cur, addr)
                });
                match r {
                    Ok(Ok(q)) => println!("OK {}|{}|{}", q.address.origin_addr, q.address.proxies.iter().map(|p| p.to_string()).collect::<Vec<_>>().join(","), q.address.port),
                    Ok(Err(_)) => println!("ERR"),
                    Err(_) => println!("PANIC"),
                }
            }
            // pctenc <hex bytes> -> hex of the percent-encoded text | PANIC
            "pctenc" => {
                use humphrey::percent::PercentEncode;
                let b = unhex(parts[1]);
                match std::panic::catch_unwind(|| b.percent_encode()) {
                    Ok(s) => println!("{}", hexs(s.as_bytes())),
                    Err(_) => println!("PANIC"),
                }
            }
            // pctdec <hex utf8 text> -> SOME <hex> | NONE | PANIC
            "pctdec" => {
                use humphrey::percent::PercentDecode;
                let t = String::from_utf8(unhex(parts[1])).unwrap();
                match std::panic::catch_unwind(|| t.percent_decode()) {
                    Ok(Some(v)) => println!("SOME {}", hexs(&v)),
                    Ok(None) => println!("NONE"),
                    Err(_) => println!("PANIC"),
                }
            }
            // jsonv <hex utf8 text> -> OK <canonical dump of the Value> | ERR | PANIC
            //   dump: n | t | f | N<f64 bits hex> | S<len>:<code points hex, comma separated> | A[..,..] | O{S..=v,..}
            "jsonv" => {
                let text = String::from_utf8(unhex(parts[1])).unwrap();
                let r = std::panic::catch_unwind(|| humphrey_json::Value::parse(&text).ok().map(|v| dump_value(&v)));
                match r {
                    Ok(Some(d)) => println!("OK {}", d),
                    Ok(None) => println!("ERR"),
                    Err(_) => println!("PANIC"),
                }
            }
            // jsonser <indent|-> <dump> -> hex utf8 of serialize()/serialize_pretty(indent) of the value described by <dump> | PANIC
            "jsonser" => {
                let dump = parts[2].to_string();
                let indent: Option<usize> = if parts[1] == "-" { None } else { Some(parts[1].parse().unwrap()) };
                let r = std::panic::catch_unwind(move || {
                    let mut pos = 0usize;
                    let v = undump_value(dump.as_bytes(), &mut pos);
                    match indent {
                        None => v.serialize(),
                        Some(i) => v.serialize_pretty(i),
                    }
                });
                match r {
                    Ok(s) => println!("{}", hexs(s.as_bytes())),
                    Err(_) => println!("PANIC"),
                }
            }
            _ => println!("?"),
        }
    }
}
