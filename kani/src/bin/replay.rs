//! Native replay of a counterexample: `replay <harness> <hex bytes>`.
//! Exit 0: body completed without a failed assertion (NOT reproduced);
//! exit 101: panic (assertion failed / real code panicked) = reproduced;
//! exit 3: counterexample violates a harness assumption; exit 2: usage.
use vk::{dispatch_all, ReplaySrc};

#[global_allocator]
static ALLOC: vk::alloc_track::Tracking = vk::alloc_track::Tracking;

fn main() {
    let args: Vec<String> = std::env::args().collect();
    if args.len() == 2 && args[1] == "--list" {
        for n in vk::all_names() {
            println!("{}", n);
        }
        return;
    }
    if args.len() < 2 {
        eprintln!("usage: replay <harness> [hex]");
        std::process::exit(2);
    }
    let hex = args.get(2).map(|s| s.as_str()).unwrap_or("");
    let mut data = Vec::new();
    let hb = hex.as_bytes();
    let mut i = 0;
    while i + 1 < hb.len() {
        data.push(u8::from_str_radix(&hex[i..i + 2], 16).expect("hex"));
        i += 2;
    }
    let mut s = ReplaySrc { data, pos: 0, reached: false, only: None };
    if !dispatch_all(&args[1], &mut s) {
        eprintln!("replay: unknown harness {}", args[1]);
        std::process::exit(2);
    }
    println!("replay: completed without failure (reached_end={})", s.reached);
}
