//! Scripted in-memory connection for harnesses that drive code written against `humphrey::stream::Stream`.
//!
//! Under Kani a `TcpStream` value is fabricated from fd 3 (no syscall) and `<TcpStream as Read>::read`,
//! `<TcpStream as Write>::write`, `TcpStream::set_nonblocking`, `Instant::now` and `<OwnedFd as Drop>::drop` are
//! replaced by the functions below (`-Z stubbing`); the input script, the concrete read plan and the captured
//! output live in statics. Natively (replay) a real loopback TCP connection plays the same script.
use crate::rd::Plan;
use humphrey::stream::Stream;

pub const IN_CAP: usize = 48;
pub const OUT_CAP: usize = 64;

pub static mut IN: [u8; IN_CAP] = [0; IN_CAP];
pub static mut IN_LEN: usize = 0;
pub static mut IN_POS: usize = 0;
pub static mut PLAN_KIND: usize = 0; // 0 whole, 1 byte-wise, 2 split at PLAN_K
pub static mut PLAN_K: usize = 0;
pub static mut EOF_WOULD_BLOCK: bool = false; // at end of input: false -> Ok(0) (peer closed), true -> Err(WouldBlock) (nothing yet)
pub static mut OUT: [u8; OUT_CAP] = [0; OUT_CAP];
pub static mut OUT_LEN: usize = 0;
pub static mut READ_CALLS: usize = 0;
pub static mut FD_DROPS: usize = 0;
pub static mut NONBLOCK: bool = false;
/// one WouldBlock is injected when a NON-BLOCKING read happens at this input position (data "not there yet")
pub static mut GAP_AT: usize = usize::MAX;
pub static mut GAP_USED: bool = false;

pub fn plan_kind(p: Plan) -> (usize, usize) {
    match p {
        Plan::Whole => (0, 0),
        Plan::ByteWise => (1, 0),
        Plan::Split(k) => (2, k),
    }
}

#[cfg(kani)]
pub fn stub_read(_s: &mut std::net::TcpStream, buf: &mut [u8]) -> std::io::Result<usize> {
    unsafe {
        READ_CALLS += 1;
        if NONBLOCK && IN_POS == GAP_AT && !GAP_USED {
            GAP_USED = true;
            return Err(std::io::Error::from(std::io::ErrorKind::WouldBlock));
        }
        let avail = IN_LEN - IN_POS;
        if avail == 0 {
            if EOF_WOULD_BLOCK {
                return Err(std::io::Error::from(std::io::ErrorKind::WouldBlock));
            }
            return Ok(0);
        }
        let mut n = if buf.len() < avail { buf.len() } else { avail };
        if PLAN_KIND == 1 && n > 1 {
            n = 1;
        }
        if PLAN_KIND == 2 && IN_POS < PLAN_K && IN_POS + n > PLAN_K {
            n = PLAN_K - IN_POS;
        }
        buf[..n].copy_from_slice(&IN[IN_POS..IN_POS + n]);
        IN_POS += n;
        Ok(n)
    }
}

#[cfg(kani)]
pub fn stub_write(_s: &mut std::net::TcpStream, buf: &[u8]) -> std::io::Result<usize> {
    unsafe {
        let n = buf.len();
        if OUT_LEN + n <= OUT_CAP {
            OUT[OUT_LEN..OUT_LEN + n].copy_from_slice(buf);
        }
        OUT_LEN += n;
        Ok(buf.len())
    }
}

#[cfg(kani)]
pub fn stub_set_nonblocking(_s: &std::net::TcpStream, nb: bool) -> std::io::Result<()> {
    unsafe { NONBLOCK = nb };
    Ok(())
}

#[cfg(kani)]
pub fn stub_instant_now() -> std::time::Instant {
    unsafe { std::mem::zeroed() }
}

#[cfg(kani)]
pub fn stub_fd_drop(_fd: &mut std::os::fd::OwnedFd) {
    unsafe { FD_DROPS += 1 };
}

/// Output captured after the closure returned (and everything it owned was dropped).
pub struct Captured {
    pub bytes: [u8; OUT_CAP],
    pub len: usize,
}

/// Runs `f` with a connection whose peer sends `input` under `plan` (and then either closes or stays silent),
/// returns f's result and everything written to the connection (including what Drop impls write).
pub fn with_conn<R>(buf: &[u8; IN_CAP], len: usize, plan: Plan, silent_at_end: bool, f: impl FnOnce(Stream) -> R) -> (R, Captured) {
    with_conn_gap(buf, len, plan, silent_at_end, false, f)
}

/// `gap`: with Plan::Split(k), the bytes after offset k arrive LATER: a non-blocking read at k sees WouldBlock once
/// (natively: the client pauses 300 ms at the split).
pub fn with_conn_gap<R>(buf: &[u8; IN_CAP], len: usize, plan: Plan, silent_at_end: bool, gap: bool, f: impl FnOnce(Stream) -> R) -> (R, Captured) {
    let input: &[u8] = &buf[..len];
    #[cfg(kani)]
    {
        use std::os::fd::FromRawFd;
        unsafe {
            IN = *buf;
            IN_LEN = input.len();
            IN_POS = 0;
            let (k, v) = plan_kind(plan);
            PLAN_KIND = k;
            PLAN_K = v;
            EOF_WOULD_BLOCK = silent_at_end;
            OUT_LEN = 0;
            READ_CALLS = 0;
            FD_DROPS = 0;
            NONBLOCK = false;
            GAP_USED = false;
            GAP_AT = if gap { v } else { usize::MAX };
        }
        let stream = Stream::Tcp(unsafe { std::net::TcpStream::from_raw_fd(3) });
        let r = f(stream);
        let cap = unsafe { Captured { bytes: OUT, len: OUT_LEN } };
        (r, cap)
    }
    #[cfg(not(kani))]
    {
        use std::io::{Read, Write};
        let listener = std::net::TcpListener::bind("127.0.0.1:0").unwrap();
        let addr = listener.local_addr().unwrap();
        let data = input.to_vec();
        let (k, v) = plan_kind(plan);
        let client = std::thread::spawn(move || {
            let mut c = std::net::TcpStream::connect(addr).unwrap();
            c.set_nodelay(true).ok();
            let pause = std::time::Duration::from_millis(15);
            match k {
                0 => {
                    c.write_all(&data).ok();
                }
                1 => {
                    for b in data.iter() {
                        c.write_all(&[*b]).ok();
                        c.flush().ok();
                        std::thread::sleep(pause);
                    }
                }
                _ => {
                    let k = v.min(data.len());
                    c.write_all(&data[..k]).ok();
                    c.flush().ok();
                    std::thread::sleep(if gap { std::time::Duration::from_millis(300) } else { pause * 3 });
                    c.write_all(&data[k..]).ok();
                }
            }
            if silent_at_end {
                std::thread::sleep(std::time::Duration::from_millis(300));
            }
            c.shutdown(std::net::Shutdown::Write).ok();
            let mut out = Vec::new();
            c.set_read_timeout(Some(std::time::Duration::from_secs(5))).ok();
            c.read_to_end(&mut out).ok();
            out
        });
        let (server, _) = listener.accept().unwrap();
        server.set_read_timeout(Some(std::time::Duration::from_secs(5))).ok();
        if gap {
            // let the first segment arrive, the second must still be on its way when the handler polls
            std::thread::sleep(std::time::Duration::from_millis(80));
        }
        if k == 0 && !input.is_empty() {
            // let the whole script arrive before the first read
            std::thread::sleep(std::time::Duration::from_millis(60));
        }
        let r = f(Stream::Tcp(server));
        let out = client.join().unwrap();
        let mut cap = Captured { bytes: [0; OUT_CAP], len: out.len() };
        for (i, b) in out.iter().enumerate() {
            if i < OUT_CAP {
                cap.bytes[i] = *b;
            }
        }
        (r, cap)
    }
}

pub const STUBS: &str = "TcpStream read/write/set_nonblocking, Instant::now, OwnedFd::drop";
