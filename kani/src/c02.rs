//! C02 — header-table kernel (the request parser as a whole is outside the claim, see DESIGN §5 C02).
use crate::Src;
use humphrey::http::headers::{HeaderType, Headers};

pub const NAMES: [&str; 41] = [
    "Accept", "Accept-Charset", "Accept-Encoding", "Accept-Language", "Access-Control-Request-Method", "Access-Control-Request-Headers",
    "Authorization", "Cache-Control", "Connection", "Content-Encoding", "Content-Length", "Content-Type", "Cookie", "Date", "Expect",
    "Forwarded", "From", "Host", "Origin", "Pragma", "Referer", "Upgrade", "User-Agent", "Via", "Warning",
    "Access-Control-Allow-Origin", "Access-Control-Allow-Headers", "Access-Control-Allow-Methods", "Age", "Allow", "Content-Disposition",
    "Content-Language", "Content-Location", "ETag", "Expires", "Last-Modified", "Link", "Location", "Server", "Set-Cookie", "Transfer-Encoding",
];

fn bytes_eq(a: &[u8], b: &[u8]) -> bool {
    if a.len() != b.len() {
        return false;
    }
    let mut i = 0;
    while i < a.len() {
        if a[i] != b[i] {
            return false;
        }
        i += 1;
    }
    true
}

/// Known header IDX spelled with an arbitrary upper/lower-case mask parses to the same variant as its canonical spelling,
/// is not `Custom`, and prints back as the canonical name.
pub fn known_name<S: Src, const IDX: usize, const LEN: usize>(s: &mut S) {
    let canon = NAMES[IDX].as_bytes();
    assert!(canon.len() == LEN);
    let mut b = [0u8; LEN];
    let mut i = 0;
    while i < LEN {
        let c = canon[i];
        let flip = s.bool();
        b[i] = if c.is_ascii_alphabetic() && flip { c ^ 0x20 } else { c };
        i += 1;
    }
    let text = unsafe { std::str::from_utf8_unchecked(&b) };
    let got = HeaderType::from(text);
    let want = HeaderType::from(NAMES[IDX]);
    assert!(got == want, "C02 headers: names are matched case-insensitively");
    assert!(!matches!(got, HeaderType::Custom(_)), "C02 headers: a known name is not Custom");
    let printed = got.to_string();
    assert!(bytes_eq(printed.as_bytes(), canon), "C02 headers: known header prints its canonical name");
    s.reached();
    std::mem::forget(printed);
}

/// Two arbitrary N-byte printable-ASCII names: equal header types iff equal up to ASCII case.
pub fn custom_names<S: Src, const N: usize>(s: &mut S) {
    let a: [u8; N] = s.bytes::<N>();
    let b: [u8; N] = s.bytes::<N>();
    let mut i = 0;
    let mut same = true;
    while i < N {
        s.assume(a[i] >= 0x21 && a[i] < 0x7f && a[i] != b':');
        s.assume(b[i] >= 0x21 && b[i] < 0x7f && b[i] != b':');
        if a[i].to_ascii_lowercase() != b[i].to_ascii_lowercase() {
            same = false;
        }
        i += 1;
    }
    let ta = HeaderType::from(unsafe { std::str::from_utf8_unchecked(&a) });
    let tb = HeaderType::from(unsafe { std::str::from_utf8_unchecked(&b) });
    assert!((ta == tb) == same, "C02 headers: two names denote the same header iff they are equal ignoring ASCII case");
    s.reached();
    std::mem::forget(ta);
    std::mem::forget(tb);
}

fn pick(k: u8) -> HeaderType {
    match k % 3 {
        0 => HeaderType::Host,
        1 => HeaderType::Cookie,
        _ => HeaderType::Custom(String::from("x-a")),
    }
}

const VALS: [&str; 5] = ["v0", "v1", "v2", "v3", "v4"];

/// N headers with symbolic names from {Host, Cookie, Custom("x-a")} and distinct values (name parsing is `known_name`/`custom_names`): get = first with that name,
/// get_all = all with that name in insertion order, remove deletes exactly those.
pub fn table<S: Src, const N: usize>(s: &mut S) {
    let mut ks = [0u8; N];
    let mut h = Headers::new();
    let mut i = 0;
    while i < N {
        ks[i] = s.u8() % 3;
        h.add(pick(ks[i]), VALS[i]);
        i += 1;
    }
    let q = s.u8() % 3;
    let qn = pick(q);
    let qname = &qn;
    // reference
    let mut first: Option<usize> = None;
    let mut count = 0usize;
    let mut i = 0;
    while i < N {
        if ks[i] == q {
            if first.is_none() {
                first = Some(i);
            }
            count += 1;
        }
        i += 1;
    }
    match (h.get(qname), first) {
        (None, None) => {}
        (Some(v), Some(f)) => assert!(bytes_eq(v.as_bytes(), VALS[f].as_bytes()), "C02 headers: get returns the first value with that name"),
        _ => assert!(false, "C02 headers: get finds a header iff one with that name (any case) was added"),
    }
    let all = h.get_all(qname);
    assert!(all.len() == count, "C02 headers: get_all returns every value with that name");
    let mut j = 0;
    let mut i = 0;
    while i < N {
        if ks[i] == q {
            assert!(bytes_eq(all[j].as_bytes(), VALS[i].as_bytes()), "C02 headers: same-named fields keep their relative order");
            j += 1;
        }
        i += 1;
    }
    std::mem::forget(all);
    h.remove(qname);
    assert!(h.len() == N - count, "C02 headers: remove deletes exactly the fields with that name");
    assert!(h.get(qname).is_none(), "C02 headers: removed name is gone");
    s.reached();
    std::mem::forget(h);
}

/// After `remove(q)` the fields with another name `o` are untouched: same values, same relative order.
pub fn table_rm<S: Src, const N: usize>(s: &mut S) {
    let mut ks = [0u8; N];
    let mut h = Headers::new();
    let mut i = 0;
    while i < N {
        ks[i] = s.u8() % 3;
        h.add(pick(ks[i]), VALS[i]);
        i += 1;
    }
    let q = s.u8() % 3;
    let o = s.u8() % 3;
    s.assume(o != q);
    let qn = pick(q);
    h.remove(&qn);
    let on = pick(o);
    let rest = h.get_all(&on);
    let mut j = 0;
    let mut i = 0;
    while i < N {
        if ks[i] == o {
            assert!(j < rest.len() && bytes_eq(rest[j].as_bytes(), VALS[i].as_bytes()), "C02 headers: removing one name keeps the other fields and their relative order");
            j += 1;
        }
        i += 1;
    }
    assert!(j == rest.len(), "C02 headers: removing one name keeps the other fields and their relative order");
    s.reached();
    std::mem::forget(rest);
    std::mem::forget(h);
}

include!("gen/c02_list.rs");
