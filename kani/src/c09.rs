//! C09 — load-balancer target selection (the network side of the proxy is outside the claim).
use crate::Src;
use humphrey_server::config::LoadBalancerMode;
use humphrey_server::proxy::LoadBalancer;
use humphrey_server::rand::Lcg;

const NAMES: [&str; 4] = ["a:1", "b:2", "c:3", "d:4"];

fn targets(n: usize) -> Vec<String> {
    let mut v = Vec::with_capacity(n);
    let mut i = 0;
    while i < n {
        v.push(String::from(NAMES[i]));
        i += 1;
    }
    v
}

fn which(t: &str) -> usize {
    // names differ in their first byte
    (t.as_bytes()[0] - b'a') as usize
}

pub const MODULUS: usize = 2147483647; // 2^31 - 1
pub const MULT: usize = 1103515245;
pub const INC: usize = 12345;

/// Round-robin step from an arbitrary index < N: returns targets[index], index' = (index+1) mod N.
pub fn rr_step<S: Src, const N: usize>(s: &mut S) {
    let idx = s.u64() as usize;
    s.assume(idx < N);
    let seed = s.u32() as usize;
    let mut lb = LoadBalancer {
        targets: targets(N),
        mode: LoadBalancerMode::RoundRobin,
        index: idx,
        lcg: Lcg::with_parameters(MODULUS, MULT, INC, seed),
    };
    let t = lb.select_target();
    assert!(t.len() == 3 && which(&t) == idx, "C09 round-robin: returns the target at the current index");
    assert!(lb.index == (idx + 1) % N, "C09 round-robin: index advances by one modulo the number of targets");
    assert!(lb.targets.len() == N, "C09: target list unchanged");
    s.reached();
    std::mem::forget(t);
    std::mem::forget(lb);
}

/// Stub for <Lcg as Iterator>::next in the selection harnesses: an ARBITRARY generator output below the modulus
/// (that the real `next` only produces such values, without overflow, is the separate obligation `lcg_next`).
#[cfg(kani)]
pub fn stub_lcg_next(_l: &mut Lcg) -> Option<u32> {
    let v: u32 = kani::any();
    kani::assume((v as usize) < MODULUS);
    Some(v)
}

/// Random-mode selection for EVERY generator output: the result is a configured target, nothing panics.
/// (Compositional: generator output arbitrary in [0, modulus); natively the real generator runs.)
pub fn rnd_any<S: Src, const N: usize>(s: &mut S) {
    let seed = s.u32() as usize;
    // Native replay: the stub's arbitrary output v is the next value drawn; realise it with the real generator by
    // inverting one LCG step (the modulus 2^31-1 is prime): seed = (v - c) * a^-1 mod m, so that next() == v.
    #[cfg(not(kani))]
    let seed = {
        let _ = seed;
        let v = (s.u32() as u128) % (MODULUS as u128);
        let m = MODULUS as u128;
        let mut inv: u128 = 1;
        let mut base = (MULT as u128) % m;
        let mut e = m - 2;
        while e > 0 {
            if e & 1 == 1 {
                inv = inv * base % m;
            }
            base = base * base % m;
            e >>= 1;
        }
        (((v + m - (INC as u128 % m)) % m) * inv % m) as usize
    };
    let mut lb = LoadBalancer {
        targets: targets(N),
        mode: LoadBalancerMode::Random,
        index: 0,
        lcg: Lcg::with_parameters(MODULUS, MULT, INC, seed),
    };
    let t = lb.select_target();
    assert!(t.len() == 3 && which(&t) < N, "C09 random: returns a configured target");
    assert!(lb.index == 0 && lb.targets.len() == N, "C09 random: index and targets untouched");
    s.reached();
    std::mem::forget(t);
    std::mem::forget(lb);
}

/// The generator itself: from any seed < 2^33 (clock seconds on first use; < modulus afterwards) `next` does not overflow
/// and yields a value below the modulus.
pub fn lcg_next<S: Src>(s: &mut S) {
    let seed = s.u64() as usize;
    s.assume(seed < (1usize << 33));
    let mut l = Lcg::with_parameters(MODULUS, MULT, INC, seed);
    let v = l.next();
    match v {
        Some(v) => assert!((v as usize) < MODULUS, "C09 lcg: output below the modulus"),
        None => assert!(false, "C09 lcg: generator never ends"),
    }
    // the new state is again a valid seed (< modulus <= 2^33): second step does not overflow either
    let w = l.next();
    assert!(w.is_some(), "C09 lcg: second step");
    s.reached();
}

/// Random step, real generator (no second copy of the LCG arithmetic): member of the set, no overflow panic.
pub fn rnd_member<S: Src, const N: usize>(s: &mut S) {
    let seed = s.u64() as usize;
    s.assume(seed < (1usize << 33));
    let mut lb = LoadBalancer {
        targets: targets(N),
        mode: LoadBalancerMode::Random,
        index: 0,
        lcg: Lcg::with_parameters(MODULUS, MULT, INC, seed),
    };
    let t = lb.select_target();
    assert!(t.len() == 3 && which(&t) < N, "C09 random: returns a configured target");
    assert!(lb.index == 0 && lb.targets.len() == N, "C09 random: index and targets untouched");
    s.reached();
    std::mem::forget(t);
    std::mem::forget(lb);
}

/// `Lcg::new()` = default parameters with the clock's seconds as seed (clock stubbed: arbitrary).
#[cfg(kani)]
pub fn stub_now() -> std::time::SystemTime {
    let secs: u64 = kani::any();
    kani::assume(secs < (1u64 << 33));
    unsafe { STUB_SECS = secs };
    std::time::SystemTime::UNIX_EPOCH + std::time::Duration::from_secs(secs)
}
pub static mut STUB_SECS: u64 = 0;

pub fn lcg_new<S: Src>(s: &mut S) {
    let l = Lcg::new();
    #[cfg(kani)]
    {
        let secs = unsafe { STUB_SECS };
        assert!(l == Lcg::with_parameters(MODULUS, MULT, INC, secs as usize), "C09: Lcg::new uses the documented parameters and the clock as seed");
    }
    #[cfg(not(kani))]
    {
        // native replay: the seed is the real clock; compare everything but the seed by stepping both from a fixed seed is
        // not possible (fields private) -> check the first output is consistent with SOME seed in the clock's range
        let mut l2 = l.clone();
        let v = l2.next().unwrap();
        assert!((v as usize) < MODULUS);
    }
    s.reached();
}

include!("gen/c09_list.rs");
