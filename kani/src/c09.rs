//! C09 — load-balancer target selection (the network side of the proxy is outside the claim).
use crate::Src;
use humphrey_server::config::LoadBalancerMode;
use humphrey_server::proxy::LoadBalancer;
use humphrey_server::rand::Lcg;

const NAMES: [&str; 4] = ["a:1", "b:2", "c:3", "d:4"];

fn targets(n: usize) -> Vec<String> {
    let mut v = Vec::with_capacity(n);
    let mut i = 0;
    while i < n {
        v.push(String::from(NAMES[i]));
        i += 1;
    }
    v
}

fn which(t: &str) -> usize {
    // names differ in their first byte
    (t.as_bytes()[0] - b'a') as usize
}

pub const MODULUS: usize = 2147483647; // 2^31 - 1
pub const MULT: usize = 1103515245;
pub const INC: usize = 12345;

/// Round-robin step from an arbitrary index < N: returns targets[index], index' = (index+1) mod N.
pub fn rr_step<S: Src, const N: usize>(s: &mut S) {
    let idx = s.u64() as usize;
    s.assume(idx < N);
    let seed = s.u32() as usize;
    let mut lb = LoadBalancer {
        targets: targets(N),
        mode: LoadBalancerMode::RoundRobin,
        index: idx,
        lcg: Lcg::with_parameters(MODULUS, MULT, INC, seed),
    };
    let t = lb.select_target();
    assert!(t.len() == 3 && which(&t) == idx, "C09 round-robin: returns the target at the current index");
    assert!(lb.index == (idx + 1) % N, "C09 round-robin: index advances by one modulo the number of targets");
    assert!(lb.targets.len() == N, "C09: target list unchanged");
    s.reached();
    std::mem::forget(t);
    std::mem::forget(lb);
}

/// Random step from an arbitrary seed < 2^33: returns a member of the set, no overflow, seed' < modulus.
pub fn rnd_step<S: Src, const N: usize>(s: &mut S) {
    let seed = s.u64() as usize;
    s.assume(seed < (1usize << 33));
    let idx = s.u64() as usize;
    s.assume(idx < N);
    let mut lb = LoadBalancer {
        targets: targets(N),
        mode: LoadBalancerMode::Random,
        index: idx,
        lcg: Lcg::with_parameters(MODULUS, MULT, INC, seed),
    };
    let t = lb.select_target();
    assert!(t.len() == 3 && which(&t) < N, "C09 random: returns a configured target");
    let want = (MULT * seed + INC) % MODULUS;
    assert!(which(&t) == ((want as u32) % (N as u32)) as usize, "C09 random: target = lcg value mod N");
    let after = Lcg::with_parameters(MODULUS, MULT, INC, want);
    assert!(lb.lcg == after, "C09 random: generator state advances by one LCG step (seed' < modulus)");
    assert!(want < MODULUS, "C09 random: seed invariant");
    assert!(lb.index == idx, "C09 random: round-robin index untouched");
    s.reached();
    std::mem::forget(t);
    std::mem::forget(lb);
}

/// Random step, cheap form (no second copy of the LCG arithmetic): member of the set, no overflow panic.
pub fn rnd_member<S: Src, const N: usize>(s: &mut S) {
    let seed = s.u64() as usize;
    s.assume(seed < (1usize << 33));
    let mut lb = LoadBalancer {
        targets: targets(N),
        mode: LoadBalancerMode::Random,
        index: 0,
        lcg: Lcg::with_parameters(MODULUS, MULT, INC, seed),
    };
    let t = lb.select_target();
    assert!(t.len() == 3 && which(&t) < N, "C09 random: returns a configured target");
    assert!(lb.index == 0 && lb.targets.len() == N, "C09 random: index and targets untouched");
    s.reached();
    std::mem::forget(t);
    std::mem::forget(lb);
}

/// `Lcg::new()` = default parameters with the clock's seconds as seed (clock stubbed: arbitrary).
#[cfg(kani)]
pub fn stub_now() -> std::time::SystemTime {
    let secs: u64 = kani::any();
    kani::assume(secs < (1u64 << 33));
    unsafe { STUB_SECS = secs };
    std::time::SystemTime::UNIX_EPOCH + std::time::Duration::from_secs(secs)
}
pub static mut STUB_SECS: u64 = 0;

pub fn lcg_new<S: Src>(s: &mut S) {
    let l = Lcg::new();
    #[cfg(kani)]
    {
        let secs = unsafe { STUB_SECS };
        assert!(l == Lcg::with_parameters(MODULUS, MULT, INC, secs as usize), "C09: Lcg::new uses the documented parameters and the clock as seed");
    }
    #[cfg(not(kani))]
    {
        // native replay: the seed is the real clock; compare everything but the seed by stepping both from a fixed seed is
        // not possible (fields private) -> check the first output is consistent with SOME seed in the clock's range
        let mut l2 = l.clone();
        let v = l2.next().unwrap();
        assert!((v as usize) < MODULUS);
    }
    s.reached();
}

include!("gen/c09_list.rs");
