//! C11 — WebSocket endpoint: frames in / frames out over a scripted connection.
use crate::net::{with_conn, Captured};
use crate::rd::Plan;
use crate::refs::ws as r;
use crate::Src;
use humphrey_ws::error::WebsocketError;
use humphrey_ws::message::Message;
use humphrey_ws::restion::Restion;
use humphrey_ws::stream::WebsocketStream;

fn plan_of(kind: usize, k: usize) -> Plan {
    match kind {
        0 => Plan::Whole,
        1 => Plan::ByteWise,
        _ => Plan::Split(k),
    }
}

/// Appends a masked client frame (payload < 126 bytes) to `buf` at `*n`.
fn put_frame(buf: &mut [u8; crate::net::IN_CAP], n: &mut usize, fin: bool, opcode: u8, key: [u8; 4], payload: &[u8]) {
    let (h, hl) = r::encode_header(fin, [false; 3], opcode, true, key, payload.len() as u64);
    let mut i = 0;
    while i < hl {
        buf[*n] = h[i];
        *n += 1;
        i += 1;
    }
    let mut i = 0;
    while i < payload.len() {
        buf[*n] = payload[i] ^ key[i % 4];
        *n += 1;
        i += 1;
    }
}

/// Checks that out[pos..] starts with the unmasked server frame (fin, opcode, payload) and returns the new position.
fn expect_frame(out: &Captured, pos: usize, opcode: u8, payload: &[u8]) -> usize {
    let hl = if payload.len() < 126 { 2 } else { 4 };
    assert!(out.len >= pos + hl + payload.len(), "C11 output: a complete server frame is written");
    assert!(out.bytes[pos] == (0x80 | opcode), "C11 output: FIN set, RSV clear, expected opcode");
    if payload.len() < 126 {
        assert!(out.bytes[pos + 1] == payload.len() as u8, "C11 output: server frames are unmasked with the 7-bit length");
    } else {
        assert!(out.bytes[pos + 1] == 126 && out.bytes[pos + 2] == (payload.len() >> 8) as u8 && out.bytes[pos + 3] == payload.len() as u8,
                "C11 output: unmasked frame with the 16-bit extended length");
    }
    let mut i = 0;
    while i < payload.len() {
        assert!(out.bytes[pos + hl + i] == payload[i], "C11 output: payload octet");
        i += 1;
    }
    pos + hl + payload.len()
}

/// T1: one data frame of L bytes; recv() returns it; dropping the stream sends a Close frame.
pub fn recv_data<S: Src, const L: usize, const PLAN: usize, const K: usize>(s: &mut S) {
    let text = s.bool();
    let key: [u8; 4] = s.bytes::<4>();
    let p: [u8; L] = s.bytes::<L>();
    let mut buf = [0u8; crate::net::IN_CAP];
    let mut n = 0;
    put_frame(&mut buf, &mut n, true, if text { 1 } else { 2 }, key, &p);
    let (res, out) = with_conn(&buf, n, plan_of(PLAN, K), false, |st| {
        let mut ws = WebsocketStream::new(st);
        let m = ws.recv();
        match m {
            Ok(m) => {
                let b = m.bytes();
                let mut ok = b.len() == L && m.is_text() == text;
                let mut i = 0;
                while i < L && ok {
                    ok = b[i] == p[i];
                    i += 1;
                }
                ok
            }
            Err(_) => false,
        }
    });
    assert!(res, "C11 recv: delivers exactly the message sent (payload unmasked, text/binary from the opcode)");
    let end = expect_frame(&out, 0, 0x8, &[]);
    assert!(out.len == end, "C11 drop: dropping the stream sends exactly one Close frame and nothing else");
    s.reached();
}

/// T2: Ping(LP bytes) then a data frame; recv() answers the ping with a Pong carrying the same payload.
pub fn recv_ping_data<S: Src, const LP: usize, const L: usize, const PLAN: usize, const K: usize>(s: &mut S) {
    let key1: [u8; 4] = s.bytes::<4>();
    let key2: [u8; 4] = s.bytes::<4>();
    let pp: [u8; LP] = s.bytes::<LP>();
    let p: [u8; L] = s.bytes::<L>();
    let mut buf = [0u8; crate::net::IN_CAP];
    let mut n = 0;
    put_frame(&mut buf, &mut n, true, 0x9, key1, &pp);
    put_frame(&mut buf, &mut n, true, 0x2, key2, &p);
    let (res, out) = with_conn(&buf, n, plan_of(PLAN, K), false, |st| {
        let mut ws = WebsocketStream::new(st);
        let ok = match ws.recv() {
            Ok(m) => {
                let b = m.bytes();
                let mut ok = b.len() == L && !m.is_text();
                let mut i = 0;
                while i < L && ok {
                    ok = b[i] == p[i];
                    i += 1;
                }
                ok
            }
            Err(_) => false,
        };
        std::mem::forget(ws); // no Close in this template
        ok
    });
    assert!(res, "C11 recv: control frames before a message do not disturb it");
    let end = expect_frame(&out, 0, 0xA, &pp);
    assert!(out.len == end, "C11 ping: each Ping is answered by exactly one Pong frame with the same payload");
    s.reached();
}

/// T3: text fragment (fin=0), Ping, continuation (fin=1): message = concatenation, text flag from the first fragment.
pub fn recv_fragments<S: Src, const L1: usize, const L2: usize, const PLAN: usize, const K: usize>(s: &mut S) {
    let text = s.bool();
    let key: [u8; 4] = s.bytes::<4>();
    let p1: [u8; L1] = s.bytes::<L1>();
    let p2: [u8; L2] = s.bytes::<L2>();
    let mut buf = [0u8; crate::net::IN_CAP];
    let mut n = 0;
    put_frame(&mut buf, &mut n, false, if text { 1 } else { 2 }, key, &p1);
    put_frame(&mut buf, &mut n, true, 0x9, key, &[]);
    put_frame(&mut buf, &mut n, true, 0x0, key, &p2);
    let (res, out) = with_conn(&buf, n, plan_of(PLAN, K), false, |st| {
        let mut ws = WebsocketStream::new(st);
        let ok = match ws.recv() {
            Ok(m) => {
                let b = m.bytes();
                let mut ok = b.len() == L1 + L2 && m.is_text() == text;
                let mut i = 0;
                while i < L1 && ok {
                    ok = b[i] == p1[i];
                    i += 1;
                }
                let mut i = 0;
                while i < L2 && ok {
                    ok = b[L1 + i] == p2[i];
                    i += 1;
                }
                ok
            }
            Err(_) => false,
        };
        std::mem::forget(ws);
        ok
    });
    assert!(res, "C11 recv: fragments are concatenated in order, type taken from the first fragment, control frames allowed in between");
    let end = expect_frame(&out, 0, 0xA, &[]);
    assert!(out.len == end, "C11 ping: Ping between fragments is answered by one Pong");
    s.reached();
}

/// T4: Close(LC bytes): recv() reports ConnectionClosed, answers with a Close frame, and drop sends nothing more.
pub fn recv_close<S: Src, const LC: usize, const PLAN: usize, const K: usize>(s: &mut S) {
    let key: [u8; 4] = s.bytes::<4>();
    let pc: [u8; LC] = s.bytes::<LC>();
    let mut buf = [0u8; crate::net::IN_CAP];
    let mut n = 0;
    put_frame(&mut buf, &mut n, true, 0x8, key, &pc);
    let (res, out) = with_conn(&buf, n, plan_of(PLAN, K), false, |st| {
        let mut ws = WebsocketStream::new(st);
        let r = ws.recv();
        matches!(r, Err(WebsocketError::ConnectionClosed))
    });
    assert!(res, "C11 close: a Close frame is reported as ConnectionClosed");
    let end = expect_frame(&out, 0, 0x8, &pc);
    assert!(out.len == end, "C11 close: answered by exactly one Close frame (same payload); dropping a closed stream sends nothing");
    s.reached();
}

/// T4b: Ping(LP) then Close: recv() answers the Ping with a Pong (same payload), then the Close with a Close, and reports ConnectionClosed.
pub fn recv_ping_close<S: Src, const LP: usize, const PLAN: usize, const K: usize>(s: &mut S) {
    let key1: [u8; 4] = s.bytes::<4>();
    let key2: [u8; 4] = s.bytes::<4>();
    let pp: [u8; LP] = s.bytes::<LP>();
    let mut buf = [0u8; crate::net::IN_CAP];
    let mut n = 0;
    put_frame(&mut buf, &mut n, true, 0x9, key1, &pp);
    put_frame(&mut buf, &mut n, true, 0x8, key2, &[]);
    let (res, out) = with_conn(&buf, n, plan_of(PLAN, K), false, |st| {
        let mut ws = WebsocketStream::new(st);
        let r = ws.recv();
        matches!(r, Err(WebsocketError::ConnectionClosed))
    });
    assert!(res, "C11 close: a Close frame after a Ping is reported as ConnectionClosed");
    let pos = expect_frame(&out, 0, 0xA, &pp);
    let end = expect_frame(&out, pos, 0x8, &[]);
    assert!(out.len == end, "C11 ping/close: exactly one Pong (same payload) then one Close frame are written, nothing on drop");
    s.reached();
}

/// T4c: non-blocking receive of a Close frame (the frame HAS started to arrive; the first read may return 1 or 2 bytes).
pub fn nb_close<S: Src, const LC: usize, const PLAN: usize, const K: usize>(s: &mut S) {
    let key: [u8; 4] = s.bytes::<4>();
    let pc: [u8; LC] = s.bytes::<LC>();
    let mut buf = [0u8; crate::net::IN_CAP];
    let mut n = 0;
    put_frame(&mut buf, &mut n, true, 0x8, key, &pc);
    let (res, out) = with_conn(&buf, n, plan_of(PLAN, K), true, |st| {
        let mut ws = WebsocketStream::new(st);
        let r = ws.recv_nonblocking();
        matches!(r, Restion::Err(WebsocketError::ConnectionClosed))
    });
    assert!(res, "C11 non-blocking receive: a Close frame that has started to arrive is received like in blocking mode (ConnectionClosed)");
    let end = expect_frame(&out, 0, 0x8, &pc);
    assert!(out.len == end, "C11 non-blocking close: answered by exactly one Close frame");
    s.reached();
}

/// T4d: non-blocking receive when ONE header byte has arrived and the rest arrives later: the frame has started, so the
/// result must be the message (here: Close -> ConnectionClosed), never `nothing yet` with the byte swallowed.
pub fn nb_close_gap<S: Src, const LC: usize>(s: &mut S) {
    let key: [u8; 4] = s.bytes::<4>();
    let pc: [u8; LC] = s.bytes::<LC>();
    let mut buf = [0u8; crate::net::IN_CAP];
    let mut n = 0;
    put_frame(&mut buf, &mut n, true, 0x8, key, &pc);
    let (res, out) = crate::net::with_conn_gap(&buf, n, Plan::Split(1), true, true, |st| {
        let mut ws = WebsocketStream::new(st);
        let r = ws.recv_nonblocking();
        matches!(r, Restion::Err(WebsocketError::ConnectionClosed))
    });
    assert!(res, "C11 non-blocking receive: once the first header byte has been consumed the frame is received (not `nothing yet`), even if the second byte arrives later");
    let end = expect_frame(&out, 0, 0x8, &pc);
    assert!(out.len == end, "C11 non-blocking close: answered by exactly one Close frame");
    s.reached();
}

/// T5: send / ping produce single well-formed unmasked frames.
pub fn send_frames<S: Src, const L: usize>(s: &mut S) {
    let p: [u8; L] = s.bytes::<L>();
    let binary = true; // Message::new runs UTF-8 validation over symbolic bytes (too heavy); text frames: see send_text
    let (_, out) = with_conn(&[0u8; crate::net::IN_CAP], 0, Plan::Whole, false, |st| {
        let mut ws = WebsocketStream::new(st);
        let m = if binary { Message::new_binary(&p[..]) } else { Message::new(&p[..]) };
        let a = ws.send(m).is_ok();
        let b = ws.ping().is_ok();
        std::mem::forget(ws);
        a && b
    });
    let is_text = !binary;
    let pos = expect_frame(&out, 0, if is_text { 1 } else { 2 }, &p);
    let end = expect_frame(&out, pos, 0x9, &[]);
    assert!(out.len == end, "C11 send: exactly one data frame and one Ping frame are written");
    s.reached();
}

/// T6: non-blocking receive agrees with blocking receive when a whole frame is available, and reports
/// `nothing yet` only when no byte of a frame has arrived. FIRST = number of bytes the first read returns (2 or 1).
pub fn recv_nonblocking<S: Src, const L: usize, const PLAN: usize, const K: usize>(s: &mut S) {
    let key: [u8; 4] = s.bytes::<4>();
    let p: [u8; L] = s.bytes::<L>();
    let mut buf = [0u8; crate::net::IN_CAP];
    let mut n = 0;
    put_frame(&mut buf, &mut n, true, 0x2, key, &p);
    let (res, _out) = with_conn(&buf, n, plan_of(PLAN, K), true, |st| {
        let mut ws = WebsocketStream::new(st);
        let ok = match ws.recv_nonblocking() {
            Restion::Ok(m) => {
                let b = m.bytes();
                let mut ok = b.len() == L;
                let mut i = 0;
                while i < L && ok {
                    ok = b[i] == p[i];
                    i += 1;
                }
                ok
            }
            _ => false,
        };
        std::mem::forget(ws);
        ok
    });
    assert!(res, "C11 non-blocking receive: once a frame has started to arrive it delivers the same message as blocking receive");
    s.reached();
}

/// T7: non-blocking receive with nothing to read reports `nothing yet`.
pub fn recv_nonblocking_idle<S: Src>(s: &mut S) {
    let _ = s.u8();
    // the peer has sent nothing (read returns Ok(0); the WouldBlock flavour needs io::Error, whose drop glue CBMC cannot afford)
    let (res, out) = with_conn(&[0u8; crate::net::IN_CAP], 0, Plan::Whole, false, |st| {
        let mut ws = WebsocketStream::new(st);
        let r = matches!(ws.recv_nonblocking(), Restion::None);
        std::mem::forget(ws);
        r
    });
    assert!(res, "C11 non-blocking receive: `nothing yet` when no frame has started to arrive");
    assert!(out.len == 0, "C11 non-blocking receive: nothing written");
    s.reached();
}

include!("gen/c11_list.rs");

