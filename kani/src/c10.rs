//! C10 — WebSocket frames encode to the RFC 6455 §5.2 layout and decode back under any split.
use crate::rd::{Plan, Rd};
use crate::refs::ws as r;
use crate::Src;
use humphrey_ws::error::WebsocketError;
use humphrey_ws::verif::{frame_from_parts, frame_parts, Frame, Opcode};
use std::convert::TryFrom;

pub fn opcode_of(idx: u8) -> Opcode {
    match idx {
        0 => Opcode::Continuation,
        1 => Opcode::Text,
        2 => Opcode::Binary,
        3 => Opcode::Close,
        4 => Opcode::Ping,
        _ => Opcode::Pong,
    }
}

/// (a) header layout for EVERY u64 length (payload vector empty: the header depends on `length` only).
pub fn enc_header<S: Src>(s: &mut S) {
    let fin = s.bool();
    let rsv = [s.bool(), s.bool(), s.bool()];
    let oi = s.u8();
    s.assume(oi < 6);
    let mask = s.bool();
    let key: [u8; 4] = s.bytes::<4>();
    let len = s.u64();
    let f = frame_from_parts(fin, rsv, opcode_of(oi), mask, len, key, Vec::new());
    let out: Vec<u8> = f.into();
    let (h, n) = r::encode_header(fin, rsv, r::OPCODES[oi as usize], mask, key, len);
    assert!(out.len() == n, "C10 encode: header length / shortest length form");
    let mut i = 0;
    while i < n {
        assert!(out[i] == h[i], "C10 encode: header byte");
        i += 1;
    }
    s.reached();
    std::mem::forget(out);
}

/// (b) payload placement: L symbolic payload bytes, length = L.
pub fn enc_payload<S: Src, const L: usize>(s: &mut S) {
    let fin = s.bool();
    let oi = s.u8();
    s.assume(oi < 6);
    let mask = s.bool();
    let key: [u8; 4] = s.bytes::<4>();
    let p: [u8; L] = s.bytes::<L>();
    let f = frame_from_parts(fin, [false; 3], opcode_of(oi), mask, L as u64, key, p.to_vec());
    let out: Vec<u8> = f.into();
    let (h, n) = r::encode_header(fin, [false; 3], r::OPCODES[oi as usize], mask, key, L as u64);
    assert!(out.len() == n + L, "C10 encode: total length");
    let mut i = 0;
    while i < n {
        assert!(out[i] == h[i], "C10 encode: header byte");
        i += 1;
    }
    let mut i = 0;
    while i < L {
        let want = if mask { p[i] ^ key[i % 4] } else { p[i] };
        assert!(out[n + i] == want, "C10 encode: payload octet (masked with key[i mod 4] when MASK is set)");
        i += 1;
    }
    s.reached();
    std::mem::forget(out);
}

fn plan_of(kind: usize, k: usize) -> Plan {
    match kind {
        0 => Plan::Whole,
        1 => Plan::ByteWise,
        _ => Plan::Split(k),
    }
}

/// (c) decode of N fully symbolic bytes under a concrete read plan vs. the reference decode.
/// PLAN: 0 whole, 1 byte-wise, 2 split at K.
pub fn dec<S: Src, const N: usize, const PLAN: usize, const K: usize>(s: &mut S) {
    let b: [u8; N] = s.bytes::<N>();
    dec_check(s, &b, PLAN, K);
}

/// (c') same, with the second header byte concrete (MASK bit and 7-bit length C): the claimed
/// length is then a constant for the solver, which keeps the payload allocation concrete.
pub fn dec_c<S: Src, const N: usize, const MASK: u8, const C: u8, const PLAN: usize, const K: usize>(s: &mut S) {
    let mut b: [u8; N] = s.bytes::<N>();
    if N >= 2 {
        b[1] = (MASK << 7) | C;
    }
    dec_check(s, &b, PLAN, K);
}

fn dec_check<S: Src>(s: &mut S, b: &[u8], plan: usize, k: usize) {
    let N = b.len();
    let PLAN = plan;
    let K = k;
    let want = r::decode_header(&b);
    let mut rd = Rd::new(b, plan_of(PLAN, K));
    let got = Frame::from_stream(&mut rd);
    match got {
        Ok(f) => {
            assert!(want.kind == r::DecKind::Frame, "C10 decode: Ok only for a complete frame with a valid opcode");
            let (fin, rsv, op, mask, len, key, payload) = frame_parts(f);
            assert!(fin == want.fin, "C10 decode: fin");
            assert!(rsv[0] == want.rsv[0] && rsv[1] == want.rsv[1] && rsv[2] == want.rsv[2], "C10 decode: rsv");
            assert!(op as u8 == want.opcode, "C10 decode: opcode");
            assert!(mask == want.mask, "C10 decode: mask");
            assert!(len == want.len, "C10 decode: length");
            if mask {
                assert!(key[0] == want.key[0] && key[1] == want.key[1] && key[2] == want.key[2] && key[3] == want.key[3], "C10 decode: key");
            }
            assert!(payload.len() as u64 == want.len, "C10 decode: payload length");
            let mut i = 0;
            while i < payload.len() {
                let raw = b[want.off + i];
                let expect = if want.mask { raw ^ want.key[i % 4] } else { raw };
                assert!(payload[i] == expect, "C10 decode: payload octet unmasked");
                i += 1;
            }
            assert!(rd.pos == want.off + want.len as usize, "C10 decode: consumes exactly the frame");
            std::mem::forget(payload);
        }
        Err(e) => match want.kind {
            r::DecKind::Frame => assert!(false, "C10 decode: complete valid frame must decode"),
            r::DecKind::Truncated => assert!(e == WebsocketError::ReadError, "C10 decode: truncated input is a read error"),
            r::DecKind::BadOpcode => {
                if want.also_truncated {
                    assert!(e == WebsocketError::InvalidOpcode || e == WebsocketError::ReadError, "C10 decode: reserved opcode rejected");
                } else {
                    assert!(e == WebsocketError::InvalidOpcode, "C10 decode: reserved opcode rejected");
                }
            }
        },
    }
    s.reached();
}

/// (d) decode(encode(f)) == f for payload shape L and concrete MASK, under a concrete plan.
/// The encoded bytes are copied to a stack array and byte 1 (MASK bit + 7-bit length) is first
/// asserted to equal, then replaced by, its constant value so that the claimed length is a
/// constant for the solver (sound: a mismatch fails the assertion).
pub fn roundtrip<S: Src, const L: usize, const MASK: u8, const T: usize, const PLAN: usize, const K: usize>(s: &mut S) {
    let fin = s.bool();
    let rsv = [s.bool(), s.bool(), s.bool()];
    let oi = s.u8();
    s.assume(oi < 6);
    let mask = MASK == 1;
    let key: [u8; 4] = s.bytes::<4>();
    let p: [u8; L] = s.bytes::<L>();
    let f = frame_from_parts(fin, rsv, opcode_of(oi), mask, L as u64, key, p.to_vec());
    let out: Vec<u8> = f.into();
    assert!(out.len() == T, "C10 roundtrip: encoded length");
    let mut arr = [0u8; T];
    let mut i = 0;
    while i < T {
        arr[i] = out[i];
        i += 1;
    }
    let b1 = (MASK << 7) | (L as u8);
    assert!(L < 126 && arr[1] == b1, "C10 roundtrip: MASK bit and 7-bit length");
    arr[1] = b1;
    let mut rd = Rd::new(&arr, plan_of(PLAN, K));
    let g = Frame::from_stream(&mut rd);
    match g {
        Ok(g) => {
            let (fin2, rsv2, op2, mask2, len2, key2, p2) = frame_parts(g);
            assert!(fin2 == fin && rsv2[0] == rsv[0] && rsv2[1] == rsv[1] && rsv2[2] == rsv[2], "C10 roundtrip: bits");
            assert!(op2 as u8 == r::OPCODES[oi as usize], "C10 roundtrip: opcode");
            assert!(mask2 == mask && len2 == L as u64, "C10 roundtrip: mask/length");
            if mask {
                assert!(key2[0] == key[0] && key2[1] == key[1] && key2[2] == key[2] && key2[3] == key[3], "C10 roundtrip: key");
            }
            assert!(p2.len() == L, "C10 roundtrip: payload length");
            let mut i = 0;
            while i < L {
                assert!(p2[i] == p[i], "C10 roundtrip: payload octet");
                i += 1;
            }
            std::mem::forget(p2);
        }
        Err(_) => assert!(false, "C10 roundtrip: encoded frame must decode"),
    }
    s.reached();
    std::mem::forget(out);
}

/// (c2) N fully symbolic bytes through std's `impl Read for &[u8]` (whole delivery; its
/// `read_exact` fails at once when the buffer is larger than the remaining input, which keeps the
/// symbolic-size payload allocation affordable): all 2^64 claimed lengths.
pub fn dec_std<S: Src, const N: usize>(s: &mut S) {
    let b: [u8; N] = s.bytes::<N>();
    let want = r::decode_header(&b);
    let mut rd: &[u8] = &b;
    let got = Frame::from_stream(&mut rd);
    match got {
        Ok(f) => {
            assert!(want.kind == r::DecKind::Frame, "C10 decode: Ok only for a complete frame with a valid opcode");
            let (fin, rsv, op, mask, len, key, payload) = frame_parts(f);
            assert!(fin == want.fin && rsv[0] == want.rsv[0] && rsv[1] == want.rsv[1] && rsv[2] == want.rsv[2], "C10 decode: fin/rsv");
            assert!(op as u8 == want.opcode && mask == want.mask && len == want.len, "C10 decode: opcode/mask/length");
            if mask {
                assert!(key[0] == want.key[0] && key[1] == want.key[1] && key[2] == want.key[2] && key[3] == want.key[3], "C10 decode: key");
            }
            assert!(payload.len() as u64 == want.len, "C10 decode: payload length");
            let mut i = 0;
            while i < payload.len() {
                let raw = b[want.off + i];
                let expect = if want.mask { raw ^ want.key[i % 4] } else { raw };
                assert!(payload[i] == expect, "C10 decode: payload octet unmasked");
                i += 1;
            }
            std::mem::forget(payload);
        }
        Err(e) => match want.kind {
            r::DecKind::Frame => assert!(false, "C10 decode: complete valid frame must decode"),
            r::DecKind::Truncated => assert!(e == WebsocketError::ReadError, "C10 decode: truncated input is a read error"),
            r::DecKind::BadOpcode => {
                assert!(e == WebsocketError::InvalidOpcode || (want.also_truncated && e == WebsocketError::ReadError), "C10 decode: reserved opcode rejected");
            }
        },
    }
    s.reached();
}

/// (c3) extended-length forms with a CONCRETE extended length V (EXT = 2: 16-bit, 8: 64-bit).
pub fn dec_ext<S: Src, const N: usize, const MASK: u8, const EXT: usize, const V: u64, const PLAN: usize, const K: usize>(s: &mut S) {
    let mut b: [u8; N] = s.bytes::<N>();
    b[1] = (MASK << 7) | (if EXT == 2 { 126 } else { 127 });
    let mut i = 0;
    while i < EXT {
        if 2 + i < N {
            b[2 + i] = (V >> (8 * (EXT - 1 - i))) as u8;
        }
        i += 1;
    }
    dec_check(s, &b, PLAN, K);
}

/// Opcode table: try_from accepts exactly the six defined opcodes, and `as u8` inverts it.
pub fn opcode_table<S: Src>(s: &mut S) {
    let v = s.u8();
    match Opcode::try_from(v) {
        Ok(o) => {
            assert!(r::opcode_valid(v), "C10 opcode: only defined opcodes accepted");
            assert!(o as u8 == v, "C10 opcode: value preserved");
        }
        Err(e) => {
            assert!(!r::opcode_valid(v), "C10 opcode: defined opcode rejected");
            assert!(e == WebsocketError::InvalidOpcode, "C10 opcode: error kind");
        }
    }
    s.reached();
}

include!("gen/c10_list.rs");
