//! C17 — session state machine of humphrey_auth::AuthProvider<_> over the crate's own `Vec<User>` database
//! implementation (reached through a thin delegating wrapper so the harness can inspect the post-state).
//! One operation from an arbitrary valid pre-state (inductive step); clock and RNG are stubbed.
use crate::Src;
use humphrey_auth::database::AuthDatabase;
use humphrey_auth::error::AuthError;
use humphrey_auth::session::Session;
use humphrey_auth::user::User;
use humphrey_auth::AuthProvider;

/// Delegates every call to the real `impl AuthDatabase for Vec<User>`.
pub struct Db(pub *mut Vec<User>);

impl Db {
    fn v(&self) -> &Vec<User> {
        unsafe { &*self.0 }
    }
    fn vm(&mut self) -> &mut Vec<User> {
        unsafe { &mut *self.0 }
    }
}

impl AuthDatabase for Db {
    fn get_user_by_uid(&self, uid: impl AsRef<str>) -> Option<User> {
        self.v().get_user_by_uid(uid)
    }
    fn get_user_by_token(&self, token: impl AsRef<str>) -> Option<User> {
        self.v().get_user_by_token(token)
    }
    fn get_session_by_token(&self, token: impl AsRef<str>) -> Option<Session> {
        self.v().get_session_by_token(token)
    }
    fn update_user(&mut self, user: User) -> Result<(), AuthError> {
        self.vm().update_user(user)
    }
    fn add_user(&mut self, user: User) -> Result<(), AuthError> {
        self.vm().add_user(user)
    }
    fn remove_user(&mut self, uid: impl AsRef<str>) -> Result<(), AuthError> {
        self.vm().remove_user(uid)
    }
}

pub static mut NOW: u64 = 0;
pub static mut CLOCK_CALLS: usize = 0;

/// Stub for std::time::SystemTime::elapsed (only ever called on UNIX_EPOCH in this crate): the clock reads NOW seconds.
#[cfg(kani)]
pub fn stub_elapsed(_t: &std::time::SystemTime) -> Result<std::time::Duration, std::time::SystemTimeError> {
    unsafe {
        CLOCK_CALLS += 1;
        Ok(std::time::Duration::from_secs(NOW))
    }
}

/// Stub for <OsRng as RngCore>::fill_bytes: leaves the buffer as it is (token bytes all zero). Freshness of real tokens
/// (256 random bits) is an assumption of the claim, not something a solver can establish.
#[cfg(kani)]
pub fn stub_fill_bytes(_r: &mut rand_core::OsRng, _dest: &mut [u8]) {}

/// Stub for alloc::fmt::format (used for `format!("{:02x}", b)` in the token constructor): two fixed hex digits.
#[cfg(kani)]
pub fn stub_format(_a: std::fmt::Arguments<'_>) -> String {
    String::from("00")
}

const UIDS: [&str; 3] = ["a", "b", "z"]; // "z" is never a user
const TOKENS: [&str; 3] = ["t1", "t2", "zz"]; // "zz" is never issued
/// Tokens presented by a client: the two issued ones, an unknown one, and strings that merely share a prefix with an issued
/// token (empty, proper prefix, extension) — none of the latter was ever issued.
const QUERY: [&str; 6] = ["t1", "t2", "zz", "", "t", "t1x"];

fn now() -> u64 {
    #[cfg(kani)]
    unsafe {
        NOW
    }
    #[cfg(not(kani))]
    {
        std::time::UNIX_EPOCH.elapsed().unwrap().as_secs()
    }
}

/// Builds N users ("a", "b"); user i has a session iff has[i], with token TOKENS[i] and expiry exp[i].
fn users<const N: usize>(has: [bool; N], exp: [u64; N]) -> Vec<User> {
    let mut v = Vec::with_capacity(N);
    let mut i = 0;
    while i < N {
        let session = if has[i] { Some(Session { token: String::from(TOKENS[i]), expiry: exp[i] }) } else { None };
        v.push(User { uid: String::from(UIDS[i]), session, password_hash: String::new() });
        i += 1;
    }
    v
}

fn str_eq(a: &str, b: &str) -> bool {
    let (x, y) = (a.as_bytes(), b.as_bytes());
    if x.len() != y.len() {
        return false;
    }
    let mut i = 0;
    while i < x.len() {
        if x[i] != y[i] {
            return false;
        }
        i += 1;
    }
    true
}

/// Draws the pre-state: for the native replay the clock is real, so expiries are taken relative to it:
/// the symbolic value decides only on which side of `now` an expiry lies (and by how much).
fn draw<S: Src, const N: usize>(s: &mut S) -> ([bool; N], [u64; N], u64) {
    let t = s.u32() as u64 + 100_000; // clock reading for this operation (Kani); natively the real clock is used
    #[cfg(kani)]
    unsafe {
        NOW = t;
    }
    let mut has = [false; N];
    let mut offs = [0u64; N];
    let mut i = 0;
    while i < N {
        has[i] = s.bool();
        // expiry in [base-50_000, base+50_000]: covers expired, expiring exactly now, and live sessions
        offs[i] = (s.u16() as u64) % 100_001;
        i += 1;
    }
    // native replay of a boundary case (expiry == now): start right after a tick of the wall clock so that the whole
    // operation runs within the same second
    #[cfg(not(kani))]
    {
        let mut boundary = false;
        let mut i = 0;
        while i < N {
            if has[i] && offs[i] == 50_000 {
                boundary = true;
            }
            i += 1;
        }
        if boundary {
            loop {
                let d = std::time::UNIX_EPOCH.elapsed().unwrap();
                if d.subsec_millis() < 30 {
                    break;
                }
                std::thread::sleep(std::time::Duration::from_millis(5));
            }
        }
    }
    let base = now();
    let mut exp = [0u64; N];
    let mut i = 0;
    while i < N {
        exp[i] = base + offs[i] - 50_000;
        i += 1;
    }
    let _ = t;
    (has, exp, base)
}

fn unchanged<const N: usize>(v: &Vec<User>, i: usize, has: &[bool; N], exp: &[u64; N]) -> bool {
    match &v[i].session {
        None => !has[i],
        Some(se) => has[i] && se.expiry == exp[i] && str_eq(&se.token, TOKENS[i]),
    }
}

/// op: refresh_session(token)
pub fn refresh<S: Src, const N: usize>(s: &mut S) {
    let (has, exp, base) = draw::<S, N>(s);
    let ti = (s.u8() % 6) as usize;
    let mut v = users::<N>(has, exp);
    let mut p = AuthProvider::new(Db(&mut v as *mut _));
    let r = p.refresh_session(QUERY[ti]);
    let owner = if ti < 2 && ti < N && has[ti] { Some(ti) } else { None };
    let live = owner.map(|i| base < exp[i]).unwrap_or(false);
    #[cfg(not(kani))]
    let live = if owner.map(|i| exp[i] > base && exp[i] <= base + 3).unwrap_or(false) { s.assume(false); live } else { live }; // real clock may tick: skip the boundary natively
    if live {
        assert!(r.is_ok(), "C17 refresh: a live token can be refreshed");
        let i = owner.unwrap();
        let se = v[i].session.as_ref();
        assert!(se.is_some(), "C17 refresh: session kept");
        let se = se.unwrap();
        assert!(str_eq(&se.token, TOKENS[i]) && se.expiry >= base + 3600 && se.expiry <= base + 3603, "C17 refresh: same token, expiry = now + refresh lifetime");
    } else {
        assert!(r == Err(AuthError::InvalidToken), "C17 refresh: an expired or unknown token is rejected by refresh");
        if let Some(i) = owner {
            assert!(unchanged::<N>(&v, i, &has, &exp), "C17 refresh: a rejected refresh does not revive or change the session");
        }
    }
    let mut j = 0;
    while j < N {
        if Some(j) != owner {
            assert!(unchanged::<N>(&v, j, &has, &exp), "C17 refresh: other users untouched");
        }
        j += 1;
    }
    assert!(v.len() == N, "C17: user set unchanged");
    s.reached();
    std::mem::forget(p);
    std::mem::forget(v);
}

/// op: get_uid_by_token(token)
pub fn lookup<S: Src, const N: usize>(s: &mut S) {
    let (has, exp, base) = draw::<S, N>(s);
    let ti = (s.u8() % 6) as usize;
    let mut v = users::<N>(has, exp);
    let p = AuthProvider::new(Db(&mut v as *mut _));
    let r = p.get_uid_by_token(QUERY[ti]);
    let owner = if ti < 2 && ti < N && has[ti] { Some(ti) } else { None };
    #[cfg(not(kani))]
    if owner.map(|i| exp[i] > base && exp[i] <= base + 3).unwrap_or(false) {
        s.assume(false);
    }
    let live = owner.map(|i| base < exp[i]).unwrap_or(false);
    match r {
        Ok(uid) => {
            assert!(live, "C17 lookup: an expired or unknown token does not authenticate");
            assert!(str_eq(&uid, UIDS[owner.unwrap()]), "C17 lookup: a token authenticates exactly the user it was issued to");
            std::mem::forget(uid);
        }
        Err(e) => {
            assert!(!live, "C17 lookup: a live token authenticates its user");
            assert!(e == AuthError::InvalidToken, "C17 lookup: error kind");
        }
    }
    s.reached();
    std::mem::forget(p);
    std::mem::forget(v);
}

/// op: invalidate_session(token) / invalidate_user_session(uid) / remove_user(uid), selected by OP.
pub fn invalidate<S: Src, const N: usize, const OP: usize>(s: &mut S) {
    let (has, exp, _base) = draw::<S, N>(s);
    let kq = (s.u8() % 6) as usize;
    let k = kq % 3;
    let mut v = users::<N>(has, exp);
    let mut p = AuthProvider::new(Db(&mut v as *mut _));
    match OP {
        0 => {
            p.invalidate_session(QUERY[kq]);
            let owner = if kq < 2 && kq < N && has[kq] { Some(kq) } else { None };
            let mut j = 0;
            while j < N {
                if Some(j) == owner {
                    assert!(v[j].session.is_none(), "C17 invalidate: the token's session is gone (live or expired)");
                } else {
                    assert!(unchanged::<N>(&v, j, &has, &exp), "C17 invalidate: other users untouched");
                }
                j += 1;
            }
            assert!(p.get_uid_by_token(QUERY[kq]).is_err(), "C17 invalidate: an invalidated token no longer authenticates");
        }
        1 => {
            p.invalidate_user_session(UIDS[k]);
            let mut j = 0;
            while j < N {
                if j == k {
                    assert!(v[j].session.is_none(), "C17 invalidate_user_session: the user's session is gone");
                } else {
                    assert!(unchanged::<N>(&v, j, &has, &exp), "C17 invalidate_user_session: other users untouched");
                }
                j += 1;
            }
        }
        _ => {
            let r = p.remove_user(UIDS[k]);
            if k < N {
                assert!(r.is_ok() && v.len() == N - 1, "C17 remove_user: existing user removed");
                assert!(p.get_uid_by_token(TOKENS[k]).is_err(), "C17 remove_user: the removed user's token no longer authenticates");
                let mut j = 0;
                while j < v.len() {
                    assert!(!str_eq(&v[j].uid, UIDS[k]), "C17 remove_user: uid gone");
                    j += 1;
                }
            } else {
                assert!(r == Err(AuthError::UserNotFound) && v.len() == N, "C17 remove_user: unknown uid rejected");
            }
        }
    }
    s.reached();
    std::mem::forget(p);
    std::mem::forget(v);
}

/// op: create_session(uid) (LIFE = usize::MAX) or create_session_with_lifetime(uid, LIFE).
pub fn create<S: Src, const N: usize, const LIFE: u64>(s: &mut S) {
    let (has, exp, base) = draw::<S, N>(s);
    let k = (s.u8() % 3) as usize;
    let mut v = users::<N>(has, exp);
    let mut p = AuthProvider::new(Db(&mut v as *mut _));
    let r = if LIFE == u64::MAX { p.create_session(UIDS[k]) } else { p.create_session_with_lifetime(UIDS[k], LIFE) };
    let life = if LIFE == u64::MAX { 3600 } else { LIFE };
    #[cfg(not(kani))]
    if k < N && has[k] && exp[k] >= base && exp[k] <= base + 3 {
        s.assume(false);
    }
    if k >= N {
        assert!(r == Err(AuthError::UserNotFound), "C17 create_session: unknown uid rejected");
    } else if has[k] && base < exp[k] {
        assert!(r == Err(AuthError::SessionAlreadyExists), "C17 create_session: at most one live session per user");
        assert!(unchanged::<N>(&v, k, &has, &exp), "C17 create_session: existing live session untouched");
    } else {
        match r {
            Ok(tok) => {
                let se = v[k].session.as_ref();
                assert!(se.is_some(), "C17 create_session: session stored");
                let se = se.unwrap();
                assert!(str_eq(&se.token, &tok), "C17 create_session: returned token is the stored one");
                assert!(tok.len() == 64, "C17 create_session: token is 32 bytes in hex");
                assert!(se.expiry >= base + life && se.expiry <= base + life + 3, "C17 create_session: expiry = now + lifetime");
                // lifetime 0 = already expired: must not authenticate
                let auth = p.get_uid_by_token(&tok);
                if life == 0 {
                    assert!(auth.is_err(), "C17 create_session_with_lifetime(0): the token is already expired and does not authenticate");
                } else if life > 10 {
                    assert!(auth.is_ok(), "C17 create_session: a fresh token authenticates its user");
                }
                std::mem::forget(auth);
                std::mem::forget(tok);
            }
            Err(_) => assert!(false, "C17 create_session: a user without a live session gets one"),
        }
    }
    let mut j = 0;
    while j < N {
        if j != k {
            assert!(unchanged::<N>(&v, j, &has, &exp), "C17 create_session: other users untouched");
        }
        j += 1;
    }
    s.reached();
    std::mem::forget(p);
    std::mem::forget(v);
}

include!("gen/c17_list.rs");
