//! RFC 6455 section 5.2 base framing, written from the figure:
//!
//!  byte0: FIN RSV1 RSV2 RSV3 opcode(4)      byte1: MASK len7(7)
//!  len7 == 126 -> 16-bit big-endian extended length; len7 == 127 -> 64-bit big-endian
//!  MASK -> 4-byte masking key; then payload, octet i XOR key[i mod 4] when masked.

pub const OPCODES: [u8; 6] = [0x0, 0x1, 0x2, 0x8, 0x9, 0xA];

pub fn opcode_valid(o: u8) -> bool {
    o == 0 || o == 1 || o == 2 || o == 8 || o == 9 || o == 10
}

/// Header length in bytes for a payload length and mask flag (shortest form).
pub fn header_len(len: u64, mask: bool) -> usize {
    let ext = if len < 126 {
        0
    } else if len < 65536 {
        2
    } else {
        8
    };
    2 + ext + if mask { 4 } else { 0 }
}

/// Expected header bytes (shortest length form). Returns (bytes, used).
pub fn encode_header(fin: bool, rsv: [bool; 3], opcode: u8, mask: bool, key: [u8; 4], len: u64) -> ([u8; 14], usize) {
    let mut h = [0u8; 14];
    h[0] = opcode & 0x0F;
    if fin {
        h[0] |= 0x80
    }
    if rsv[0] {
        h[0] |= 0x40
    }
    if rsv[1] {
        h[0] |= 0x20
    }
    if rsv[2] {
        h[0] |= 0x10
    }
    let mut n = 2;
    if len < 126 {
        h[1] = len as u8;
    } else if len < 65536 {
        h[1] = 126;
        h[2] = (len >> 8) as u8;
        h[3] = len as u8;
        n = 4;
    } else {
        h[1] = 127;
        let mut i = 0;
        while i < 8 {
            h[2 + i] = (len >> (8 * (7 - i))) as u8;
            i += 1;
        }
        n = 10;
    }
    if mask {
        h[1] |= 0x80;
        h[n] = key[0];
        h[n + 1] = key[1];
        h[n + 2] = key[2];
        h[n + 3] = key[3];
        n += 4;
    }
    (h, n)
}

#[derive(Clone, Copy, PartialEq, Eq, Debug)]
pub enum DecKind {
    /// fewer bytes than the frame needs
    Truncated,
    /// reserved opcode (header complete or not)
    BadOpcode,
    /// a complete frame
    Frame,
}

/// Decoded header of a reference decode over `b` (any length).
#[derive(Clone, Copy, Debug)]
pub struct RefHeader {
    pub kind: DecKind,
    /// with kind == BadOpcode: whether the rest is also truncated
    pub also_truncated: bool,
    pub fin: bool,
    pub rsv: [bool; 3],
    pub opcode: u8,
    pub mask: bool,
    pub len: u64,
    pub key: [u8; 4],
    /// offset of the first payload byte
    pub off: usize,
}

pub fn decode_header(b: &[u8]) -> RefHeader {
    let mut r = RefHeader {
        kind: DecKind::Truncated,
        also_truncated: false,
        fin: false,
        rsv: [false; 3],
        opcode: 0,
        mask: false,
        len: 0,
        key: [0; 4],
        off: 0,
    };
    if b.len() < 2 {
        return r;
    }
    r.fin = b[0] & 0x80 != 0;
    r.rsv = [b[0] & 0x40 != 0, b[0] & 0x20 != 0, b[0] & 0x10 != 0];
    r.opcode = b[0] & 0x0F;
    r.mask = b[1] & 0x80 != 0;
    let l7 = b[1] & 0x7F;
    let mut off = 2usize;
    let mut trunc = false;
    if l7 == 126 {
        if b.len() < 4 {
            trunc = true;
        } else {
            r.len = ((b[2] as u64) << 8) | b[3] as u64;
            off = 4;
        }
    } else if l7 == 127 {
        if b.len() < 10 {
            trunc = true;
        } else {
            let mut v = 0u64;
            let mut i = 0;
            while i < 8 {
                v = (v << 8) | b[2 + i] as u64;
                i += 1;
            }
            r.len = v;
            off = 10;
        }
    } else {
        r.len = l7 as u64;
    }
    if !trunc && r.mask {
        if b.len() < off + 4 {
            trunc = true;
        } else {
            r.key = [b[off], b[off + 1], b[off + 2], b[off + 3]];
            off += 4;
        }
    }
    if !trunc {
        let rest = (b.len() - off) as u64;
        if rest < r.len {
            trunc = true;
        }
    }
    r.off = off;
    if !opcode_valid(r.opcode) {
        r.kind = DecKind::BadOpcode;
        r.also_truncated = trunc;
    } else if trunc {
        r.kind = DecKind::Truncated;
    } else {
        r.kind = DecKind::Frame;
    }
    r
}
