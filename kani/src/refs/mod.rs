//! Short reference models written from the RFC texts.
pub mod ws;
pub mod b64;
