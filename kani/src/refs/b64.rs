//! RFC 4648 section 4 (base64, standard alphabet, '=' padding), written from the text:
//! 24-bit groups -> four 6-bit indices into the table; final 8 bits -> 2 symbols + "==";
//! final 16 bits -> 3 symbols + "=".

/// Table 1 of RFC 4648: value -> symbol.
pub fn sym(v: u8) -> u8 {
    if v < 26 {
        b'A' + v
    } else if v < 52 {
        b'a' + (v - 26)
    } else if v < 62 {
        b'0' + (v - 52)
    } else if v == 62 {
        b'+'
    } else {
        b'/'
    }
}

/// Inverse of the table: symbol -> value, or 255 when the byte is not in the alphabet.
pub fn val(c: u8) -> u8 {
    if c >= b'A' && c <= b'Z' {
        c - b'A'
    } else if c >= b'a' && c <= b'z' {
        c - b'a' + 26
    } else if c >= b'0' && c <= b'9' {
        c - b'0' + 52
    } else if c == b'+' {
        62
    } else if c == b'/' {
        63
    } else {
        255
    }
}

/// Encoded length for n input bytes.
pub fn enc_len(n: usize) -> usize {
    ((n + 2) / 3) * 4
}

/// i-th output symbol of the encoding of `b`.
pub fn enc_at(b: &[u8], i: usize) -> u8 {
    let g = i / 4;
    let j = i % 4;
    let b0 = b[3 * g];
    let have1 = 3 * g + 1 < b.len();
    let have2 = 3 * g + 2 < b.len();
    let b1 = if have1 { b[3 * g + 1] } else { 0 };
    let b2 = if have2 { b[3 * g + 2] } else { 0 };
    match j {
        0 => sym(b0 >> 2),
        1 => sym(((b0 & 3) << 4) | (b1 >> 4)),
        2 => {
            if have1 {
                sym(((b1 & 15) << 2) | (b2 >> 6))
            } else {
                b'='
            }
        }
        _ => {
            if have2 {
                sym(b2 & 63)
            } else {
                b'='
            }
        }
    }
}

#[derive(Clone, Copy, PartialEq, Eq, Debug)]
pub enum Class {
    /// canonical RFC 4648 text: must decode to `out[..n]`
    Valid,
    /// well-formed but with non-zero discarded bits in the final group: a decoder MAY reject (RFC 4648 §3.5)
    NonCanonical,
    /// not base64: must be rejected
    Malformed,
}

/// Strict classification + decoded bytes (out has room for 3 bytes per group).
pub fn classify(s: &[u8], out: &mut [u8]) -> (Class, usize) {
    if s.len() % 4 != 0 {
        return (Class::Malformed, 0);
    }
    let groups = s.len() / 4;
    let mut n = 0usize;
    let mut class = Class::Valid;
    let mut g = 0;
    while g < groups {
        let c = [s[4 * g], s[4 * g + 1], s[4 * g + 2], s[4 * g + 3]];
        let last = g + 1 == groups;
        let v0 = val(c[0]);
        let v1 = val(c[1]);
        if v0 == 255 || v1 == 255 {
            return (Class::Malformed, 0);
        }
        if c[2] == b'=' {
            // "xx==" only as the last group
            if !last || c[3] != b'=' {
                return (Class::Malformed, 0);
            }
            if v1 & 15 != 0 {
                class = Class::NonCanonical;
            }
            out[n] = (v0 << 2) | (v1 >> 4);
            n += 1;
        } else {
            let v2 = val(c[2]);
            if v2 == 255 {
                return (Class::Malformed, 0);
            }
            if c[3] == b'=' {
                if !last {
                    return (Class::Malformed, 0);
                }
                if v2 & 3 != 0 {
                    class = Class::NonCanonical;
                }
                out[n] = (v0 << 2) | (v1 >> 4);
                out[n + 1] = (v1 << 4) | (v2 >> 2);
                n += 2;
            } else {
                let v3 = val(c[3]);
                if v3 == 255 {
                    return (Class::Malformed, 0);
                }
                out[n] = (v0 << 2) | (v1 >> 4);
                out[n + 1] = (v1 << 4) | (v2 >> 2);
                out[n + 2] = (v2 << 6) | v3;
                n += 3;
            }
        }
        g += 1;
    }
    (class, n)
}
