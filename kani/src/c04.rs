//! C04 — routing: first matching host, then first matching route, else default, else none.
//! `wildcard_match` is replaced (Kani stub) by an uninterpreted predicate: a symbolic truth value per
//! pattern, so the query ranges over every possible matcher outcome (the matcher itself is C05).
//! Natively (replay) the same truth table is realised with literal patterns against the real matcher.
use crate::Src;
use humphrey::app::verif::{call_websocket_handler, get_handler};
use humphrey::http::address::Address;
use humphrey::http::headers::{HeaderType, Headers};
use humphrey::http::method::Method;
use humphrey::http::{Request, Response, StatusCode};
use humphrey::route::{RouteHandler, SubApp, WebsocketRouteHandler};
use humphrey::stream::Stream;
use std::net::{IpAddr, Ipv4Addr};
use std::sync::Arc;

pub static mut TABLE: [bool; 128] = [false; 128];
pub static mut STUB_CALLS: usize = 0;

/// Kani stub for humphrey::krauss::wildcard_match: truth value of the pattern whose id is its first byte.
pub fn stub_match(wild: &str, _tame: &str) -> bool {
    let id = wild.as_bytes()[0] as usize;
    unsafe {
        STUB_CALLS += 1;
        TABLE[id & 127]
    }
}

fn ok_handler(_: Request, _: Arc<()>) -> Response {
    Response::empty(StatusCode::OK)
}

fn pattern(id: u8, matches: bool, host: bool) -> String {
    #[cfg(kani)]
    {
        let _ = (matches, host);
        let mut s = String::with_capacity(1);
        s.push(id as char);
        s
    }
    #[cfg(not(kani))]
    {
        let _ = id;
        String::from(match (host, matches) {
            (true, true) => "h",
            (true, false) => "x",
            (false, true) => "/p",
            (false, false) => "/x",
        })
    }
}

fn request(with_host: bool) -> Request {
    let mut headers = Headers::new();
    if with_host {
        headers.add(HeaderType::Host, "h");
    }
    Request {
        method: Method::Get,
        uri: String::from("/p"),
        query: String::new(),
        version: String::from("HTTP/1.1"),
        headers,
        content: None,
        address: Address { origin_addr: IpAddr::V4(Ipv4Addr::new(127, 0, 0, 1)), proxies: Vec::new(), port: 80 },
    }
}

fn route_handler(id: u8, m: bool) -> RouteHandler<()> {
    let f: fn(Request, Arc<()>) -> Response = ok_handler;
    RouteHandler { route: pattern(id, m, false), handler: Box::new(f), cors: Default::default() }
}

/// H host sub-apps with R routes each, D default routes, Host header present iff HOSTHDR == 1.
pub fn route<S: Src, const H: usize, const R: usize, const D: usize, const HOSTHDR: usize>(s: &mut S) {
    let mut host_m = [false; H];
    let mut route_m = [[false; R]; H];
    let mut def_m = [false; D];
    let mut subapps: Vec<SubApp<()>> = Vec::with_capacity(H);
    let mut i = 0;
    while i < H {
        host_m[i] = s.bool();
        let hid = b'A' + i as u8;
        unsafe { TABLE[hid as usize] = host_m[i] };
        let mut routes = Vec::with_capacity(R);
        let mut j = 0;
        while j < R {
            route_m[i][j] = s.bool();
            let rid = b'a' + (i * R + j) as u8;
            unsafe { TABLE[rid as usize] = route_m[i][j] };
            routes.push(route_handler(rid, route_m[i][j]));
            j += 1;
        }
        subapps.push(SubApp { host: pattern(hid, host_m[i], true), routes, websocket_routes: Vec::new(), cors: None });
        i += 1;
    }
    let mut droutes = Vec::with_capacity(D);
    let mut k = 0;
    while k < D {
        def_m[k] = s.bool();
        let did = b'0' + k as u8;
        unsafe { TABLE[did as usize] = def_m[k] };
        droutes.push(route_handler(did, def_m[k]));
        k += 1;
    }
    let default = SubApp { host: String::from("*"), routes: droutes, websocket_routes: Vec::new(), cors: None };
    let req = request(HOSTHDR == 1);

    // reference rule
    let mut want: Option<*const RouteHandler<()>> = None;
    if HOSTHDR == 1 {
        let mut i = 0;
        while i < H {
            if host_m[i] {
                let mut j = 0;
                while j < R {
                    if route_m[i][j] {
                        want = Some(&subapps[i].routes[j] as *const _);
                        break;
                    }
                    j += 1;
                }
                break; // only the FIRST matching host is consulted
            }
            i += 1;
        }
    }
    if want.is_none() {
        let mut k = 0;
        while k < D {
            if def_m[k] {
                want = Some(&default.routes[k] as *const _);
                break;
            }
            k += 1;
        }
    }

    let got = get_handler(&req, &subapps, &default).map(|r| r as *const RouteHandler<()>);
    match (got, want) {
        (None, None) => {}
        (Some(g), Some(w)) => assert!(g == w, "C04 routing: the selected route is the first matching route of the first matching host, else of the default app"),
        (Some(_), None) => assert!(false, "C04 routing: a route was selected although nothing matches (must be 404)"),
        (None, Some(_)) => assert!(false, "C04 routing: no route selected although one matches"),
    }
    s.reached();
    std::mem::forget(subapps);
    std::mem::forget(default);
    std::mem::forget(req);
}

pub static mut WS_HIT: usize = usize::MAX;
pub static mut FD_DROPPED: usize = 0;

#[cfg(kani)]
pub fn stub_fd_drop(_fd: &mut std::os::fd::OwnedFd) {
    unsafe { FD_DROPPED += 1 };
}

fn test_stream() -> Stream {
    #[cfg(kani)]
    {
        use std::os::fd::FromRawFd;
        Stream::Tcp(unsafe { std::net::TcpStream::from_raw_fd(3) })
    }
    #[cfg(not(kani))]
    {
        let l = std::net::TcpListener::bind("127.0.0.1:0").unwrap();
        let c = std::net::TcpStream::connect(l.local_addr().unwrap()).unwrap();
        std::mem::forget(l);
        Stream::Tcp(c)
    }
}

fn ws_handler(id: u8, m: bool, idx: usize) -> WebsocketRouteHandler<()> {
    WebsocketRouteHandler {
        route: pattern(id, m, false),
        handler: Box::new(move |_r: Request, st: Stream, _s: Arc<()>| {
            unsafe { WS_HIT = idx };
            std::mem::forget(st);
        }),
    }
}

/// WebSocket dispatch: same rule over the websocket routes; no match => the stream is dropped (closed) without any handler.
pub fn ws_route<S: Src, const H: usize, const R: usize, const D: usize, const HOSTHDR: usize>(s: &mut S) {
    let mut host_m = [false; H];
    let mut route_m = [[false; R]; H];
    let mut def_m = [false; D];
    let mut subapps: Vec<SubApp<()>> = Vec::with_capacity(H);
    let mut i = 0;
    while i < H {
        host_m[i] = s.bool();
        let hid = b'A' + i as u8;
        unsafe { TABLE[hid as usize] = host_m[i] };
        let mut routes = Vec::with_capacity(R);
        let mut j = 0;
        while j < R {
            route_m[i][j] = s.bool();
            let rid = b'a' + (i * R + j) as u8;
            unsafe { TABLE[rid as usize] = route_m[i][j] };
            routes.push(ws_handler(rid, route_m[i][j], i * 10 + j));
            j += 1;
        }
        subapps.push(SubApp { host: pattern(hid, host_m[i], true), routes: Vec::new(), websocket_routes: routes, cors: None });
        i += 1;
    }
    let mut droutes = Vec::with_capacity(D);
    let mut k = 0;
    while k < D {
        def_m[k] = s.bool();
        let did = b'0' + k as u8;
        unsafe { TABLE[did as usize] = def_m[k] };
        droutes.push(ws_handler(did, def_m[k], 100 + k));
        k += 1;
    }
    let default = SubApp { host: String::from("*"), routes: Vec::new(), websocket_routes: droutes, cors: None };
    let req = request(HOSTHDR == 1);

    let mut want = usize::MAX;
    if HOSTHDR == 1 {
        let mut i = 0;
        while i < H {
            if host_m[i] {
                let mut j = 0;
                while j < R {
                    if route_m[i][j] {
                        want = i * 10 + j;
                        break;
                    }
                    j += 1;
                }
                break;
            }
            i += 1;
        }
    }
    if want == usize::MAX {
        let mut k = 0;
        while k < D {
            if def_m[k] {
                want = 100 + k;
                break;
            }
            k += 1;
        }
    }
    unsafe {
        WS_HIT = usize::MAX;
        FD_DROPPED = 0;
    }
    call_websocket_handler(&req, &subapps, &default, Arc::new(()), test_stream());
    let hit = unsafe { WS_HIT };
    assert!(hit == want, "C04 websocket routing: dispatched to the first matching websocket route of the first matching host, else of the default app, else to none");
    #[cfg(kani)]
    {
        let dropped = unsafe { FD_DROPPED };
        assert!((want == usize::MAX) == (dropped == 1), "C04 websocket routing: without a match the connection is closed (stream dropped) and no handler runs");
    }
    s.reached();
    std::mem::forget(subapps);
    std::mem::forget(default);
    std::mem::forget(req);
}

include!("gen/c04_list.rs");
