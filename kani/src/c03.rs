//! C03 — no input can crash, wedge or exhaust a parser (frame decoder, Base64 decoder; JSON/config/HTTP: see the evidence).
//! Most obligations reuse the differential harnesses of C10/C18 (a panic, an arithmetic overflow, an out-of-bounds index or
//! a loop that exceeds its unwinding bound fails them); this module adds the allocation bound.
pub use crate::c10::{dec, dec_c, dec_ext, dec_std};
pub use crate::c18::{b64_dec, b64_dec_mb};
use crate::Src;
use humphrey_ws::verif::Frame;

pub static mut MAX_ALLOC: usize = 0;

/// Kani stub for alloc::vec::from_elem (every `vec![x; n]`): records the requested element count, then builds the zeroed
/// vector without a loop. Only used where all `vec![..; n]` are byte vectors of zeros (asserted).
#[cfg(kani)]
pub fn stub_from_elem<T: Clone>(elem: T, n: usize) -> Vec<T> {
    assert!(std::mem::size_of::<T>() == 1, "C03 harness: from_elem stub is for byte vectors");
    unsafe {
        if n > MAX_ALLOC {
            MAX_ALLOC = n;
        }
    }
    let _ = elem;
    let mut v: Vec<T> = Vec::with_capacity(n);
    unsafe {
        std::ptr::write_bytes(v.as_mut_ptr(), 0, n);
        v.set_len(n);
    }
    v
}

/// The frame decoder never asks for more payload memory than 64 KiB beyond what it has received, whatever length the
/// header claims (N fully symbolic bytes, whole delivery).
pub fn frame_alloc<S: Src, const N: usize>(s: &mut S) {
    let b: [u8; N] = s.bytes::<N>();
    let mut rd: &[u8] = &b;
    #[cfg(kani)]
    unsafe {
        MAX_ALLOC = 0;
    }
    #[cfg(not(kani))]
    crate::alloc_track::reset();
    let r = Frame::from_stream(&mut rd);
    #[cfg(kani)]
    let max = unsafe { MAX_ALLOC };
    #[cfg(not(kani))]
    let max = crate::alloc_track::max_request();
    assert!(max <= 65536 + N + 64, "C03: memory requested by the frame decoder is bounded by the bytes supplied plus a constant, not by the claimed length");
    s.reached();
    std::mem::forget(r);
}

include!("gen/c03_list.rs");
