//! Engine K: Kani harnesses over the real Humphrey crates (path dependencies on /repo).
//!
//! Every harness body is generic over a value source `Src`:
//!   * under `cargo kani` the source is `KaniSrc` (each byte is `kani::any()`), so the solver
//!     decides the body's assertions for every value;
//!   * natively (`replay` binary) the source is `ReplaySrc`, which feeds the bytes of a
//!     counterexample extracted from Kani's concrete playback, so the same body runs against
//!     the natively compiled real code before anything is reported.
//!
//! All multi-byte values are composed from `u8()` so that a counterexample is a flat byte list.
#![allow(clippy::all)]
#![allow(dead_code)]

pub trait Src {
    fn u8(&mut self) -> u8;
    fn assume(&mut self, c: bool);
    /// Reachability witness (vacuity guard): must be SATISFIED under Kani.
    fn reached(&mut self);
    /// Known-finding region (keyed by role, see known_findings.txt): ordinary harnesses exclude
    /// the region (`assume(!inside)`), the `only` twin of a harness is restricted to it, and the
    /// native replay reports which regions a counterexample lies in.
    fn region(&mut self, key: &'static str, inside: bool);

    fn bool(&mut self) -> bool {
        let b = self.u8();
        self.assume(b < 2);
        b == 1
    }
    fn u16(&mut self) -> u16 {
        u16::from_le_bytes([self.u8(), self.u8()])
    }
    fn u32(&mut self) -> u32 {
        u32::from_le_bytes([self.u8(), self.u8(), self.u8(), self.u8()])
    }
    fn u64(&mut self) -> u64 {
        let lo = self.u32() as u64;
        let hi = self.u32() as u64;
        lo | (hi << 32)
    }
    fn bytes<const N: usize>(&mut self) -> [u8; N] {
        let mut a = [0u8; N];
        let mut i = 0;
        while i < N {
            a[i] = self.u8();
            i += 1;
        }
        a
    }
}

#[cfg(kani)]
pub struct KaniSrc {
    pub only: Option<&'static str>,
}

#[cfg(kani)]
fn key_eq(a: &'static str, b: &'static str) -> bool {
    // keys are compile-time constants; compare pointers+len first, bytes otherwise
    let (x, y) = (a.as_bytes(), b.as_bytes());
    if x.len() != y.len() {
        return false;
    }
    let mut i = 0;
    while i < x.len() {
        if x[i] != y[i] {
            return false;
        }
        i += 1;
    }
    true
}

#[cfg(kani)]
impl Src for KaniSrc {
    #[inline(always)]
    fn u8(&mut self) -> u8 {
        kani::any()
    }
    #[inline(always)]
    fn assume(&mut self, c: bool) {
        kani::assume(c)
    }
    #[inline(always)]
    fn reached(&mut self) {
        kani::cover!(true, "VK_REACHED");
    }
    #[inline(always)]
    fn region(&mut self, key: &'static str, inside: bool) {
        match self.only {
            Some(k) if key_eq(k, key) => kani::assume(inside),
            _ => kani::assume(!inside),
        }
    }
}

/// Native value source: bytes of a counterexample.
pub struct ReplaySrc {
    pub data: Vec<u8>,
    pub pos: usize,
    pub reached: bool,
    pub only: Option<&'static str>,
}

pub const EXIT_ASSUME: i32 = 3;
pub const EXIT_UNDERRUN: i32 = 4;

impl Src for ReplaySrc {
    fn u8(&mut self) -> u8 {
        if self.pos >= self.data.len() {
            // Values the solver left unconstrained are not listed by the playback: use 0.
            self.pos += 1;
            return 0;
        }
        let b = self.data[self.pos];
        self.pos += 1;
        b
    }
    fn assume(&mut self, c: bool) {
        if !c {
            eprintln!("replay: assumption violated (counterexample outside the harness precondition)");
            std::process::exit(EXIT_ASSUME);
        }
    }
    fn reached(&mut self) {
        self.reached = true;
    }
    fn region(&mut self, key: &'static str, inside: bool) {
        if inside {
            println!("REGION {}", key);
            eprintln!("REGION {}", key);
        }
        match self.only {
            Some(k) if k == key => self.assume(inside),
            _ => self.assume(!inside),
        }
    }
}

/// Declares harnesses once: a `#[kani::proof]` per entry plus a native dispatch table.
#[macro_export]
macro_rules! harnesses {
    ($( $(#[$attr:meta])* $name:ident [$unwind:expr] {$only:expr} => $body:expr ; )*) => {
        $(
            #[cfg(kani)]
            #[kani::proof]
            #[kani::unwind($unwind)]
            $(#[$attr])*
            pub fn $name() {
                let mut s = $crate::KaniSrc { only: $only };
                $body(&mut s);
            }
        )*
        pub fn dispatch(name: &str, s: &mut $crate::ReplaySrc) -> bool {
            match name {
                $( stringify!($name) => { s.only = $only; $body(s); true } )*
                _ => false,
            }
        }
        pub fn names() -> Vec<&'static str> {
            vec![$( stringify!($name) ),*]
        }
    };
}

pub mod refs;
pub mod rd;
pub mod c02;
pub mod alloc_track;
pub mod c03;
pub mod c04;
pub mod c07;
pub mod c09;
pub mod c10;
pub mod c11;
pub mod net;
pub mod c14;
pub mod c17;
pub mod c18;
pub mod c19;

pub fn dispatch_all(name: &str, s: &mut ReplaySrc) -> bool {
    c02::dispatch(name, s) || c03::dispatch(name, s) || c04::dispatch(name, s) || c07::dispatch(name, s) || c09::dispatch(name, s) || c10::dispatch(name, s) || c11::dispatch(name, s) || c14::dispatch(name, s) || c17::dispatch(name, s) || c18::dispatch(name, s) || c19::dispatch(name, s)
}
pub fn all_names() -> Vec<&'static str> {
    let mut v = Vec::new();
    v.extend(c02::names());
    v.extend(c03::names());
    v.extend(c04::names());
    v.extend(c07::names());
    v.extend(c09::names());
    v.extend(c10::names());
    v.extend(c11::names());
    v.extend(c14::names());
    v.extend(c17::names());
    v.extend(c18::names());
    v.extend(c19::names());
    v
}
