//! C14 — typed JSON mapping and the json! macro, over a fixed family of programs compiled from the current macro/derive
//! sources (the quantifier over programs is out of reach; inputs are symbolic).
use crate::Src;
use humphrey_json::prelude::*;
use humphrey_json::Value;

/// Structural equality of JSON values (Value has no PartialEq); numbers compared as f64 bit-for-value.
pub fn veq(a: &Value, b: &Value) -> bool {
    match (a, b) {
        (Value::Null, Value::Null) => true,
        (Value::Bool(x), Value::Bool(y)) => x == y,
        (Value::Number(x), Value::Number(y)) => x == y,
        (Value::String(x), Value::String(y)) => seq(x.as_bytes(), y.as_bytes()),
        (Value::Array(x), Value::Array(y)) => {
            if x.len() != y.len() {
                return false;
            }
            let mut i = 0;
            while i < x.len() {
                if !veq(&x[i], &y[i]) {
                    return false;
                }
                i += 1;
            }
            true
        }
        (Value::Object(x), Value::Object(y)) => {
            if x.len() != y.len() {
                return false;
            }
            let mut i = 0;
            while i < x.len() {
                if !seq(x[i].0.as_bytes(), y[i].0.as_bytes()) || !veq(&x[i].1, &y[i].1) {
                    return false;
                }
                i += 1;
            }
            true
        }
        _ => false,
    }
}

fn seq(a: &[u8], b: &[u8]) -> bool {
    if a.len() != b.len() {
        return false;
    }
    let mut i = 0;
    while i < a.len() {
        if a[i] != b[i] {
            return false;
        }
        i += 1;
    }
    true
}

/// json! literals with `null` in various positions equal the hand-built value (one literal per harness: WHICH).
pub fn macro_lit<S: Src, const WHICH: usize>(s: &mut S) {
    let x = s.bool();
    let y = s.u8();
    let (got, want) = match WHICH {
        0 => (json!([null, x]), Value::Array(vec![Value::Null, Value::Bool(x)])),
        1 => (json!([x, null, y]), Value::Array(vec![Value::Bool(x), Value::Null, Value::Number(y as f64)])),
        2 => (json!([null, null, x,]), Value::Array(vec![Value::Null, Value::Null, Value::Bool(x)])),
        3 => (json!({"a": null, "b": x}), Value::Object(vec![("a".to_string(), Value::Null), ("b".to_string(), Value::Bool(x))])),
        4 => (json!({"k": [y, null], "n": null}), Value::Object(vec![("k".to_string(), Value::Array(vec![Value::Number(y as f64), Value::Null])), ("n".to_string(), Value::Null)])),
        _ => (json!([[null, x], {"z": y}]), Value::Array(vec![Value::Array(vec![Value::Null, Value::Bool(x)]), Value::Object(vec![("z".to_string(), Value::Number(y as f64))])])),
    };
    assert!(veq(&got, &want), "C14 json!: the literal evaluates to the value it denotes (null in any position, nothing dropped, members in source order)");
    s.reached();
    std::mem::forget((got, want));
}

#[derive(FromJson, IntoJson, PartialEq, Clone)]
pub struct Inner {
    pub k: i32,
}

#[derive(FromJson, IntoJson, PartialEq, Clone)]
pub struct Outer {
    pub flag: bool,
    pub n: u8,
    #[rename = "o\"p"]
    pub opt: Option<u8>,
    pub inner: Inner,
}

#[derive(FromJson, IntoJson, PartialEq, Clone, Copy)]
pub enum Kind {
    Alpha,
    #[rename = "b-e-t-a"]
    Beta,
    Gamma,
}

#[derive(FromJson, IntoJson, PartialEq, Clone)]
pub struct Pair(pub bool, pub u8);

#[derive(PartialEq, Clone)]
pub struct Mapped {
    pub on: bool,
    pub level: Option<u8>,
}
json_map! { Mapped, on => "is_on", level => "lvl" }

/// derive(FromJson, IntoJson) on a named struct with rename, Option and a nested struct: shape and round trip.
pub fn derive_struct<S: Src>(s: &mut S) {
    let flag = s.bool();
    let n = s.u8();
    let has = s.bool();
    let o = s.u8();
    let k = s.u32() as i32;
    let v = Outer { flag, n, opt: if has { Some(o) } else { None }, inner: Inner { k } };
    let j = v.to_json();
    let want = Value::Object(vec![
        ("flag".to_string(), Value::Bool(flag)),
        ("n".to_string(), Value::Number(n as f64)),
        ("o\"p".to_string(), if has { Value::Number(o as f64) } else { Value::Null }),
        ("inner".to_string(), Value::Object(vec![("k".to_string(), Value::Number(k as f64))])),
    ]);
    assert!(veq(&j, &want), "C14 derive: object keyed by field (or renamed) names in declaration order");
    match Outer::from_json(&j) {
        Ok(back) => assert!(back == v, "C14 derive: from_json(to_json(v)) == v"),
        Err(_) => assert!(false, "C14 derive: own JSON must convert back"),
    }
    s.reached();
    std::mem::forget((j, want));
}

/// Unit-variant enum (with rename) and tuple struct: string / array shapes and round trips.
pub fn derive_enum_tuple<S: Src>(s: &mut S) {
    let which = s.u8() % 3;
    let e = match which {
        0 => Kind::Alpha,
        1 => Kind::Beta,
        _ => Kind::Gamma,
    };
    let j = e.to_json();
    let name = match which {
        0 => "Alpha",
        1 => "b-e-t-a",
        _ => "Gamma",
    };
    assert!(veq(&j, &Value::String(name.to_string())), "C14 derive: enum variant is its (renamed) name as a string");
    assert!(matches!(Kind::from_json(&j), Ok(b) if b == e), "C14 derive: enum round trip");
    let p = Pair(s.bool(), s.u8());
    let jp = p.to_json();
    assert!(veq(&jp, &Value::Array(vec![Value::Bool(p.0), Value::Number(p.1 as f64)])), "C14 derive: tuple struct is an array");
    assert!(matches!(Pair::from_json(&jp), Ok(b) if b == p), "C14 derive: tuple struct round trip");
    let m = Mapped { on: s.bool(), level: if s.bool() { Some(s.u8()) } else { None } };
    let jm = m.to_json();
    let want = Value::Object(vec![("is_on".to_string(), Value::Bool(m.on)), ("lvl".to_string(), match m.level { Some(l) => Value::Number(l as f64), None => Value::Null })]);
    assert!(veq(&jm, &want), "C14 json_map!: object keyed by the mapped names");
    assert!(matches!(Mapped::from_json(&jm), Ok(b) if b == m), "C14 json_map!: round trip");
    s.reached();
    std::mem::forget((j, jp, jm, want));
}

/// Integer primitives survive to_json/from_json (through f64): u8/i8/u16/i16/u32/i32 for all values.
pub fn prim_roundtrip<S: Src>(s: &mut S) {
    let a = s.u32();
    let j = a.to_json();
    assert!(matches!(u32::from_json(&j), Ok(b) if b == a), "C14 primitives: u32 round trip");
    let i = a as i32;
    assert!(matches!(i32::from_json(&i.to_json()), Ok(b) if b == i), "C14 primitives: i32 round trip");
    let h = a as u16;
    assert!(matches!(u16::from_json(&h.to_json()), Ok(b) if b == h), "C14 primitives: u16 round trip");
    let c = a as i8;
    assert!(matches!(i8::from_json(&c.to_json()), Ok(b) if b == c), "C14 primitives: i8 round trip");
    s.reached();
}

/// 64-bit integers: round trip holds up to 2^53; beyond that the f64 representation loses them (known finding region).
pub fn prim64_roundtrip<S: Src>(s: &mut S) {
    let a = s.u64();
    s.region("int64-beyond-2^53", a > (1u64 << 53));
    let j = a.to_json();
    assert!(matches!(u64::from_json(&j), Ok(b) if b == a), "C14 primitives: u64 round trip");
    let i = a as i64;
    let neg = if s.bool() { i.wrapping_neg() } else { i };
    s.region("int64-beyond-2^53", neg.unsigned_abs() > (1u64 << 53));
    assert!(matches!(i64::from_json(&neg.to_json()), Ok(b) if b == neg), "C14 primitives: i64 round trip");
    s.reached();
}

include!("gen/c14_list.rs");
