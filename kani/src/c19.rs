//! C19 — a blacklisted address never receives content (decision functions; the network level is outside the claim).
use crate::Src;
use humphrey::http::address::Address;
use humphrey::http::headers::{HeaderType, Headers};
use humphrey::http::method::Method;
use humphrey::http::{Request, Response, StatusCode};
use humphrey_server::config::{BlacklistMode, Config, LoadBalancerMode};
use humphrey_server::logger::LogLevel;
use humphrey_server::proxy::{proxy_handler, EqMutex, LoadBalancer};
use humphrey_server::r#static::{directory_handler, file_handler, redirect_handler};
use humphrey_server::rand::Lcg;
use humphrey_server::server::AppState;
use std::net::{IpAddr, Ipv4Addr, Ipv6Addr};
use std::sync::Arc;

/// Stub for alloc::fmt::format: log lines are not the subject.
#[cfg(kani)]
pub fn stub_format(_a: std::fmt::Arguments<'_>) -> String {
    String::new()
}

// Markers for everything a blacklisted request must never reach. Under Kani they replace the real functions (which would drag
// the file system, the clock and error formatting into the symbolic execution) and fail the proof if they are reachable.
#[cfg(kani)]
pub fn stub_cache_get<'a>(_c: &'a humphrey_server::cache::Cache, _r: &str, _h: usize) -> Option<&'a humphrey_server::cache::CachedItem> {
    panic!("C19: the cache was consulted for a blacklisted origin")
}
#[cfg(kani)]
pub fn stub_file_open<P: AsRef<std::path::Path>>(_p: P) -> std::io::Result<std::fs::File> {
    panic!("C19: the file system was accessed for a blacklisted origin")
}
#[cfg(kani)]
pub fn stub_try_find_path(_d: &str, _p: &str, _i: &[&str]) -> Option<humphrey::route::LocatedPath> {
    panic!("C19: the file system was searched for a blacklisted origin")
}
#[cfg(kani)]
pub fn stub_proxy_request(_r: &Request, _t: std::net::SocketAddr, _d: std::time::Duration) -> Response {
    panic!("C19: the upstream was contacted for a blacklisted origin")
}

pub static mut PEER: [u8; 4] = [127, 0, 0, 1];

#[cfg(kani)]
pub fn stub_peer_addr(_s: &std::net::TcpStream) -> std::io::Result<std::net::SocketAddr> {
    let p = unsafe { PEER };
    Ok(std::net::SocketAddr::new(IpAddr::V4(Ipv4Addr::new(p[0], p[1], p[2], p[3])), 40000))
}

fn state(list: Vec<IpAddr>, block: bool, cache_on: bool) -> Arc<AppState> {
    use humphrey_server::config::{BlacklistConfig, CacheConfig, ConfigSource, HostConfig, LoggingConfig};
    // a minimal configuration written out field by field (Config::default() allocates a dozen strings and a default
    // route, whose construction and drop glue dominate the symbolic execution)
    let c = Config {
        source: ConfigSource::Default,
        address: String::new(),
        port: 80,
        threads: 1,
        default_websocket_proxy: None,
        hosts: Vec::new(),
        default_host: HostConfig { matches: String::new(), routes: Vec::new() },
        logging: LoggingConfig { level: LogLevel::Error, console: false, file: None },
        cache: CacheConfig { size_limit: if cache_on { 4096 } else { 0 }, time_limit: 60 },
        blacklist: BlacklistConfig { list, mode: if block { BlacklistMode::Block } else { BlacklistMode::Forbidden } },
        connection_timeout: None,
    };
    Arc::new(AppState::from(c))
}

fn request(origin: IpAddr) -> Request {
    Request {
        method: Method::Get,
        uri: String::from("/f"),
        query: String::new(),
        version: String::new(),
        headers: Headers::new(),
        content: None,
        address: Address { origin_addr: origin, proxies: Vec::new(), port: 80 },
    }
}

fn v4<S: Src>(s: &mut S) -> IpAddr {
    let b: [u8; 4] = s.bytes::<4>();
    IpAddr::V4(Ipv4Addr::new(b[0], b[1], b[2], b[3]))
}

fn v6<S: Src>(s: &mut S) -> IpAddr {
    // ::<a>:<b> — two symbolic segments are enough to distinguish addresses
    let a = s.u16();
    let b = s.u16();
    IpAddr::V6(Ipv6Addr::new(0, 0, 0, 0, 0, 0, a, b))
}

fn is_403(r: &Response) -> bool {
    // "<h1>403 Forbidden</h1>" — compared without a loop (length + probe bytes) to keep the unwinding bound small
    let body = b"<h1>403 Forbidden</h1>";
    r.status_code == StatusCode::Forbidden
        && r.body.len() == body.len()
        && r.body[0] == body[0]
        && r.body[4] == body[4]
        && r.body[5] == body[5]
        && r.body[6] == body[6]
        && r.body[8] == body[8]
        && r.body[16] == body[16]
        && r.body[21] == body[21]
}

/// Listed origin (N symbolic list entries, V6 = 1 for IPv6) -> every handler answers 403 without touching file system,
/// cache or upstream (reaching them would hit unsupported foreign calls / the real FS).  ROUTE: 0 file, 1 directory, 2 redirect, 3 proxy.
pub fn listed<S: Src, const N: usize, const ROUTE: usize, const V6: usize>(s: &mut S) {
    let mut list = Vec::with_capacity(N);
    let mut i = 0;
    while i < N {
        list.push(if V6 == 1 { v6(s) } else { v4(s) });
        i += 1;
    }
    let origin = if V6 == 1 { v6(s) } else { v4(s) };
    let mut member = false;
    let mut i = 0;
    while i < N {
        if list[i] == origin {
            member = true;
        }
        i += 1;
    }
    s.assume(member);
    let block = s.bool();
    let cache_on = s.bool();
    let st = state(list, block, cache_on);
    let req = request(origin);
    // natively (replay) nothing is stubbed: make a consulted cache observable by putting content for this very request into it
    #[cfg(not(kani))]
    if cache_on {
        st.cache.write().unwrap().set("/f", 0, b"cached secret".to_vec(), humphrey::http::mime::MimeType::TextPlain);
    }
    let resp = match ROUTE {
        0 => file_handler(req, st.clone(), "/nonexistent/f.txt", 0),
        1 => directory_handler(req, st.clone(), "/nonexistent", "/*", 0),
        2 => redirect_handler(req, st.clone(), "https://example.com/"),
        _ => {
            let lb = EqMutex::new(LoadBalancer {
                targets: vec![String::from("127.0.0.1:9")],
                mode: LoadBalancerMode::RoundRobin,
                index: 0,
                lcg: Lcg::with_parameters(2147483647, 1103515245, 12345, 1),
            });
            let r = proxy_handler(req, st.clone(), &lb, "/*");
            std::mem::forget(lb);
            r
        }
    };
    assert!(is_403(&resp), "C19: a request whose origin address is blacklisted is answered 403 Forbidden with the fixed body and nothing else");
    assert!(resp.headers.get(HeaderType::Location).is_none(), "C19: no redirect target is disclosed to a blacklisted address");
    s.reached();
    std::mem::forget(resp);
    std::mem::forget(st);
}

/// Unlisted origin on a redirect route is served normally (301 to the target). (File/directory/proxy need the FS / network.)
pub fn unlisted_redirect<S: Src, const N: usize>(s: &mut S) {
    let mut list = Vec::with_capacity(N);
    let mut i = 0;
    while i < N {
        list.push(v4(s));
        i += 1;
    }
    let origin = v4(s);
    let mut i = 0;
    while i < N {
        s.assume(list[i] != origin);
        i += 1;
    }
    let block = s.bool();
    let st = state(list, block, false);
    let resp = redirect_handler(request(origin), st.clone(), "https://example.com/");
    assert!(resp.status_code == StatusCode::MovedPermanently, "C19: clients whose addresses are all unlisted are served normally");
    assert!(resp.headers.get(HeaderType::Location).is_some(), "C19: redirect carries its Location");
    s.reached();
    std::mem::forget(resp);
    std::mem::forget(st);
}

/// Connection condition: refuse iff mode == block and the peer address is listed.
pub fn connection<S: Src, const N: usize>(s: &mut S) {
    let mut list = Vec::with_capacity(N);
    let mut i = 0;
    while i < N {
        list.push(v4(s));
        i += 1;
    }
    let block = s.bool();
    #[cfg(kani)]
    let peer = {
        let p: [u8; 4] = s.bytes::<4>();
        unsafe { PEER = p };
        IpAddr::V4(Ipv4Addr::new(p[0], p[1], p[2], p[3]))
    };
    #[cfg(not(kani))]
    let peer = {
        let _ = s.bytes::<4>();
        IpAddr::V4(Ipv4Addr::new(127, 0, 0, 1))
    };
    let mut member = false;
    let mut i = 0;
    while i < N {
        if list[i] == peer {
            member = true;
        }
        i += 1;
    }
    let st = state(list, block, false);
    #[cfg(kani)]
    let mut stream = {
        use std::os::fd::FromRawFd;
        unsafe { std::net::TcpStream::from_raw_fd(3) }
    };
    #[cfg(not(kani))]
    let (mut stream, _keep) = {
        let l = std::net::TcpListener::bind("127.0.0.1:0").unwrap();
        let c = std::net::TcpStream::connect(l.local_addr().unwrap()).unwrap();
        let (srv, _) = l.accept().unwrap();
        (srv, c)
    };
    let ok = humphrey_server::server::verif_verify_connection(&mut stream, st.clone());
    assert!(ok == !(block && member), "C19: in block mode a connection from a listed address is refused; every other connection is accepted");
    s.reached();
    std::mem::forget(stream);
    std::mem::forget(st);
}

include!("gen/c19_list.rs");

