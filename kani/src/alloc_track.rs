//! Native replay only: a global allocator wrapper that records the largest single allocation request, so that an
//! allocation-bound counterexample found under Kani (where `vec::from_elem` is stubbed by a recorder) is observable natively.
use std::alloc::{GlobalAlloc, Layout, System};
use std::sync::atomic::{AtomicUsize, Ordering};

pub static MAX_REQUEST: AtomicUsize = AtomicUsize::new(0);

pub struct Tracking;

unsafe impl GlobalAlloc for Tracking {
    unsafe fn alloc(&self, l: Layout) -> *mut u8 {
        MAX_REQUEST.fetch_max(l.size(), Ordering::Relaxed);
        System.alloc(l)
    }
    unsafe fn dealloc(&self, p: *mut u8, l: Layout) {
        System.dealloc(p, l)
    }
    unsafe fn alloc_zeroed(&self, l: Layout) -> *mut u8 {
        MAX_REQUEST.fetch_max(l.size(), Ordering::Relaxed);
        System.alloc_zeroed(l)
    }
    unsafe fn realloc(&self, p: *mut u8, l: Layout, n: usize) -> *mut u8 {
        MAX_REQUEST.fetch_max(n, Ordering::Relaxed);
        System.realloc(p, l, n)
    }
}

pub fn reset() {
    MAX_REQUEST.store(0, Ordering::Relaxed);
}
pub fn max_request() -> usize {
    MAX_REQUEST.load(Ordering::Relaxed)
}
