//! C18 — home-grown Base64 (Kani part; SHA-1 and dates are decided by engine M).
use crate::refs::b64 as r;
use crate::Src;
use humphrey_ws::verif::{Base64Decode, Base64Encode};

/// encode of L symbolic bytes == RFC 4648 (length, every symbol, padding).
pub fn b64_enc<S: Src, const L: usize>(s: &mut S) {
    let b: [u8; L] = s.bytes::<L>();
    let e: String = b.encode();
    let eb = e.as_bytes();
    assert!(eb.len() == r::enc_len(L), "C18 base64 encode: output length");
    let mut i = 0;
    while i < eb.len() {
        assert!(eb[i] == r::enc_at(&b, i), "C18 base64 encode: symbol");
        i += 1;
    }
    s.reached();
    std::mem::forget(e);
}

/// encode of L bytes whose first C bytes are the concrete pattern 0x00,0x10,0x83,0xff,.. and the rest symbolic
/// (groups are encoded independently; this reaches the 2nd/3rd group at an affordable cost).
pub fn b64_enc_tail<S: Src, const L: usize, const C: usize>(s: &mut S) {
    let mut b: [u8; L] = [0; L];
    let pat = [0x00u8, 0x10, 0x83, 0xff, 0xfe, 0x3f];
    let mut i = 0;
    while i < L {
        b[i] = if i < C { pat[i % 6] } else { s.u8() };
        i += 1;
    }
    let e: String = b.encode();
    let eb = e.as_bytes();
    assert!(eb.len() == r::enc_len(L), "C18 base64 encode: output length");
    let mut i = 0;
    while i < eb.len() {
        assert!(eb[i] == r::enc_at(&b, i), "C18 base64 encode: symbol");
        i += 1;
    }
    s.reached();
    std::mem::forget(e);
}

/// decode of N symbolic ASCII bytes vs the strict RFC 4648 classification.
pub fn b64_dec<S: Src, const N: usize>(s: &mut S) {
    let b: [u8; N] = s.bytes::<N>();
    let mut i = 0;
    while i < N {
        s.assume(b[i] < 128);
        i += 1;
    }
    dec_check(s, &b);
}

/// decode of G groups drawn from the ALPHABET only (plus '='): assume every byte is a symbol or '='.
pub fn b64_dec_alpha<S: Src, const N: usize>(s: &mut S) {
    let b: [u8; N] = s.bytes::<N>();
    let mut i = 0;
    while i < N {
        s.assume(b[i] < 128 && (r::val(b[i]) != 255 || b[i] == b'='));
        i += 1;
    }
    dec_check(s, &b);
}

/// decode of N bytes that contain one 2-byte UTF-8 character at byte offset POS (lead C2..DF, continuation 80..BF, both
/// symbolic) and symbolic ASCII elsewhere: valid &str, never base64 -> must be rejected, must not panic.
pub fn b64_dec_mb<S: Src, const N: usize, const POS: usize>(s: &mut S) {
    let b: [u8; N] = s.bytes::<N>();
    let mut i = 0;
    while i < N {
        if i == POS {
            s.assume(b[i] >= 0xC2 && b[i] <= 0xDF);
        } else if i == POS + 1 {
            s.assume(b[i] >= 0x80 && b[i] <= 0xBF);
        } else {
            s.assume(b[i] < 128);
        }
        i += 1;
    }
    let text = unsafe { std::str::from_utf8_unchecked(&b) };
    let got = text.decode();
    assert!(got.is_err(), "C18 base64 decode: text containing a non-ASCII character is not base64 and must be rejected");
    s.reached();
}

fn dec_check<S: Src>(s: &mut S, b: &[u8]) {
    // all bytes are < 0x80 (assumed by the callers), so this is valid UTF-8; the unchecked
    // conversion keeps the length a constant for the solver
    let text = unsafe { std::str::from_utf8_unchecked(b) };
    let mut want = [0u8; 16];
    let (class, n) = r::classify(b, &mut want);
    let got = text.decode();
    match got {
        Ok(v) => {
            assert!(class != r::Class::Malformed, "C18 base64 decode: malformed input must be rejected");
            assert!(v.len() == n, "C18 base64 decode: output length");
            let mut i = 0;
            while i < n {
                assert!(v[i] == want[i], "C18 base64 decode: output byte");
                i += 1;
            }
            std::mem::forget(v);
        }
        Err(()) => {
            assert!(class != r::Class::Valid, "C18 base64 decode: canonical RFC 4648 text must decode");
        }
    }
    s.reached();
}

/// decode(encode(b)) == b for L symbolic bytes (T = encoded length). The encoder's output is
/// copied into a stack array (its length asserted to be T) so the decoder sees a constant length.
pub fn b64_rt<S: Src, const L: usize, const T: usize>(s: &mut S) {
    let b: [u8; L] = s.bytes::<L>();
    let e: String = b.encode();
    assert!(e.len() == T, "C18 base64 roundtrip: encoded length");
    let mut arr = [0u8; T];
    let mut i = 0;
    while i < T {
        let c = e.as_bytes()[i];
        assert!(c < 128, "C18 base64 roundtrip: encoder output is ASCII");
        arr[i] = c;
        i += 1;
    }
    let text = unsafe { std::str::from_utf8_unchecked(&arr) };
    match text.decode() {
        Ok(v) => {
            assert!(v.len() == L, "C18 base64 roundtrip: length");
            let mut i = 0;
            while i < L {
                assert!(v[i] == b[i], "C18 base64 roundtrip: byte");
                i += 1;
            }
            std::mem::forget(v);
        }
        Err(()) => assert!(false, "C18 base64 roundtrip: encoder output must decode"),
    }
    s.reached();
    std::mem::forget(e);
}


include!("gen/c18_list.rs");
