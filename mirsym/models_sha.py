"""std models for the SHA-1 kernel (C18): slices/ranges of byte vectors, integer iterators, u32 bit operations."""
from dataclasses import dataclass, replace
import z3

from .exec import *
from .models import M


@dataclass(frozen=True)
class SliceIter:
    base: object       # reference to the array/slice
    pos: int
    mutable: bool = False


@dataclass(frozen=True)
class EnumIt:
    it: object
    count: int


@dataclass(frozen=True)
class FlatMapIt:
    it: object
    closure: object
    cur: tuple


@dataclass(frozen=True)
class ZipIt:
    a: object
    b: object


def _bv(x, w):
    if is_sym(x):
        return x
    return z3.BitVecVal(int(x), w)


def elements_of(ex, st, ref):
    v = ex.deref(ref, st)
    return ex.elements(v)


def sub_ref(ref, start, end):
    if ref[0] == "ref":
        _, (kind, fid, local, proj) = ref
        return ("ref", (kind, fid, local, tuple(proj) + (("range", start, end),)))
    raise ExecError("range of a temporary")


def m_as_ref(ex, st, args, dest_ty, fname):
    return args[0]


def m_from_elem(ex, st, args, dest_ty, fname):
    v, n = args
    if is_sym(n):
        raise ExecError("vec![x; n] with symbolic n")
    return ("agg", tuple(v for _ in range(n)))


def _range_bounds(ex, st, vecref, rng, from_only=False):
    n = len(elements_of(ex, st, vecref))
    if from_only:
        a, b = rng[1][0], n
    else:
        a, b = rng[1][0], rng[1][1]
    if is_sym(a) or is_sym(b):
        raise ExecError("symbolic slice bounds")
    if a > b:
        return None, Panic("slice index starts at %d but ends at %d" % (a, b))
    if b > n:
        return None, Panic("range end index %d out of range for slice of length %d" % (b, n))
    return (a, b), None


def m_index_range(ex, st, args, dest_ty, fname):
    r, p = _range_bounds(ex, st, args[0], args[1])
    if p:
        return p
    return sub_ref(args[0], r[0], r[1])


def m_index_range_from(ex, st, args, dest_ty, fname):
    r, p = _range_bounds(ex, st, args[0], args[1], from_only=True)
    if p:
        return p
    return sub_ref(args[0], r[0], r[1])


def m_index_usize(ex, st, args, dest_ty, fname):
    n = len(elements_of(ex, st, args[0]))
    i = args[1]
    if is_sym(i):
        raise ExecError("symbolic index")
    if not (0 <= i < n):
        return Panic("index out of bounds: the len is %d but the index is %d" % (n, i))
    _, (kind, fid, local, proj) = args[0]
    return ("ref", (kind, fid, local, tuple(proj) + (("cindex", i, False),)))


def m_copy_from_slice(ex, st, args, dest_ty, fname):
    dst, src = args
    s = src
    sv = elements_of(ex, st, s) if isinstance(s, tuple) and s[0] in ("ref", "refval") else ex.elements(s)
    dv = elements_of(ex, st, dst)
    if len(sv) != len(dv):
        return Panic("source slice length (%d) does not match destination slice length (%d)" % (len(sv), len(dv)))
    ex.write_ref(st, dst, ("agg", tuple(sv)))
    return UNIT


def m_usize_to_be_bytes(ex, st, args, dest_ty, fname):
    x = args[0]
    if is_sym(x):
        x = _bv(x, 64)
        return ("agg", tuple(z3.simplify(z3.Extract(63 - 8 * i, 56 - 8 * i, x)) for i in range(8)))
    return ("agg", tuple((x >> (56 - 8 * i)) & 0xFF for i in range(8)))


def m_u32_to_be_bytes(ex, st, args, dest_ty, fname):
    x = args[0]
    if is_sym(x):
        return ("agg", tuple(z3.simplify(z3.Extract(31 - 8 * i, 24 - 8 * i, x)) for i in range(4)))
    return ("agg", tuple((x >> (24 - 8 * i)) & 0xFF for i in range(4)))


def m_try_into_4(ex, st, args, dest_ty, fname):
    v = elements_of(ex, st, args[0])
    if len(v) != 4:
        return enum("Err", UNIT)
    return enum("Ok", ("agg", tuple(v)))


def m_unwrap(ex, st, args, dest_ty, fname):
    v = args[0]
    if v[1] in ("Ok", "Some"):
        return v[2][0]
    return Panic("called `unwrap()` on an `Err`/`None` value")


def m_from_be_bytes(ex, st, args, dest_ty, fname):
    b = ex.elements(args[0])
    if any(is_sym(x) for x in b):
        return z3.simplify(z3.Concat(*[_bv(x, 8) for x in b]))
    r = 0
    for x in b:
        r = (r << 8) | x
    return r


def m_rotate_left(ex, st, args, dest_ty, fname):
    x, n = args
    if is_sym(n):
        raise ExecError("symbolic rotate amount")
    n %= 32
    if is_sym(x):
        return z3.simplify(z3.RotateLeft(x, n))
    return ((x << n) | (x >> (32 - n))) & 0xFFFFFFFF if n else x


def m_wrapping_add(ex, st, args, dest_ty, fname):
    a, b = args
    if is_sym(a) or is_sym(b):
        return _bv(a, 32) + _bv(b, 32)
    return (a + b) & 0xFFFFFFFF


def m_identity(ex, st, args, dest_ty, fname):
    return args[0]


def m_range_next(ex, st, args, dest_ty, fname):
    r = ex.deref(args[0], st)
    a, b = r[1]
    if is_sym(a) or is_sym(b):
        raise ExecError("symbolic Range bounds")
    if a < b:
        ex.write_ref(st, args[0], ("agg", (a + 1, b)))
        return some(a)
    return NONE


def m_slice_iter(ex, st, args, dest_ty, fname):
    return SliceIter(args[0], 0, False)


def m_slice_iter_mut(ex, st, args, dest_ty, fname):
    return SliceIter(args[0], 0, True)


def m_enumerate(ex, st, args, dest_ty, fname):
    return EnumIt(args[0], 0)


def _slice_next(ex, st, it):
    n = len(elements_of(ex, st, it.base))
    if it.pos >= n:
        return None, it
    _, (kind, fid, local, proj) = it.base
    ref = ("ref", (kind, fid, local, tuple(proj) + (("cindex", it.pos, False),)))
    return ref, replace(it, pos=it.pos + 1)


def m_enum_next(ex, st, args, dest_ty, fname):
    e = ex.deref(args[0], st)
    ref, it2 = _slice_next(ex, st, e.it)
    if ref is None:
        return NONE
    ex.write_ref(st, args[0], EnumIt(it2, e.count + 1))
    return some(("agg", (e.count, ref)))


def m_flat_map(ex, st, args, dest_ty, fname):
    return FlatMapIt(args[0], args[1], ())


def m_zip(ex, st, args, dest_ty, fname):
    return ZipIt(args[0], args[1])


def _flat_next(ex, st, fm):
    if fm.cur:
        return fm.cur[0], replace(fm, cur=fm.cur[1:])
    ref, it2 = _slice_next(ex, st, fm.it)
    if ref is None:
        return None, fm
    f = ex.closure_function(fm.closure[1])
    val, pan = ex.call_value(st, f, [("refval", fm.closure), ref])
    if pan is not False:
        raise ExecError("panic inside flat_map closure")
    items = ex.elements(val)
    if not items:
        return _flat_next(ex, st, replace(fm, it=it2))
    return items[0], FlatMapIt(it2, fm.closure, tuple(items[1:]))


def m_zip_next(ex, st, args, dest_ty, fname):
    z = ex.deref(args[0], st)
    ra, a2 = _slice_next(ex, st, z.a)
    if ra is None:
        return NONE
    vb, b2 = _flat_next(ex, st, z.b)
    if vb is None:
        return NONE
    ex.write_ref(st, args[0], ZipIt(a2, b2))
    return some(("agg", (ra, vb)))


def m_panic(ex, st, args, dest_ty, fname):
    return Panic("explicit panic")


def m_args_from_str(ex, st, args, dest_ty, fname):
    return ("opaque", "fmt::Arguments")


SHA_MODELS = [
    M(r"^<T as AsRef<\[u8\]>>::as_ref$", m_as_ref),
    M(r"^std::vec::from_elem::<u8>$", m_from_elem),
    M(r"^<Vec<u8> as Index(Mut)?<std::ops::Range<usize>>>::index(_mut)?$", m_index_range),
    M(r"^<Vec<u8> as Index(Mut)?<std::ops::RangeFrom<usize>>>::index(_mut)?$", m_index_range_from),
    M(r"^<Vec<u8> as Index(Mut)?<usize>>::index(_mut)?$", m_index_usize),
    M(r"^core::slice::<impl \[u8\]>::copy_from_slice$", m_copy_from_slice),
    M(r"^core::num::<impl usize>::to_be_bytes$", m_usize_to_be_bytes),
    M(r"^core::num::<impl u64>::to_be_bytes$", m_usize_to_be_bytes),
    M(r"^core::num::<impl u32>::to_be_bytes$", m_u32_to_be_bytes),
    M(r"^<&\[u8\] as TryInto<\[u8; 4\]>>::try_into$", m_try_into_4),
    M(r"^Result::<\[u8; 4\], TryFromSliceError>::unwrap$", m_unwrap),
    M(r"^core::num::<impl u32>::from_be_bytes$", m_from_be_bytes),
    M(r"^core::num::<impl u32>::rotate_left$", m_rotate_left),
    M(r"^core::num::<impl u32>::wrapping_add$", m_wrapping_add),
    M(r"^<std::ops::Range<usize> as IntoIterator>::into_iter$", m_identity),
    M(r"^<std::ops::Range<usize> as Iterator>::next$", m_range_next),
    M(r"^core::slice::<impl \[u32\]>::iter$", m_slice_iter),
    M(r"^core::slice::<impl \[u8\]>::iter_mut$", m_slice_iter_mut),
    M(r"^<std::slice::Iter<'_, u32> as Iterator>::enumerate$", m_enumerate),
    M(r"^<Enumerate<std::slice::Iter<'_, u32>> as IntoIterator>::into_iter$", m_identity),
    M(r"^<Enumerate<std::slice::Iter<'_, u32>> as Iterator>::next$", m_enum_next),
    M(r"^<std::slice::Iter<'_, u32> as Iterator>::flat_map::<", m_flat_map),
    M(r"^<std::slice::IterMut<'_, u8> as Iterator>::zip::<", m_zip),
    M(r"^<Zip<.*> as IntoIterator>::into_iter$", m_identity),
    M(r"^<Zip<.*> as Iterator>::next$", m_zip_next),
    M(r"^std::rt::panic_fmt$", m_panic),
    M(r"^Arguments::<'_>::from_str$", m_args_from_str),
]
