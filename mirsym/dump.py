"""Dump the MIR of a /repo crate's *current working tree* with the nightly toolchain."""
import glob, os, shutil, subprocess, time

REPO = os.environ.get("VERIF_REPO", "/repo")


def dump_mir(crate_dir, work, features=None, lib=True, bin_name=None):
    """Returns (mir_text, seconds). Forces a recompile of the crate itself by removing its fingerprint
    (no file in /repo is touched)."""
    target = os.path.join(work, "mir-target")
    os.makedirs(target, exist_ok=True)
    pkg = None
    for line in open(os.path.join(REPO, crate_dir, "Cargo.toml")):
        if line.startswith("name"):
            pkg = line.split("=")[1].strip().strip('"')
            break
    for d in glob.glob(os.path.join(target, "debug", ".fingerprint", pkg.replace("-", "_") + "-*")) + glob.glob(os.path.join(target, "debug", ".fingerprint", pkg + "-*")):
        shutil.rmtree(d, ignore_errors=True)
    cmd = ["cargo", "+nightly", "rustc", "--offline", "--target-dir", target]
    cmd += ["--lib"] if lib else ["--bin", bin_name]
    if features:
        cmd += ["--features", features]
    cmd += ["--", "-Zunpretty=mir", "-C", "debug-assertions=off", "-C", "overflow-checks=on"]
    env = dict(os.environ, CARGO_NET_OFFLINE="true")
    env.pop("RUSTFLAGS", None)
    t0 = time.time()
    p = subprocess.run(cmd, cwd=os.path.join(REPO, crate_dir), env=env, capture_output=True, text=True)
    if p.returncode != 0 or "fn " not in p.stdout:
        raise RuntimeError("MIR dump failed for %s:\n%s" % (crate_dir, p.stderr[-3000:]))
    return p.stdout, time.time() - t0
