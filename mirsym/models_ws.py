"""std / Stream models for WebSocket message assembly (C11, engine M): a scripted connection as a value, byte vectors,
slice iterators with closures, big-endian conversions."""
import re
from dataclasses import dataclass, replace
import z3

from .exec import *
from .models import M
from .models_json import VecM
from .models_sha import SliceIter, EnumIt, m_from_be_bytes, m_u32_to_be_bytes, _bv


@dataclass(frozen=True)
class NetStream:
    """The peer's bytes (concrete length, symbolic contents), a read position and everything written so far."""
    inp: tuple
    pos: int = 0
    out: tuple = ()


def deref_all(ex, st, v):
    while isinstance(v, tuple) and v and v[0] in ("ref", "refval"):
        v = ex.deref(v, st)
    return v


def ref_to(ex, st, v):
    """Follow reference-to-reference chains down to the reference that points at a non-reference value."""
    while True:
        inner = ex.deref(v, st)
        if isinstance(inner, tuple) and inner and inner[0] in ("ref", "refval"):
            v = inner
            continue
        return v


def elems(ex, st, v):
    x = deref_all(ex, st, v)
    return tuple(ex.elements(x))


def make_models():
    def m_read_exact(ex, st, args, dest_ty, fname):
        sref = ref_to(ex, st, args[0])
        s = ex.deref(sref, st)
        if not isinstance(s, NetStream):
            raise ExecError("read_exact on %r" % (s,))
        bref = ref_to(ex, st, args[1])
        buf = ex.deref(bref, st)
        n = len(ex.elements(buf))
        if s.pos + n > len(s.inp):
            # the peer has closed: read_exact consumes what is left and fails
            ex.write_ref(st, sref, replace(s, pos=len(s.inp)))
            return enum("Err", ("opaque", "io::Error(UnexpectedEof)"))
        data = s.inp[s.pos:s.pos + n]
        new = buf.with_elements(data) if hasattr(buf, "with_elements") else ("agg", tuple(data))
        ex.write_ref(st, bref, new)
        ex.write_ref(st, sref, replace(s, pos=s.pos + n))
        return enum("Ok", UNIT)

    def m_write_all(ex, st, args, dest_ty, fname):
        sref = ref_to(ex, st, args[0])
        s = ex.deref(sref, st)
        data = elems(ex, st, args[1])
        ex.write_ref(st, sref, replace(s, out=s.out + tuple(data)))
        return enum("Ok", UNIT)

    def _call_closure(ex, st, clos, argvals):
        f = ex.closure_function(clos[1])
        return ex.call_value(st, f, [clos] + list(argvals))

    def m_map_err(ex, st, args, dest_ty, fname):
        r, clos = args
        if r[1] == "Ok":
            return r
        val, pan = _call_closure(ex, st, clos, [r[2][0]])
        return enum("Err", val)

    def m_opt_map(ex, st, args, dest_ty, fname):
        o, clos = args
        if o[1] == "None":
            return NONE
        val, pan = _call_closure(ex, st, clos, [o[2][0]])
        return some(val)

    def m_opt_unwrap_or(ex, st, args, dest_ty, fname):
        o, d = args
        return o[2][0] if o[1] == "Some" else d

    def m_vec_new(ex, st, args, dest_ty, fname):
        return VecM(())

    def m_from_elem(ex, st, args, dest_ty, fname):
        v, n = args
        if is_sym(n):
            n = z3.simplify(n)
            if z3.is_bv_value(n) or z3.is_int_value(n):
                n = n.as_long()
            else:
                raise ExecError("vec![x; n] with symbolic n")
        return VecM(tuple(v for _ in range(n)))

    def m_vec_len(ex, st, args, dest_ty, fname):
        return len(elems(ex, st, args[0]))

    def m_vec_push(ex, st, args, dest_ty, fname):
        r = ref_to(ex, st, args[0])
        v = ex.deref(r, st)
        ex.write_ref(st, r, VecM(tuple(v.items) + (args[1],)))
        return UNIT

    def m_vec_append(ex, st, args, dest_ty, fname):
        ra, rb = ref_to(ex, st, args[0]), ref_to(ex, st, args[1])
        a, b = ex.deref(ra, st), ex.deref(rb, st)
        ex.write_ref(st, ra, VecM(tuple(a.items) + tuple(b.items)))
        ex.write_ref(st, rb, VecM(()))
        return UNIT

    def m_extend_from_slice(ex, st, args, dest_ty, fname):
        ra = ref_to(ex, st, args[0])
        a = ex.deref(ra, st)
        ex.write_ref(st, ra, VecM(tuple(a.items) + elems(ex, st, args[1])))
        return UNIT

    def m_deref_same(ex, st, args, dest_ty, fname):
        return ref_to(ex, st, args[0])

    def m_clone(ex, st, args, dest_ty, fname):
        return deref_all(ex, st, args[0])

    def m_index_mut(ex, st, args, dest_ty, fname):
        r = ref_to(ex, st, args[0])
        n = len(ex.elements(ex.deref(r, st)))
        i = args[1]
        if is_sym(i):
            raise ExecError("symbolic Vec index")
        if not (0 <= i < n):
            return Panic("index out of bounds: the len is %d but the index is %d" % (n, i))
        _, (kind, fid, local, proj) = r
        return ("ref", (kind, fid, local, tuple(proj) + (("cindex", i, False),)))

    def m_slice_iter(ex, st, args, dest_ty, fname):
        return SliceIter(ref_to(ex, st, args[0]), 0, False)

    def m_slice_iter_mut(ex, st, args, dest_ty, fname):
        return SliceIter(ref_to(ex, st, args[0]), 0, True)

    def m_enumerate(ex, st, args, dest_ty, fname):
        return EnumIt(args[0], 0)

    def m_for_each(ex, st, args, dest_ty, fname):
        e, clos = args
        f = ex.closure_function(clos[1])
        base = e.it.base
        n = len(ex.elements(ex.deref(base, st)))
        _, (kind, fid, local, proj) = base
        for i in range(e.it.pos, n):
            eref = ("ref", (kind, fid, local, tuple(proj) + (("cindex", i, False),)))
            ex.call_inplace(st, f, [("refval", clos), ("agg", (e.count + i - e.it.pos, eref))])
        return UNIT

    def m_extend_iter(ex, st, args, dest_ty, fname):
        ra = ref_to(ex, st, args[0])
        a = ex.deref(ra, st)
        it = args[1]
        items = elems(ex, st, it.base)[it.pos:]
        ex.write_ref(st, ra, VecM(tuple(a.items) + tuple(items)))
        return UNIT

    def m_fold(ex, st, args, dest_ty, fname):
        it, acc, clos = args
        f = ex.closure_function(clos[1])
        base = it.base
        n = len(ex.elements(ex.deref(base, st)))
        _, (kind, fid, local, proj) = base
        for i in range(it.pos, n):
            eref = ("ref", (kind, fid, local, tuple(proj) + (("cindex", i, False),)))
            acc = ex.call_inplace(st, f, [("refval", clos), acc, eref])
        return acc

    def m_last(ex, st, args, dest_ty, fname):
        r = ref_to(ex, st, args[0])
        n = len(ex.elements(ex.deref(r, st)))
        if n == 0:
            return NONE
        _, (kind, fid, local, proj) = r
        return some(("ref", (kind, fid, local, tuple(proj) + (("cindex", n - 1, False),))))

    def m_first(ex, st, args, dest_ty, fname):
        r = ref_to(ex, st, args[0])
        n = len(ex.elements(ex.deref(r, st)))
        if n == 0:
            return NONE
        _, (kind, fid, local, proj) = r
        return some(("ref", (kind, fid, local, tuple(proj) + (("cindex", 0, False),))))

    def m_u64_min(ex, st, args, dest_ty, fname):
        a, b = args
        if is_sym(a) or is_sym(b):
            a2, b2 = _bv(a, 64), _bv(b, 64)
            r = z3.simplify(z3.If(z3.ULE(a2, b2), a2, b2))
            return r.as_long() if z3.is_bv_value(r) else r
        return min(a, b)

    def m_u16_to_be(ex, st, args, dest_ty, fname):
        x = args[0]
        if is_sym(x):
            return ("agg", (z3.simplify(z3.Extract(15, 8, x)), z3.simplify(z3.Extract(7, 0, x))))
        return ("agg", ((x >> 8) & 255, x & 255))

    def m_u64_to_be(ex, st, args, dest_ty, fname):
        x = args[0]
        if is_sym(x):
            return ("agg", tuple(z3.simplify(z3.Extract(63 - 8 * i, 56 - 8 * i, x)) for i in range(8)))
        return ("agg", tuple((x >> (56 - 8 * i)) & 255 for i in range(8)))

    def m_instant_now(ex, st, args, dest_ty, fname):
        return ("opaque", "Instant")

    def m_into_vec(ex, st, args, dest_ty, fname):
        # <Frame as Into<Vec<u8>>>::into is the blanket impl: From<Frame> for Vec<u8>
        f = None
        for k, fn in ex.ctx.funcs.items():
            if not isinstance(fn, tuple) and k.endswith("::from") and fn.args and fn.args[0][1].strip() == "Frame" and "Vec<u8>" in fn.ret_type:
                f = fn
        if f is None:
            raise ExecError("From<Frame> for Vec<u8> not found")
        val = ex.call_inplace(st, f, [args[0]])
        return val

    def m_ctor(name):
        def f(ex, st, args, dest_ty, fname):
            return ("enum", name, tuple(args))
        return f

    return [
        M(r"^<T as std::io::Read>::read_exact$", m_read_exact),
        M(r"^<humphrey::stream::Stream as std::io::Read>::read_exact$", m_read_exact),
        M(r"^<&mut humphrey::stream::Stream as std::io::Read>::read_exact$", m_read_exact),
        M(r"^<humphrey::stream::Stream as std::io::Write>::write_all$", m_write_all),
        M(r"^Result::<\(\), std::io::Error>::map_err::<WebsocketError, ", m_map_err),
        M(r"^Option::<&Frame>::map::<bool, ", m_opt_map),
        M(r"^Option::<bool>::unwrap_or$", m_opt_unwrap_or),
        M(r"^Vec::<(u8|Frame)>::new$", m_vec_new),
        M(r"^std::vec::from_elem::<u8>$", m_from_elem),
        M(r"^Vec::<u8>::len$", m_vec_len),
        M(r"^Vec::<Frame>::push$", m_vec_push),
        M(r"^Vec::<u8>::append$", m_vec_append),
        M(r"^Vec::<u8>::extend_from_slice$", m_extend_from_slice),
        M(r"^<Vec<(u8|Frame)> as Deref(Mut)?>::deref(_mut)?$", m_deref_same),
        M(r"^<Vec<u8> as Clone>::clone$", m_clone),
        M(r"^<Vec<u8> as IndexMut<usize>>::index_mut$", m_index_mut),
        M(r"^core::slice::<impl \[(u8|Frame)\]>::iter$", m_slice_iter),
        M(r"^core::slice::<impl \[u8\]>::iter_mut$", m_slice_iter_mut),
        M(r"^<std::slice::Iter(Mut)?<'_, u8> as Iterator>::enumerate$", m_enumerate),
        M(r"^<Enumerate<std::slice::IterMut<'_, u8>> as Iterator>::for_each::<", m_for_each),
        M(r"^<Vec<u8> as Extend<&u8>>::extend::<std::slice::Iter<'_, u8>>$", m_extend_iter),
        M(r"^<std::slice::Iter<'_, Frame> as Iterator>::fold::<Vec<u8>, ", m_fold),
        M(r"^core::slice::<impl \[Frame\]>::last$", m_last),
        M(r"^core::slice::<impl \[Frame\]>::first$", m_first),
        M(r"^<u64 as Ord>::min$", m_u64_min),
        M(r"^core::num::<impl u16>::from_be_bytes$", m_from_be_bytes),
        M(r"^core::num::<impl u64>::from_be_bytes$", m_from_be_bytes),
        M(r"^core::num::<impl u16>::to_be_bytes$", m_u16_to_be),
        M(r"^core::num::<impl u64>::to_be_bytes$", m_u64_to_be),
        M(r"^Instant::now$", m_instant_now),
        M(r"^<Frame as Into<Vec<u8>>>::into$", m_into_vec),
        M(r"^Result::<.*>::Ok$", m_ctor("Ok")),
        M(r"^Result::<.*>::Err$", m_ctor("Err")),
    ]
