"""std / Stream models for WebSocket message assembly (C11, engine M): a scripted connection as a value, byte vectors,
slice iterators with closures, big-endian conversions."""
import re
from dataclasses import dataclass, replace
import z3

from .exec import *
from .models import M
from .models_json import VecM
from .models_sha import SliceIter, EnumIt, m_from_be_bytes, m_u32_to_be_bytes, _bv


@dataclass(frozen=True)
class NetStream:
    """The peer's bytes (concrete length, symbolic contents), a read position and everything written so far."""
    inp: tuple
    pos: int = 0
    out: tuple = ()
    arrived: object = None      # bytes delivered when the call starts (None: everything); the rest follows in one piece as soon as a blocking read waits for it
    eof: bool = True            # the peer shuts its side down after the script (False: it stays silent)
    nonblocking: bool = False
    cuts: tuple = ()            # HTTP models: absolute offsets at which one read() on the raw stream stops (read segmentation); () = all at once


def load_enum_decls(src_dir):
    """`enum Name { A, B(..), C = 3 }` declarations of a crate -> {Name: [variants in order]} (for discriminants)."""
    import os
    decls = {}
    for root, _d, files in os.walk(src_dir):
        for fn in files:
            if not fn.endswith(".rs"):
                continue
            text = open(os.path.join(root, fn), encoding="utf-8", errors="replace").read()
            text = re.sub(r"//[^\n]*", "", text)
            for m in re.finditer(r"\benum\s+(\w+)\s*(?:<[^{]*>)?\s*\{", text):
                depth, i = 1, m.end()
                body = ""
                while i < len(text) and depth:
                    c = text[i]
                    depth += (c in "{(") - (c in "})")
                    if depth == 1 and c not in "})":
                        body += c
                    elif depth == 1:
                        body += " "
                    i += 1
                vs = []
                for part in body.split(","):
                    part = re.sub(r"#\[[^\]]*\]", "", part).strip()
                    mm = re.match(r"(\w+)", part)
                    if mm:
                        vs.append(mm.group(1))
                decls[m.group(1)] = vs
    return decls


@dataclass(frozen=True)
class MapIt:
    """Iterator::map over an enumerate of a slice iterator."""
    it: object
    clos: object


@dataclass(frozen=True)
class TakeRd:
    """Read::take(n) over a reference to a reader."""
    inner: object
    limit: object


def deref_all(ex, st, v):
    while isinstance(v, tuple) and v and v[0] in ("ref", "refval"):
        v = ex.deref(v, st)
    return v


def ref_to(ex, st, v):
    """Follow reference-to-reference chains down to the reference that points at a non-reference value."""
    while True:
        inner = ex.deref(v, st)
        if isinstance(inner, tuple) and inner and inner[0] in ("ref", "refval"):
            v = inner
            continue
        return v


def elems(ex, st, v):
    x = deref_all(ex, st, v)
    return tuple(ex.elements(x))


def make_models():
    def m_read_exact(ex, st, args, dest_ty, fname):
        sref = ref_to(ex, st, args[0])
        s = ex.deref(sref, st)
        if not isinstance(s, NetStream):
            raise ExecError("read_exact on %r" % (s,))
        bref = ref_to(ex, st, args[1])
        buf = ex.deref(bref, st)
        n = len(ex.elements(buf))
        arrived = s.arrived
        if arrived is not None and s.pos + n > arrived:
            arrived = len(s.inp)          # a blocking read waits: the rest of the script is delivered
        if s.pos + n > len(s.inp):
            # the peer has closed (or stays silent until the read times out): read_exact consumes what is left and fails
            ex.write_ref(st, sref, replace(s, pos=len(s.inp), arrived=arrived))
            return enum("Err", ("opaque", "io::Error:UnexpectedEof"))
        data = s.inp[s.pos:s.pos + n]
        new = buf.with_elements(data) if hasattr(buf, "with_elements") else ("agg", tuple(data))
        ex.write_ref(st, bref, new)
        ex.write_ref(st, sref, replace(s, pos=s.pos + n, arrived=arrived))
        return enum("Ok", UNIT)

    def m_by_ref(ex, st, args, dest_ty, fname):
        return args[0]

    def m_take(ex, st, args, dest_ty, fname):
        return TakeRd(args[0], args[1])

    def m_take_read_to_end(ex, st, args, dest_ty, fname):
        tref = ref_to(ex, st, args[0])
        t = ex.deref(tref, st)
        sref = ref_to(ex, st, t.inner)
        s = ex.deref(sref, st)
        vref = ref_to(ex, st, args[1])
        vec = ex.deref(vref, st)
        lim = t.limit
        if is_sym(lim):
            lim = z3.simplify(lim)
            if not (z3.is_bv_value(lim) or z3.is_int_value(lim)):
                raise ExecError("take(n).read_to_end with symbolic n")
            lim = lim.as_long()
        n = min(lim, len(s.inp) - s.pos)
        arrived = s.arrived
        if arrived is not None and s.pos + n > arrived:
            arrived = len(s.inp)
        ex.write_ref(st, vref, VecM(tuple(vec.items) + tuple(s.inp[s.pos:s.pos + n])))
        ex.write_ref(st, sref, replace(s, pos=s.pos + n, arrived=arrived))
        ex.write_ref(st, tref, TakeRd(t.inner, lim - n))
        if n < lim and not s.eof:
            return enum("Err", ("opaque", "io::Error:TimedOut"))       # a silent peer: the blocking read runs into the read timeout
        return enum("Ok", n)

    def m_read(ex, st, args, dest_ty, fname):
        sref = ref_to(ex, st, args[0])
        s = ex.deref(sref, st)
        bref = ref_to(ex, st, args[1])
        buf = ex.deref(bref, st)
        items = list(ex.elements(buf))
        n = len(items)
        have = (len(s.inp) if (s.arrived is None or not s.nonblocking) else min(s.arrived, len(s.inp))) - s.pos
        if have <= 0:
            if s.pos >= len(s.inp) and s.eof and (s.arrived is None or s.arrived >= len(s.inp)):
                return enum("Ok", 0)
            if s.nonblocking:
                return enum("Err", ("opaque", "io::Error:WouldBlock"))
            return enum("Err", ("opaque", "io::Error:TimedOut"))
        k = min(n, have)
        items[:k] = s.inp[s.pos:s.pos + k]
        new = buf.with_elements(tuple(items)) if hasattr(buf, "with_elements") else ("agg", tuple(items))
        ex.write_ref(st, bref, new)
        ex.write_ref(st, sref, replace(s, pos=s.pos + k))
        return enum("Ok", k)

    def m_set_nb(flag):
        def f(ex, st, args, dest_ty, fname):
            sref = ref_to(ex, st, args[0])
            s = ex.deref(sref, st)
            ex.write_ref(st, sref, replace(s, nonblocking=flag))
            return enum("Ok", UNIT)
        return f

    def m_is_err(ex, st, args, dest_ty, fname):
        v = deref_all(ex, st, args[0])
        return v[1] == "Err"

    def m_result_ok(ex, st, args, dest_ty, fname):
        v = args[0]
        return some(v[2][0]) if v[1] == "Ok" else NONE

    def m_err_kind(ex, st, args, dest_ty, fname):
        v = deref_all(ex, st, args[0])
        return ("enum", "ErrorKind::" + v[1].split(":")[-1], ())

    def m_kind_eq(ex, st, args, dest_ty, fname):
        a, b = deref_all(ex, st, args[0]), deref_all(ex, st, args[1])
        return a[1] == b[1]

    def m_index_from(ex, st, args, dest_ty, fname):
        r = ref_to(ex, st, args[0])
        n = len(ex.elements(ex.deref(r, st)))
        start = args[1][1][0]
        if is_sym(start):
            raise ExecError("symbolic RangeFrom")
        if start > n:
            return Panic("range start index %d out of range for slice of length %d" % (start, n))
        _, (kind, fid, local, proj) = r
        return ("ref", (kind, fid, local, tuple(proj) + (("range", start, n),)))

    def m_result_into_restion(ex, st, args, dest_ty, fname):
        f = None
        for k, fn in ex.ctx.funcs.items():
            if not isinstance(fn, tuple) and k.endswith("::from") and "restion" in k and fn.args and fn.args[0][1].strip().startswith("Result<"):
                f = fn
        if f is None:
            raise ExecError("From<Result<T, E>> for Restion<T, E> not found")
        return ex.call_inplace(st, f, [args[0]])

    def m_write_all(ex, st, args, dest_ty, fname):
        sref = ref_to(ex, st, args[0])
        s = ex.deref(sref, st)
        data = elems(ex, st, args[1])
        ex.write_ref(st, sref, replace(s, out=s.out + tuple(data)))
        return enum("Ok", UNIT)

    def _call_closure(ex, st, clos, argvals):
        f = ex.closure_function(clos[1])
        return ex.call_value(st, f, [clos] + list(argvals))

    def m_map_err(ex, st, args, dest_ty, fname):
        r, clos = args
        if r[1] == "Ok":
            return r
        val, pan = _call_closure(ex, st, clos, [r[2][0]])
        return enum("Err", val)

    def m_opt_map(ex, st, args, dest_ty, fname):
        o, clos = args
        if o[1] == "None":
            return NONE
        val, pan = _call_closure(ex, st, clos, [o[2][0]])
        return some(val)

    def m_opt_unwrap_or(ex, st, args, dest_ty, fname):
        o, d = args
        return o[2][0] if o[1] == "Some" else d

    def m_vec_new(ex, st, args, dest_ty, fname):
        return VecM(())

    def m_from_elem(ex, st, args, dest_ty, fname):
        v, n = args
        if is_sym(n):
            n = z3.simplify(n)
            if z3.is_bv_value(n) or z3.is_int_value(n):
                n = n.as_long()
            else:
                raise ExecError("vec![x; n] with symbolic n")
        return VecM(tuple(v for _ in range(n)))

    def m_vec_len(ex, st, args, dest_ty, fname):
        return len(elems(ex, st, args[0]))

    def m_vec_push(ex, st, args, dest_ty, fname):
        r = ref_to(ex, st, args[0])
        v = ex.deref(r, st)
        ex.write_ref(st, r, VecM(tuple(v.items) + (args[1],)))
        return UNIT

    def m_vec_push_any(ex, st, args, dest_ty, fname):
        return m_vec_push(ex, st, args, dest_ty, fname)

    def m_vec_is_empty(ex, st, args, dest_ty, fname):
        return len(elems(ex, st, args[0])) == 0

    def m_vec_clear(ex, st, args, dest_ty, fname):
        r = ref_to(ex, st, args[0])
        ex.write_ref(st, r, VecM(()))
        return UNIT

    def m_vec_reserve(ex, st, args, dest_ty, fname):
        return UNIT

    def m_to_vec(ex, st, args, dest_ty, fname):
        return VecM(elems(ex, st, args[0]))

    def m_index(ex, st, args, dest_ty, fname):
        r = ref_to(ex, st, args[0])
        n = len(ex.elements(ex.deref(r, st)))
        i = args[1]
        if is_sym(i):
            raise ExecError("symbolic Vec index")
        if not (0 <= i < n):
            return Panic("index out of bounds: the len is %d but the index is %d" % (n, i))
        _, (kind, fid, local, proj) = r
        return ("ref", (kind, fid, local, tuple(proj) + (("cindex", i, False),)))

    def m_vec_append(ex, st, args, dest_ty, fname):
        ra, rb = ref_to(ex, st, args[0]), ref_to(ex, st, args[1])
        a, b = ex.deref(ra, st), ex.deref(rb, st)
        ex.write_ref(st, ra, VecM(tuple(a.items) + tuple(b.items)))
        ex.write_ref(st, rb, VecM(()))
        return UNIT

    def m_extend_from_slice(ex, st, args, dest_ty, fname):
        ra = ref_to(ex, st, args[0])
        a = ex.deref(ra, st)
        ex.write_ref(st, ra, VecM(tuple(a.items) + elems(ex, st, args[1])))
        return UNIT

    def m_deref_same(ex, st, args, dest_ty, fname):
        return ref_to(ex, st, args[0])

    def m_clone(ex, st, args, dest_ty, fname):
        return deref_all(ex, st, args[0])

    def m_index_mut(ex, st, args, dest_ty, fname):
        r = ref_to(ex, st, args[0])
        n = len(ex.elements(ex.deref(r, st)))
        i = args[1]
        if is_sym(i):
            raise ExecError("symbolic Vec index")
        if not (0 <= i < n):
            return Panic("index out of bounds: the len is %d but the index is %d" % (n, i))
        _, (kind, fid, local, proj) = r
        return ("ref", (kind, fid, local, tuple(proj) + (("cindex", i, False),)))

    def m_slice_iter(ex, st, args, dest_ty, fname):
        return SliceIter(ref_to(ex, st, args[0]), 0, False)

    def m_slice_iter_mut(ex, st, args, dest_ty, fname):
        return SliceIter(ref_to(ex, st, args[0]), 0, True)

    def m_enumerate(ex, st, args, dest_ty, fname):
        return EnumIt(args[0], 0)

    def m_for_each(ex, st, args, dest_ty, fname):
        e, clos = args
        f = ex.closure_function(clos[1])
        base = e.it.base
        n = len(ex.elements(ex.deref(base, st)))
        _, (kind, fid, local, proj) = base
        if n - e.it.pos <= 64:
            for i in range(e.it.pos, n):
                eref = ("ref", (kind, fid, local, tuple(proj) + (("cindex", i, False),)))
                ex.call_inplace(st, f, [("refval", clos), ("agg", (e.count + i - e.it.pos, eref))])
            return UNIT
        # long slices: writing element i through the container rebuilds it (O(n) per element); run the closure on one scratch cell
        # per element instead and store the whole slice once
        SCRATCH = -991
        vec = ex.deref(base, st)
        items = list(ex.elements(vec))
        for i in range(e.it.pos, n):
            st.heap[SCRATCH] = {0: items[i]}
            ex.call_inplace(st, f, [("refval", clos), ("agg", (e.count + i - e.it.pos, ("ref", ("local", SCRATCH, 0, ()))))])
            items[i] = st.heap[SCRATCH][0]
        st.heap.pop(SCRATCH, None)
        ex.write_ref(st, base, vec.with_elements(tuple(items)) if hasattr(vec, "with_elements") else ("agg", tuple(items)))
        return UNIT

    def m_bitop(op):
        def f(ex, st, args, dest_ty, fname):
            a, b = deref_all(ex, st, args[0]), deref_all(ex, st, args[1])
            return a ^ b if op == "xor" else a & b if op == "and" else a | b
        return f

    def m_iter_map(ex, st, args, dest_ty, fname):
        return MapIt(args[0], args[1])

    def m_extend_map(ex, st, args, dest_ty, fname):
        ra = ref_to(ex, st, args[0])
        a = ex.deref(ra, st)
        mp = args[1]
        e = mp.it
        f = ex.closure_function(mp.clos[1])
        base = e.it.base
        items = list(ex.elements(ex.deref(base, st)))
        SCRATCH = -992
        out = []
        for i in range(e.it.pos, len(items)):
            st.heap[SCRATCH] = {0: items[i]}
            out.append(ex.call_inplace(st, f, [("refval", mp.clos), ("agg", (e.count + i - e.it.pos, ("ref", ("local", SCRATCH, 0, ()))))]))
        st.heap.pop(SCRATCH, None)
        ex.write_ref(st, ra, VecM(tuple(a.items) + tuple(out)))
        return UNIT

    def m_extend_iter(ex, st, args, dest_ty, fname):
        ra = ref_to(ex, st, args[0])
        a = ex.deref(ra, st)
        it = args[1]
        items = elems(ex, st, it.base)[it.pos:]
        ex.write_ref(st, ra, VecM(tuple(a.items) + tuple(items)))
        return UNIT

    def m_fold(ex, st, args, dest_ty, fname):
        it, acc, clos = args
        f = ex.closure_function(clos[1])
        base = it.base
        n = len(ex.elements(ex.deref(base, st)))
        _, (kind, fid, local, proj) = base
        for i in range(it.pos, n):
            eref = ("ref", (kind, fid, local, tuple(proj) + (("cindex", i, False),)))
            acc = ex.call_inplace(st, f, [("refval", clos), acc, eref])
        return acc

    def m_last(ex, st, args, dest_ty, fname):
        r = ref_to(ex, st, args[0])
        n = len(ex.elements(ex.deref(r, st)))
        if n == 0:
            return NONE
        _, (kind, fid, local, proj) = r
        return some(("ref", (kind, fid, local, tuple(proj) + (("cindex", n - 1, False),))))

    def m_first(ex, st, args, dest_ty, fname):
        r = ref_to(ex, st, args[0])
        n = len(ex.elements(ex.deref(r, st)))
        if n == 0:
            return NONE
        _, (kind, fid, local, proj) = r
        return some(("ref", (kind, fid, local, tuple(proj) + (("cindex", 0, False),))))

    def m_u64_min(ex, st, args, dest_ty, fname):
        a, b = args
        if is_sym(a) or is_sym(b):
            a2, b2 = _bv(a, 64), _bv(b, 64)
            r = z3.simplify(z3.If(z3.ULE(a2, b2), a2, b2))
            return r.as_long() if z3.is_bv_value(r) else r
        return min(a, b)

    def m_u16_to_be(ex, st, args, dest_ty, fname):
        x = args[0]
        if is_sym(x):
            return ("agg", (z3.simplify(z3.Extract(15, 8, x)), z3.simplify(z3.Extract(7, 0, x))))
        return ("agg", ((x >> 8) & 255, x & 255))

    def m_u64_to_be(ex, st, args, dest_ty, fname):
        x = args[0]
        if is_sym(x):
            return ("agg", tuple(z3.simplify(z3.Extract(63 - 8 * i, 56 - 8 * i, x)) for i in range(8)))
        return ("agg", tuple((x >> (56 - 8 * i)) & 255 for i in range(8)))

    def m_instant_now(ex, st, args, dest_ty, fname):
        return ("opaque", "Instant")

    def m_into_vec(ex, st, args, dest_ty, fname):
        # <Frame as Into<Vec<u8>>>::into is the blanket impl: From<Frame> for Vec<u8>
        f = None
        for k, fn in ex.ctx.funcs.items():
            if not isinstance(fn, tuple) and k.endswith("::from") and fn.args and fn.args[0][1].strip() == "Frame" and "Vec<u8>" in fn.ret_type:
                f = fn
        if f is None:
            raise ExecError("From<Frame> for Vec<u8> not found")
        val = ex.call_inplace(st, f, [args[0]])
        return val

    def m_ctor(name):
        def f(ex, st, args, dest_ty, fname):
            return ("enum", name, tuple(args))
        return f

    return [
        M(r"^<T as std::io::Read>::read_exact$", m_read_exact),
        M(r"^<humphrey::stream::Stream as std::io::Read>::read_exact$", m_read_exact),
        M(r"^<&mut humphrey::stream::Stream as std::io::Read>::read_exact$", m_read_exact),
        M(r"^<humphrey::stream::Stream as std::io::Write>::write_all$", m_write_all),
        M(r"^<humphrey::stream::Stream as std::io::Read>::read$", m_read),
        M(r"^<.* as std::io::Read>::by_ref$", m_by_ref),
        M(r"^<.* as std::io::Read>::take$", m_take),
        M(r"^<std::io::Take<.*> as std::io::Read>::read_to_end$", m_take_read_to_end),
        M(r"^humphrey::stream::Stream::set_nonblocking$", m_set_nb(True)),
        M(r"^humphrey::stream::Stream::set_blocking$", m_set_nb(False)),
        M(r"^Result::<\(\), std::io::Error>::is_err$", m_is_err),
        M(r"^Result::<\(\), std::io::Error>::ok$", m_result_ok),
        M(r"^std::io::Error::kind$", m_err_kind),
        M(r"^<ErrorKind as PartialEq>::eq$", m_kind_eq),
        M(r"^<\[u8; \d+\] as IndexMut<std::ops::RangeFrom<usize>>>::index_mut$", m_index_from),
        M(r"^<Result<Frame, WebsocketError> as Into<Restion<Frame, WebsocketError>>>::into$", m_result_into_restion),
        M(r"^Result::<.*, std::io::Error>::map_err::<WebsocketError, ", m_map_err),
        M(r"^Option::<&Frame>::map::<bool, ", m_opt_map),
        M(r"^Option::<bool>::unwrap_or$", m_opt_unwrap_or),
        M(r"^Vec::<(u8|Frame)>::new$", m_vec_new),
        M(r"^std::vec::from_elem::<u8>$", m_from_elem),
        M(r"^Vec::<u8>::len$", m_vec_len),
        M(r"^core::slice::<impl \[u8\]>::len$", m_vec_len),
        M(r"^Vec::<u8>::with_capacity$", m_vec_new),
        M(r"^Vec::<u8>::push$", m_vec_push_any),
        M(r"^Vec::<(u8|Frame)>::is_empty$", m_vec_is_empty),
        M(r"^core::slice::<impl \[(u8|Frame)\]>::is_empty$", m_vec_is_empty),
        M(r"^Vec::<(u8|Frame)>::clear$", m_vec_clear),
        M(r"^Vec::<(u8|Frame)>::(reserve|reserve_exact|shrink_to_fit)$", m_vec_reserve),
        M(r"^core::slice::<impl \[u8\]>::to_vec$", m_to_vec),
        M(r"^<\[u8\] as ToOwned>::to_owned$", m_to_vec),
        M(r"^<Vec<u8> as From<&\[u8\]>>::from$", m_to_vec),
        M(r"^Vec::<u8>::as_slice$", m_deref_same),
        M(r"^<Vec<u8> as AsRef<\[u8\]>>::as_ref$", m_deref_same),
        M(r"^<Vec<(u8|Frame)> as Index<usize>>::index$", m_index),
        M(r"^Vec::<Frame>::push$", m_vec_push),
        M(r"^Vec::<u8>::append$", m_vec_append),
        M(r"^Vec::<u8>::extend_from_slice$", m_extend_from_slice),
        M(r"^<Vec<(u8|Frame)> as Deref(Mut)?>::deref(_mut)?$", m_deref_same),
        M(r"^<Vec<u8> as Clone>::clone$", m_clone),
        M(r"^<Vec<u8> as IndexMut<usize>>::index_mut$", m_index_mut),
        M(r"^core::slice::<impl \[(u8|Frame)\]>::iter$", m_slice_iter),
        M(r"^core::slice::<impl \[u8\]>::iter_mut$", m_slice_iter_mut),
        M(r"^<std::slice::Iter(Mut)?<'_, u8> as Iterator>::enumerate$", m_enumerate),
        M(r"^<Enumerate<std::slice::IterMut<'_, u8>> as Iterator>::for_each::<", m_for_each),
        M(r"^<Vec<u8> as Extend<&u8>>::extend::<std::slice::Iter<'_, u8>>$", m_extend_iter),
        M(r"^<&?u8 as BitXor<&?u8>>::bitxor$", m_bitop("xor")),
        M(r"^<&?u8 as BitAnd<&?u8>>::bitand$", m_bitop("and")),
        M(r"^<&?u8 as BitOr<&?u8>>::bitor$", m_bitop("or")),
        M(r"^<Enumerate<std::slice::Iter<'_, u8>> as Iterator>::map::<u8, ", m_iter_map),
        M(r"^<Vec<u8> as Extend<u8>>::extend::<Map<Enumerate<std::slice::Iter<'_, u8>>, ", m_extend_map),
        M(r"^<std::slice::Iter<'_, Frame> as Iterator>::fold::<Vec<u8>, ", m_fold),
        M(r"^core::slice::<impl \[Frame\]>::last$", m_last),
        M(r"^core::slice::<impl \[Frame\]>::first$", m_first),
        M(r"^<u64 as Ord>::min$", m_u64_min),
        M(r"^core::num::<impl u16>::from_be_bytes$", m_from_be_bytes),
        M(r"^core::num::<impl u64>::from_be_bytes$", m_from_be_bytes),
        M(r"^core::num::<impl u16>::to_be_bytes$", m_u16_to_be),
        M(r"^core::num::<impl u64>::to_be_bytes$", m_u64_to_be),
        M(r"^Instant::now$", m_instant_now),
        M(r"^<Frame as Into<Vec<u8>>>::into$", m_into_vec),
        M(r"^Result::<.*>::Ok$", m_ctor("Ok")),
        M(r"^Result::<.*>::Err$", m_ctor("Err")),
    ]
