"""std models for the JSON parser (C13): strings under construction, vectors, Option/Result combinators, number parsing
as accept-sets over symbolic characters."""
import re
from dataclasses import dataclass, replace
import z3

from .exec import *
from .models import M, SymStr, ConcStr, str_chars, CharsIt, PeekIt, utf8_len


@dataclass(frozen=True)
class VecM:
    items: tuple

    def elements(self):
        return self.items

    def with_elements(self, items):
        return VecM(tuple(items))

    def length(self):
        return len(self.items)


@dataclass(frozen=True)
class ArrIter:
    items: tuple
    pos: int = 0


def nfa_accept(chars, trans, start, accepting):
    """Acceptance condition of an NFA over a sequence of (symbolic) chars.
    trans: {state: [(pred, next_state)]}, pred(c) -> bool | z3 Bool."""
    reach = {start: True}
    for c in chars:
        nxt = {}
        for q, cond in reach.items():
            for pred, q2 in trans.get(q, []):
                p = pred(c)
                if p is False:
                    continue
                v = b_and(cond, p)
                if v is False:
                    continue
                nxt[q2] = b_or(nxt[q2], v) if q2 in nxt else v
        reach = nxt
        if not reach:
            return False
    acc = False
    for q, cond in reach.items():
        if q in accepting:
            acc = b_or(acc, cond)
    return acc


def _in(c, lo, hi):
    if is_sym(c):
        return z3.And(c >= lo, c <= hi)
    return lo <= c <= hi


def _eq(c, *vals):
    if is_sym(c):
        return z3.Or(*[c == v for v in vals]) if len(vals) > 1 else c == vals[0]
    return c in vals


def digit(c):
    return _in(c, 48, 57)


def ci(ch):
    """case-insensitive ASCII letter predicate"""
    lo, up = ord(ch.lower()), ord(ch.upper())
    return lambda c: _eq(c, lo, up)


def rust_f64_accept(chars):
    """Accept-set of <f64 as FromStr>::from_str as documented: Sign? ('inf'|'infinity'|'nan'|Number), Number = (D+ | D+ '.' D* | D* '.' D+) Exp?, Exp = [eE] Sign? D+."""
    sign = lambda c: _eq(c, 43, 45)
    dot = lambda c: _eq(c, 46)
    e = lambda c: _eq(c, 101, 69)
    T = {
        "s0": [(sign, "s1"), (digit, "int"), (dot, "dot0"), (ci("i"), "i1"), (ci("n"), "n1")],
        "s1": [(digit, "int"), (dot, "dot0"), (ci("i"), "i1"), (ci("n"), "n1")],
        "int": [(digit, "int"), (dot, "frac"), (e, "e0")],
        "dot0": [(digit, "frac")],                     # '.' with no integer part needs a digit after it
        "frac": [(digit, "frac"), (e, "e0")],
        "e0": [(sign, "e1"), (digit, "exp")],
        "e1": [(digit, "exp")],
        "exp": [(digit, "exp")],
        "i1": [(ci("n"), "i2")], "i2": [(ci("f"), "inf")],
        "inf": [(ci("i"), "f4")], "f4": [(ci("n"), "f5")], "f5": [(ci("i"), "f6")], "f6": [(ci("t"), "f7")], "f7": [(ci("y"), "infinity")],
        "n1": [(ci("a"), "n2")], "n2": [(ci("n"), "nan")],
    }
    return nfa_accept(chars, T, "s0", {"int", "frac", "exp", "inf", "infinity", "nan"})


def json_number_accept(chars):
    """RFC 8259 §6: -? (0 | [1-9][0-9]*) (. [0-9]+)? ([eE] [+-]? [0-9]+)?"""
    T = {
        "s0": [(lambda c: _eq(c, 45), "m"), (lambda c: _eq(c, 48), "z"), (lambda c: _in(c, 49, 57), "int")],
        "m": [(lambda c: _eq(c, 48), "z"), (lambda c: _in(c, 49, 57), "int")],
        "z": [(lambda c: _eq(c, 46), "d0"), (lambda c: _eq(c, 101, 69), "e0")],
        "int": [(digit, "int"), (lambda c: _eq(c, 46), "d0"), (lambda c: _eq(c, 101, 69), "e0")],
        "d0": [(digit, "frac")],
        "frac": [(digit, "frac"), (lambda c: _eq(c, 101, 69), "e0")],
        "e0": [(lambda c: _eq(c, 43, 45), "e1"), (digit, "exp")],
        "e1": [(digit, "exp")],
        "exp": [(digit, "exp")],
    }
    return nfa_accept(chars, T, "s0", {"z", "int", "frac", "exp"})


def hexdigit(c):
    return b_or(b_or(digit(c), _in(c, 97, 102)), _in(c, 65, 70))


def hexval(c):
    if is_sym(c):
        return z3.If(c <= 57, c - 48, z3.If(c <= 70, c - 55, c - 87))
    return c - 48 if c <= 57 else c - 55 if c <= 70 else c - 87


def make_models():
    def deref_all(ex, st, v):
        while isinstance(v, tuple) and v and v[0] in ("ref", "refval"):
            v = ex.deref(v, st)
        return v

    def m_as_ref(ex, st, args, dest_ty, fname):
        v = ex.deref(args[0], st)
        if isinstance(v, tuple) and v and v[0] in ("ref", "refval"):
            return v          # &(&str) -> &str
        return args[0]        # &String -> &str

    def m_borrow(ex, st, args, dest_ty, fname):
        # <impl Borrow<char> as Borrow<char>>::borrow(&x): x is a char or a &char; result is &char
        v = ex.deref(args[0], st)
        if isinstance(v, tuple) and v and v[0] in ("ref", "refval"):
            return v
        return ("refval", v)

    def m_string_new(ex, st, args, dest_ty, fname):
        return SymStr("string", ())

    def m_string_from_char(ex, st, args, dest_ty, fname):
        return SymStr("string", (args[0],))

    def m_string_push(ex, st, args, dest_ty, fname):
        s = ex.deref(args[0], st)
        ex.write_ref(st, args[0], SymStr(s.name, tuple(str_chars(s)) + (args[1],)))
        return UNIT

    def m_string_as_str(ex, st, args, dest_ty, fname):
        return args[0]

    def m_to_string(ex, st, args, dest_ty, fname):
        return deref_all(ex, st, args[0])

    def m_str_eq(ex, st, args, dest_ty, fname):
        a = deref_all(ex, st, args[0])
        b = deref_all(ex, st, args[1])
        ca, cb = str_chars(a), str_chars(b)
        if len(ca) != len(cb):
            return False
        r = True
        for x, y in zip(ca, cb):
            e = (x == y)
            r = b_and(r, z3.simplify(e) if is_sym(e) else bool(e))
        return r

    def m_collect_string(ex, st, args, dest_ty, fname):
        it = args[0]
        return SymStr("hex", tuple(it.items[it.pos:]))

    def m_char_slice_iter(ex, st, args, dest_ty, fname):
        return ArrIter(tuple(ex.elements(ex.deref(args[0], st))), 0)

    def m_parse_f64(ex, st, args, dest_ty, fname):
        cs = str_chars(deref_all(ex, st, args[0]))
        acc = rust_f64_accept(cs)
        val = ("opaque", "f64", tuple(cs))
        if acc is True:
            return enum("Ok", val)
        if acc is False:
            return enum("Err", ("opaque", "ParseFloatError"))
        acc = z3.simplify(acc)
        return [(acc, enum("Ok", val)), (z3.Not(acc), enum("Err", ("opaque", "ParseFloatError")))]

    def m_u16_from_str_radix(ex, st, args, dest_ty, fname):
        cs = str_chars(deref_all(ex, st, args[0]))
        radix = args[1]
        if radix != 16:
            raise ExecError("from_str_radix with radix %r" % (radix,))
        n = len(cs)
        if n == 0:
            return enum("Err", ("opaque", "ParseIntError"))
        # std accepts an optional leading '+' (never '-' for unsigned), then >= 1 hex digits, value must fit u16
        def allhex(xs):
            r = True
            for c in xs:
                r = b_and(r, hexdigit(c))
            return r
        def val(xs):
            v = 0
            for c in xs:
                v = v * 16 + hexval(c)
            return v
        plain = allhex(cs)
        v_plain = val(cs)
        plus = _eq(cs[0], 43)
        rest = b_and(allhex(cs[1:]), n > 1)
        v_rest = val(cs[1:]) if n > 1 else 0
        fits = lambda v: (v <= 65535) if not is_sym(v) else (v <= 65535)
        acc = b_or(b_and(plain, fits(v_plain)), b_and(b_and(plus, rest), fits(v_rest)))
        value = ite(plus, v_rest, v_plain) if n > 1 else v_plain
        if acc is True:
            return enum("Ok", value)
        if acc is False:
            return enum("Err", ("opaque", "ParseIntError"))
        acc = z3.simplify(acc)
        return [(acc, enum("Ok", value)), (z3.Not(acc), enum("Err", ("opaque", "ParseIntError")))]

    def m_char_from_u32(ex, st, args, dest_ty, fname):
        v = args[0]
        if is_sym(v):
            ok = z3.And(v >= 0, v <= 0x10FFFF, z3.Or(v < 0xD800, v > 0xDFFF))
            return [(ok, some(v)), (z3.Not(ok), NONE)]
        return some(v) if (0 <= v <= 0x10FFFF and not (0xD800 <= v <= 0xDFFF)) else NONE

    def m_decode_utf16(ex, st, args, dest_ty, fname):
        return ("decode16", tuple(ex.elements(args[0])), 0)

    def m_decode_utf16_next(ex, st, args, dest_ty, fname):
        d = ex.deref(args[0], st)
        units = d[1]
        if d[2] >= len(units):
            return NONE
        u = units[d[2]]
        # only the use in the parser: first unit is a surrogate (from_u32 failed), second unit follows
        u2 = units[d[2] + 1] if d[2] + 1 < len(units) else None
        ex.write_ref(st, args[0], ("decode16", units, len(units)))
        def hi(x):
            return z3.And(x >= 0xD800, x <= 0xDBFF) if is_sym(x) else (0xD800 <= x <= 0xDBFF)
        def lo(x):
            return z3.And(x >= 0xDC00, x <= 0xDFFF) if is_sym(x) else (0xDC00 <= x <= 0xDFFF)
        def sur(x):
            return z3.And(x >= 0xD800, x <= 0xDFFF) if is_sym(x) else (0xD800 <= x <= 0xDFFF)
        cases = []
        notsur = b_not(sur(u))
        if notsur is not False:
            cases.append((notsur, some(enum("Ok", u))))
        if u2 is not None:
            pair = b_and(hi(u), lo(u2))
            if pair is not False:
                cases.append((pair, some(enum("Ok", 0x10000 + (u - 0xD800) * 0x400 + (u2 - 0xDC00)))))
            bad = b_and(sur(u), b_not(pair))
        else:
            bad = sur(u)
        if bad is not False:
            cases.append((bad, some(enum("Err", ("opaque", "DecodeUtf16Error")))))
        return cases

    def _call_closure(ex, st, clos, argvals):
        if isinstance(clos, tuple) and clos and clos[0] == "closure":
            m = re.match(r"fn\(.*\) -> .* \{(.*)\}$", clos[1])
            if m:
                fn = m.group(1).split("::<")[0]
                f = ex.ctx.find_func(fn)
                if f is None or isinstance(f, tuple):
                    raise ExecError("fn item %s has no MIR body" % fn)
                return ex.call_value(st, f, list(argvals))
            f = ex.closure_function(clos[1])
            return ex.call_value(st, f, [clos] + list(argvals))
        raise ExecError("not callable: %r" % (clos,))

    def m_opt_map_or(ex, st, args, dest_ty, fname):
        o, default, clos = args
        if o[1] == "None":
            return default
        val, pan = _call_closure(ex, st, clos, [o[2][0]])
        if pan is not False:
            raise ExecError("panic inside map_or closure")
        return val

    def m_map_err(ex, st, args, dest_ty, fname):
        r, clos = args
        if r[1] == "Ok":
            return r
        val, pan = _call_closure(ex, st, clos, [r[2][0]])
        return enum("Err", val)

    def m_ok_or_else(ex, st, args, dest_ty, fname):
        o, clos = args
        if o[1] == "Some":
            return enum("Ok", o[2][0])
        val, pan = _call_closure(ex, st, clos, [])
        return enum("Err", val)

    def m_result_ok(ex, st, args, dest_ty, fname):
        r = args[0]
        return some(r[2][0]) if r[1] == "Ok" else NONE

    def m_unwrap(ex, st, args, dest_ty, fname):
        r = args[0]
        if r[1] in ("Ok", "Some"):
            return r[2][0]
        return Panic("called `unwrap()` on an `Err`/`None` value")

    def m_ctor(name):
        def f(ex, st, args, dest_ty, fname):
            return ("enum", name, tuple(args))
        return f

    def m_value_as_str(ex, st, args, dest_ty, fname):
        v = ex.deref(args[0], st)
        if v[1].split("::")[-1] == "String":
            return some(("refval", v[2][0]))
        return NONE

    def m_vec_new(ex, st, args, dest_ty, fname):
        return VecM(())

    def m_vec_push(ex, st, args, dest_ty, fname):
        v = ex.deref(args[0], st)
        ex.write_ref(st, args[0], VecM(v.items + (args[1],)))
        return UNIT

    def m_vec_is_empty(ex, st, args, dest_ty, fname):
        return len(ex.deref(args[0], st).items) == 0

    return [
        M(r"^<impl AsRef<str> as AsRef<str>>::as_ref$", m_as_ref),
        M(r"^<impl Borrow<char> as Borrow<char>>::borrow$", m_borrow),
        M(r"^String::with_capacity$", m_string_new),
        M(r"^String::new$", m_string_new),
        M(r"^<String as From<char>>::from$", m_string_from_char),
        M(r"^String::push$", m_string_push),
        M(r"^String::as_str$", m_string_as_str),
        M(r"^<String as Deref>::deref$", m_string_as_str),
        M(r"^<str as ToString>::to_string$", m_to_string),
        M(r"^<str as PartialEq>::eq$", m_str_eq),
        M(r"^<std::slice::Iter<'_, char> as Iterator>::collect::<String>$", m_collect_string),
        M(r"^core::slice::<impl \[char\]>::iter$", m_char_slice_iter),
        M(r"^core::str::<impl str>::parse::<f64>$", m_parse_f64),
        M(r"^core::num::<impl u16>::from_str_radix$", m_u16_from_str_radix),
        M(r"^char::methods::<impl char>::from_u32$", m_char_from_u32),
        M(r"^char::methods::<impl char>::decode_utf16::<", m_decode_utf16),
        M(r"^<DecodeUtf16<.*> as Iterator>::next$", m_decode_utf16_next),
        M(r"^Option::<&char>::map_or::<bool, ", m_opt_map_or),
        M(r"^Result::<.*>::map_err::<TracebackError, ", m_map_err),
        M(r"^Option::<.*>::ok_or_else::<TracebackError, ", m_ok_or_else),
        M(r"^Result::<char, TracebackError>::ok$", m_result_ok),
        M(r"^Result::<char, TracebackError>::unwrap$", m_unwrap),
        M(r"^Option::<&str>::unwrap$", m_unwrap),
        M(r"^Result::<.*>::Ok$", m_ctor("Ok")),
        M(r"^Result::<.*>::Err$", m_ctor("Err")),
        M(r"^Value::Array$", m_ctor("Array")),
        M(r"^Value::Object$", m_ctor("Object")),
        M(r"^Value::String$", m_ctor("String")),
        M(r"^Value::Number$", m_ctor("Number")),
        M(r"^Value::Bool$", m_ctor("Bool")),
        M(r"^Value::as_str$", m_value_as_str),
        M(r"^Vec::<.*>::with_capacity$", m_vec_new),
        M(r"^Vec::<.*>::new$", m_vec_new),
        M(r"^Vec::<.*>::push$", m_vec_push),
        M(r"^Vec::<.*>::is_empty$", m_vec_is_empty),
    ]
