"""Symbolic executor over parsed MIR (see DESIGN §3.2).

Values are immutable Python objects:
  int / bool                      concrete scalars
  z3 ArithRef / BitVecRef / BoolRef   symbolic scalars (Int mode: unbounded Int + explicit overflow obligations from
                                  the `assert(!overflow)` terminators that -C overflow-checks=on puts into the MIR;
                                  BV mode: machine-width bit-vectors)
  ('agg', (v0, v1, ...))          tuple / struct / array
  ('enum', variant_name_or_idx, (fields...))
  ('ref', ('local', frame_id, local, proj))   reference to a place        | ('refval', value) reference to a temporary value
  model objects (frozen dataclasses) for std types (see models.py)
  UNINIT                          never-written local (reading it is an executor error, not a verdict)

Control is explicit: on a symbolic branch the executor forks (after a feasibility query); at *cut blocks* (loop heads by
default) the state is summarised recursively with memoisation keyed by the concrete part of the store, so that paths that
reach the same control state share their continuation (the result is a DAG-shaped formula).
"""
import itertools, re, sys, time
from dataclasses import dataclass, field
import z3

from .mir import *

sys.setrecursionlimit(100000)


class ExecError(Exception):
    """The executor cannot interpret something: the obligation is *undischarged*, never a verdict."""


class Unwind(Exception):
    pass


UNINIT = ("uninit",)
UNIT = ("agg", ())

INT_BITS = {"i8": 8, "i16": 16, "i32": 32, "i64": 64, "i128": 128, "isize": 64, "u8": 8, "u16": 16, "u32": 32, "u64": 64, "u128": 128, "usize": 64, "char": 32, "bool": 1}


def is_sym(v):
    return isinstance(v, z3.ExprRef)


def is_int_ty(t):
    return t in INT_BITS and t not in ("bool",)


def signed(t):
    return t.startswith("i")


def ty_range(t):
    b = INT_BITS[t]
    if signed(t):
        return -(1 << (b - 1)), (1 << (b - 1)) - 1
    return 0, (1 << b) - 1


def agg(*f):
    return ("agg", tuple(f))


def enum(name, *f):
    return ("enum", name, tuple(f))


def some(v):
    return enum("Some", v)


NONE = enum("None")

DISCR = {"None": 0, "Some": 1, "Ok": 0, "Err": 1, "Continue": 0, "Break": 1}


def z3bool(v):
    if isinstance(v, bool):
        return z3.BoolVal(v)
    return v


def b_and(a, b):
    if a is True:
        return b
    if b is True:
        return a
    if a is False or b is False:
        return False
    return z3.And(z3bool(a), z3bool(b))


def b_or(a, b):
    if a is False:
        return b
    if b is False:
        return a
    if a is True or b is True:
        return True
    return z3.Or(z3bool(a), z3bool(b))


def b_not(a):
    if isinstance(a, bool):
        return not a
    return z3.Not(a)


def ite(c, a, b):
    """Merge two values under condition c (structurally)."""
    if c is True:
        return a
    if c is False:
        return b
    if a is b:
        return a
    if not is_sym(a) and not is_sym(b) and a == b:
        return a
    if isinstance(a, tuple) and isinstance(b, tuple) and a and b and a[0] == b[0] == "agg" and len(a[1]) == len(b[1]):
        return ("agg", tuple(ite(c, x, y) for x, y in zip(a[1], b[1])))
    if isinstance(a, tuple) and isinstance(b, tuple) and a and b and a[0] == b[0] == "enum" and a[1] == b[1] and len(a[2]) == len(b[2]):
        return ("enum", a[1], tuple(ite(c, x, y) for x, y in zip(a[2], b[2])))
    if isinstance(a, tuple) or isinstance(b, tuple):
        raise ExecError("cannot merge structurally different values: %r / %r" % (a, b))
    scalar = lambda v: isinstance(v, (bool, int)) or is_sym(v)
    if not (scalar(a) and scalar(b)):
        raise ExecError("cannot merge model objects: %r / %r" % (type(a).__name__, type(b).__name__))
    if isinstance(a, bool) or isinstance(b, bool) or z3.is_bool(a) or z3.is_bool(b):
        return z3.If(c, z3bool(a), z3bool(b))
    return z3.If(c, a, b)


def vkey(v):
    """Hashable identity of a value (z3 terms by AST id)."""
    if is_sym(v):
        return ("z3", v.get_id())
    if isinstance(v, tuple):
        return tuple(vkey(x) for x in v)
    return v


class Ctx:
    """One analysis context: functions, models, solver, mode."""

    def __init__(self, funcs, models, mode="int", loop_bound=64, time_budget=None, verbose=False):
        self.funcs = funcs
        self.models = models          # list of (compiled regex, callable(ctx, state, args, dest_ty) -> value | Fork)
        self.mode = mode              # 'int' | 'bv'
        self.loop_bound = loop_bound
        self.solver = z3.Solver()
        self.nq = 0                   # feasibility queries
        self.tq = 0.0
        self.const_cache = {}
        self.frame_ids = itertools.count(1)
        self.verbose = verbose
        self.calls_seen = {}          # callee name -> 'model' | 'inlined'
        self.blocks_executed = 0
        self.deadline = time.time() + time_budget if time_budget else None
        self.fresh = itertools.count(1)
        self.base_assumptions = []
        self.memo_hits = 0
        self.enum_decls = {}
        self.extern_consts = {"std::time::SystemTime::UNIX_EPOCH": ("opaque", "UNIX_EPOCH"), "std::time::UNIX_EPOCH": ("opaque", "UNIX_EPOCH")}

    # -- solver helpers ---------------------------------------------------------------------------------------
    def feasible(self, pc, extra=None):
        if pc is False:
            return False
        cs = [z3bool(x) for x in self.base_assumptions]
        if pc is not True:
            cs.append(pc)
        if extra is not None:
            if extra is False:
                return False
            if extra is not True:
                cs.append(extra)
        if len(cs) == len(self.base_assumptions):
            return True
        t0 = time.time()
        self.solver.push()
        self.solver.add(*cs)
        r = self.solver.check()
        self.solver.pop()
        self.nq += 1
        self.tq += time.time() - t0
        if r == z3.unknown:
            return True
        return r == z3.sat

    def enum_discriminant(self, qualified):
        """Discriminant of `Type::Variant`: from the MIR's own `Type::Variant::{constant#0}` (explicit discriminants) or from the
        declaration order recorded in self.enum_decls (filled by the spec from the crate's sources)."""
        ent = self.funcs.get(qualified + "::{constant#0}")
        if isinstance(ent, tuple) and ent[0] == "constval":
            return ent[1][2]
        if "::" in qualified:
            ty, var = qualified.rsplit("::", 1)
            decl = self.enum_decls.get(ty)
            if decl and var in decl:
                return decl.index(var)
        return None

    def mkint(self, name, ty):
        if self.mode == "bv":
            return z3.BitVec(name, INT_BITS[ty])
        return z3.Int(name)

    def intval(self, v, ty):
        return v

    def find_func(self, name):
        f = self.funcs.get(name)
        if f is not None:
            return f
        # suffix match (paths are printed relative to the crate / with impl locations)
        cands = [k for k in self.funcs if k.endswith("::" + name) or name.endswith("::" + k)]
        if len(cands) == 1:
            return self.funcs[cands[0]]
        # `Type::<'_>::method` (inherent method call) -> `path::<impl at file:l:c>::method` whose signature mentions Type
        plain = re.sub(r"::<[^<>]*(?:<[^<>]*>[^<>]*)*>", "", name)
        if plain in self.funcs and not isinstance(self.funcs[plain], tuple):
            return self.funcs[plain]
        mt = re.fullmatch(r"<&?(?:mut )?([\w:]+?)(?:<.*>)? as [\w:]+(?:<.*>)?>::(\w+)", name)
        if mt:
            ty, meth = mt.group(1).split("::")[-1], mt.group(2)
            cands = []
            for k, f in self.funcs.items():
                if isinstance(f, tuple) or not k.endswith("::" + meth) or "{closure" in k:
                    continue
                sig = " ".join(t for _, t in f.args) + " " + f.ret_type
                if re.search(r"\b%s\b" % re.escape(ty), sig):
                    cands.append(k)
            if len(cands) > 1:
                first = [k for k in cands if self.funcs[k].args and re.sub(r"^&(mut )?", "", self.funcs[k].args[0][1].strip()).split("::")[-1] == ty]
                cands = first or cands
            if len(cands) == 1:
                return self.funcs[cands[0]]
        parts = plain.split("::")
        if len(parts) >= 2:
            ty, meth = parts[-2], parts[-1]
            cands = []
            for k, f in self.funcs.items():
                if isinstance(f, tuple) or not k.endswith("::" + meth) or "{closure" in k:
                    continue
                sig = " ".join(t for _, t in f.args) + " " + f.ret_type
                if re.search(r"\b%s\b" % re.escape(ty), sig):
                    cands.append(k)
            if len(cands) == 1:
                return self.funcs[cands[0]]
        return None


@dataclass
class State:
    frame: int
    func: Function
    locals: dict                  # local -> value
    heap: dict = field(default_factory=dict)    # frame_id -> locals dict of caller frames reachable through refs (shared by reference)
    pc: object = True             # path condition (relative to the start of the current summary)


@dataclass
class Outcome:
    """Summary of executing from a state to the end of the function (or to a stop block)."""
    rets: list      # [(cond, value, locals, heap)]   cond relative to the start state
    panics: list    # [(cond, message)]
    stops: list = field(default_factory=list)   # [(cond, bb, locals, heap)]  reached a stop block
    frame: int = 0


class Exec:
    def __init__(self, ctx: Ctx):
        self.ctx = ctx

    # -- constants ----------------------------------------------------------------------------------------------
    def eval_named_const(self, name, func):
        ctx = self.ctx
        key = name
        if key in ctx.const_cache:
            return ctx.const_cache[key]
        if name in ctx.extern_consts:
            return ctx.extern_consts[name]
        mi = re.fullmatch(r"(?:core|std)::num::<impl ([iu])(8|16|32|64|128|size)>::(MIN|MAX|BITS)", name)
        if mi:
            signed, w = mi.group(1) == "i", 64 if mi.group(2) == "size" else int(mi.group(2))
            if mi.group(3) == "BITS":
                return w
            if signed:
                return -(1 << (w - 1)) if mi.group(3) == "MIN" else (1 << (w - 1)) - 1
            return 0 if mi.group(3) == "MIN" else (1 << w) - 1
        ent = ctx.funcs.get(name)
        if ent is None:
            # relative names: try suffix match, and promoted of the current function
            cands = [k for k in ctx.funcs if k.endswith(name) or name.endswith(k)]
            if len(cands) >= 1:
                cands.sort(key=len, reverse=True)
                ent = ctx.funcs[cands[0]]
        if ent is None:
            mp = re.search(r"::promoted\[\d+\]$", name)
            if mp and func is not None:
                ent = ctx.funcs.get(func.name + mp.group(0))
                key = func.name + mp.group(0)
                if key in ctx.const_cache:
                    return ctx.const_cache[key]
        if ent is None and re.fullmatch(r"(?:\w+::)*[A-Z]\w*", name):
            return ("opaque", name.split("::")[-1])          # a unit struct used as a value (zero-sized)
        if ent is None:
            raise ExecError("unknown constant: " + name)
        if isinstance(ent, tuple) and ent[0] == "constval":
            v = self.eval_const(ent[1], func)
        else:
            out = self.run_function(ent, [])
            if len(out.rets) != 1 or out.panics:
                raise ExecError("constant body did not evaluate to one value: " + name)
            v = out.rets[0][1]
            # a promoted returns a reference to its own local: materialise as refval
            v = self.detach(v, out.frame, out.rets[0][2])
        ctx.const_cache[key] = v
        return v

    def detach(self, v, frame, frame_locals):
        """A constant's value may point into the (now finished) frame that computed it: resolve such references deeply."""
        if isinstance(v, tuple) and v and v[0] == "ref":
            _, (kind, fid, local, proj) = v
            if fid != frame:
                raise ExecError("dangling constant reference")
            val = frame_locals[local]
            for p in proj:
                val = self.project(val, p, None)
            return ("refval", self.detach(val, frame, frame_locals))
        if isinstance(v, tuple) and v and v[0] == "refval":
            return ("refval", self.detach(v[1], frame, frame_locals))
        if isinstance(v, tuple) and v and v[0] == "agg":
            return ("agg", tuple(self.detach(x, frame, frame_locals) for x in v[1]))
        if isinstance(v, tuple) and v and v[0] == "enum":
            return ("enum", v[1], tuple(self.detach(x, frame, frame_locals) for x in v[2]))
        return v

    def eval_const(self, c, func):
        _, kind, val, ty = c if len(c) == 4 else (c + (None,))
        if kind in ("int", "char"):
            if self.ctx.mode == "bv" and ty in INT_BITS and False:
                return val
            return val
        if kind == "bool":
            return val
        if kind == "unit":
            return UNIT
        if kind in ("str", "bytes"):
            from .models import ConcStr
            return ("refval", ConcStr(val))
        if kind == "zst":
            return ("closure", val, ())
        if kind == "fnitem":
            return ("closure", "fn(..) -> .. {%s}" % val, ())
        if kind == "named":
            m = re.fullmatch(r"[\w:<>, ()&']*::(Ok|Err|Some|None|Continue|Break)(?:\((.*)\))?", val)
            if m:
                inner = m.group(2)
                if inner is None or inner == "":
                    return ("enum", m.group(1), ())
                from .mir import parse_const
                return ("enum", m.group(1), (self.eval_const(parse_const(inner), func),))
            return self.eval_named_const(val, func)
        raise ExecError("const kind " + kind)

    # -- places -------------------------------------------------------------------------------------------------
    def frame_locals(self, st: State, fid):
        if fid == st.frame:
            return st.locals
        return st.heap[fid]

    def project(self, val, p, st):
        if val is UNINIT:
            raise ExecError("read of uninitialised value")
        k = p[0]
        if k == "field":
            if isinstance(val, tuple) and val[0] == "agg":
                return val[1][p[1]]
            if isinstance(val, tuple) and val[0] == "enum":
                return val[2][p[1]]
            if isinstance(val, tuple) and val[0] == "closure":
                return val[2][p[1]]
            if hasattr(val, "field"):
                return val.field(p[1])
            raise ExecError("field of non-aggregate %r" % (val,))
        if k == "downcast":
            return val
        if k == "deref":
            return self.deref(val, st)
        if k == "cindex":
            items = self.elements(val)
            return items[-p[1] if p[2] else p[1]]
        if k == "range":
            items = self.elements(val)
            return ("agg", tuple(items[p[1]:p[2]]))
        raise ExecError("projection " + str(p))

    def elements(self, val):
        if isinstance(val, tuple) and val[0] == "agg":
            return val[1]
        if hasattr(val, "elements"):
            return val.elements()
        raise ExecError("not indexable: %r" % (val,))

    def deref(self, val, st):
        if isinstance(val, tuple) and val[0] == "refval":
            return val[1]
        if isinstance(val, tuple) and val[0] == "ref":
            _, (kind, fid, local, proj) = val
            v = self.frame_locals(st, fid)[local]
            for p in proj:
                v = self.read_proj(v, p, st)
            return v
        raise ExecError("deref of non-reference %r" % (val,))

    def read_proj(self, v, p, st):
        if p[0] == "index":
            idx = st.locals[p[1]]
            return self.index_read(v, idx, st)
        return self.project(v, p, st)

    def index_read(self, v, idx, st):
        items = self.elements(v)
        if is_sym(idx):
            # symbolic index into a concrete-length sequence: ite chain (bounds are checked by the MIR's own assert)
            res = items[-1]
            for i in range(len(items) - 2, -1, -1):
                res = ite(idx == i, items[i], res)
            return res
        if not (0 <= idx < len(items)):
            raise ExecError("index %d out of range %d without a preceding bounds assert" % (idx, len(items)))
        return items[idx]

    def read_place(self, st: State, place):
        _, local, proj = place
        if local not in st.locals:
            raise ExecError("read of unset local _%d in %s" % (local, st.func.name))
        v = st.locals[local]
        for p in proj:
            v = self.read_proj(v, p, st)
        if v is UNINIT:
            raise ExecError("read of uninitialised _%d%s in %s" % (local, proj, st.func.name))
        return v

    def write_into(self, cur, proj, newv, st):
        """Functional update of `cur` at projection path `proj`."""
        if not proj:
            return newv
        p, rest = proj[0], proj[1:]
        if p[0] == "deref":
            # write through a reference: update the target place, the reference itself is unchanged
            if isinstance(cur, tuple) and cur[0] == "ref":
                _, (kind, fid, local, rproj) = cur
                fl = self.frame_locals(st, fid)
                fl[local] = self.write_into(fl[local], tuple(rproj) + tuple(rest), newv, st)
                return cur
            raise ExecError("write through non-place reference")
        if p[0] == "field":
            if isinstance(cur, tuple) and cur[0] == "agg":
                items = list(cur[1])
                items[p[1]] = self.write_into(items[p[1]], rest, newv, st)
                return ("agg", tuple(items))
            if isinstance(cur, tuple) and cur[0] == "enum":
                items = list(cur[2])
                items[p[1]] = self.write_into(items[p[1]], rest, newv, st)
                return ("enum", cur[1], tuple(items))
            if cur is UNINIT:
                raise ExecError("field write into uninitialised aggregate")
            if hasattr(cur, "with_field"):
                return cur.with_field(p[1], self.write_into(cur.field(p[1]), rest, newv, st))
            raise ExecError("field write into %r" % (cur,))
        if p[0] == "downcast":
            return self.write_into(cur, rest, newv, st)
        if p[0] == "index":
            idx = st.locals[p[1]]
            items = list(self.elements(cur))
            if is_sym(idx):
                if rest:
                    raise ExecError("nested write under symbolic index")
                items = [ite(idx == i, newv, old) for i, old in enumerate(items)]
            else:
                items[idx] = self.write_into(items[idx], rest, newv, st)
            if isinstance(cur, tuple) and cur[0] == "agg":
                return ("agg", tuple(items))
            return cur.with_elements(tuple(items))
        if p[0] == "cindex":
            items = list(self.elements(cur))
            i = -p[1] if p[2] else p[1]
            items[i] = self.write_into(items[i], rest, newv, st)
            if hasattr(cur, "with_elements"):
                return cur.with_elements(tuple(items))
            return ("agg", tuple(items))
        if p[0] == "range":
            items = list(self.elements(cur))
            sub = ("agg", tuple(items[p[1]:p[2]]))
            sub = self.write_into(sub, rest, newv, st)
            new_items = list(self.elements(sub))
            if len(new_items) != p[2] - p[1]:
                raise ExecError("slice write changes the length")
            items[p[1]:p[2]] = new_items
            return ("agg", tuple(items))
        raise ExecError("write projection " + str(p))

    def write_place(self, st: State, place, v):
        _, local, proj = place
        cur = st.locals.get(local, UNINIT)
        st.locals[local] = self.write_into(cur, proj, v, st)

    def write_ref(self, st, ref, v):
        if not (isinstance(ref, tuple) and ref[0] == "ref"):
            raise ExecError("write through %r" % (ref,))
        _, (kind, fid, local, proj) = ref
        fl = self.frame_locals(st, fid)
        fl[local] = self.write_into(fl[local], tuple(proj), v, st)

    def place_type(self, st, place):
        _, local, proj = place
        if proj:
            return None
        return st.func.local_types.get(local)

    # -- operands / rvalues -------------------------------------------------------------------------------------
    def operand(self, st, op):
        if op[0] in ("copy", "move"):
            return self.read_place(st, op[1])
        if op[0] == "const":
            return self.eval_const(op, st.func)
        raise ExecError("operand " + str(op))

    def operand_type(self, st, op):
        if op[0] in ("copy", "move"):
            _, local, proj = op[1]
            t = st.func.local_types.get(local)
            if not proj:
                return t
            # (_3.0: i64) style projections carry no type here; tuple-of-(T,bool) from WithOverflow handled by caller
            return None
        if op[0] == "const":
            return op[3] if len(op) > 3 else None
        return None

    def binop(self, st, name, a, b, ta):
        ctx = self.ctx
        sym = is_sym(a) or is_sym(b)
        bv = ctx.mode == "bv" and sym
        if name in ("Eq", "Ne", "Lt", "Le", "Gt", "Ge"):
            if isinstance(a, tuple) or isinstance(b, tuple):
                raise ExecError("comparison of aggregates")
            if bv:
                a, b = self.to_bv(a, b, ta)
                if ta and not signed(ta):
                    r = {"Eq": a == b, "Ne": a != b, "Lt": z3.ULT(a, b), "Le": z3.ULE(a, b), "Gt": z3.UGT(a, b), "Ge": z3.UGE(a, b)}[name]
                else:
                    r = {"Eq": a == b, "Ne": a != b, "Lt": a < b, "Le": a <= b, "Gt": a > b, "Ge": a >= b}[name]
                return z3.simplify(r)
            if isinstance(a, bool) or isinstance(b, bool) or (is_sym(a) and z3.is_bool(a)) or (is_sym(b) and z3.is_bool(b)):
                if name == "Eq":
                    r = z3bool(a) == z3bool(b) if sym else a == b
                elif name == "Ne":
                    r = z3bool(a) != z3bool(b) if sym else a != b
                else:
                    raise ExecError("ordering on bools")
                return z3.simplify(r) if is_sym(r) else r
            r = {"Eq": lambda: a == b, "Ne": lambda: a != b, "Lt": lambda: a < b, "Le": lambda: a <= b, "Gt": lambda: a > b, "Ge": lambda: a >= b}[name]()
            return z3.simplify(r) if is_sym(r) else bool(r)
        if name in ("BitAnd", "BitOr", "BitXor") and (isinstance(a, bool) or isinstance(b, bool) or (is_sym(a) and z3.is_bool(a)) or (is_sym(b) and z3.is_bool(b))):
            if name == "BitAnd":
                return b_and(a, b)
            if name == "BitOr":
                return b_or(a, b)
            return z3.Xor(z3bool(a), z3bool(b)) if sym else (a != b)
        if name.endswith("WithOverflow"):
            base = name[:-len("WithOverflow")]
            if ta is None or ta not in INT_BITS:
                raise ExecError("WithOverflow without operand type")
            lo, hi = ty_range(ta)
            if bv:
                a2, b2 = self.to_bv(a, b, ta)
                w = INT_BITS[ta]
                ext = (z3.SignExt if signed(ta) else z3.ZeroExt)
                wa, wb = ext(w, a2), ext(w, b2)
                full = {"Add": wa + wb, "Sub": wa - wb, "Mul": wa * wb}[base]
                res = z3.Extract(w - 1, 0, full)
                back = ext(w, res)
                return agg(z3.simplify(res), z3.simplify(back != full))
            full = {"Add": lambda: a + b, "Sub": lambda: a - b, "Mul": lambda: a * b}[base]()
            if is_sym(full):
                ovf = z3.simplify(z3.Or(full < lo, full > hi))
                # Int mode keeps the mathematical result: the following `assert(!overflow)` is the obligation that it fits
                return agg(full, ovf)
            ovf = not (lo <= full <= hi)
            if ovf:
                full = self.wrap(full, ta)
            return agg(full, ovf)
        if name in ("Add", "Sub", "Mul", "AddUnchecked", "SubUnchecked", "MulUnchecked"):
            base = name.replace("Unchecked", "")
            if bv:
                a, b = self.to_bv(a, b, ta)
                return z3.simplify({"Add": a + b, "Sub": a - b, "Mul": a * b}[base])
            r = {"Add": lambda: a + b, "Sub": lambda: a - b, "Mul": lambda: a * b}[base]()
            if not is_sym(r) and ta in INT_BITS:
                r = self.wrap(r, ta)
            elif is_sym(r) and ta in INT_BITS and not name.endswith("Unchecked"):
                # wrapping semantics in Int mode
                lo, hi = ty_range(ta)
                m = 1 << INT_BITS[ta]
                r = ((r - lo) % m) + lo
            return r
        if name in ("Div", "Rem"):
            if bv:
                a, b = self.to_bv(a, b, ta)
                if ta and not signed(ta):
                    return z3.simplify(z3.UDiv(a, b) if name == "Div" else z3.URem(a, b))
                return z3.simplify(a / b if name == "Div" else z3.SRem(a, b))
            if not sym:
                if b == 0:
                    raise ExecError("division by zero without a preceding assert")
                q = abs(a) // abs(b)
                if (a < 0) != (b < 0):
                    q = -q
                return q if name == "Div" else a - q * b
            # truncated division in Int mode (z3 div/mod are Euclidean)
            if not is_sym(b) and b > 0:
                q = z3.If(a >= 0, a / b, -((-a) / b))
            else:
                q = z3.If(z3.And(a >= 0, b > 0), a / b, z3.If(z3.And(a < 0, b > 0), -((-a) / b), z3.If(z3.And(a >= 0, b < 0), -(a / (-b)), (-a) / (-b))))
            if name == "Div":
                return q
            return a - q * b
        if name in ("BitAnd", "BitOr", "BitXor", "Shl", "Shr", "ShlUnchecked", "ShrUnchecked"):
            base = name.replace("Unchecked", "")
            if not sym:
                bits = INT_BITS.get(ta, 64)
                if base == "BitAnd":
                    return a & b
                if base == "BitOr":
                    return a | b
                if base == "BitXor":
                    return a ^ b
                if base == "Shl":
                    return self.wrap(a << (b % bits), ta)
                return a >> (b % bits)
            if not bv:
                bits = INT_BITS.get(ta)
                if base in ("Shl", "Shr") and not is_sym(b) and bits and ta and not signed(ta):
                    # unsigned value shifted by a constant, integer mode: multiplication / division by 2^k modulo 2^width
                    k = b % bits
                    if base == "Shl":
                        return z3.simplify((a * (1 << k)) % (1 << bits))
                    return z3.simplify(a / (1 << k))
                if base in ("BitAnd",) and not is_sym(b) and b >= 0 and (b & (b + 1)) == 0:
                    return z3.simplify(a % (b + 1))          # x & (2^k - 1) for a non-negative x
                if base in ("BitAnd", "BitOr", "BitXor") and bits and ta and not signed(ta):
                    # unsigned operands in integer mode: through bit-vectors of the type's width and back
                    ab = z3.Int2BV(a if is_sym(a) else z3.IntVal(a), bits)
                    bb = z3.Int2BV(b if is_sym(b) else z3.IntVal(b), bits)
                    r = {"BitAnd": ab & bb, "BitOr": ab | bb, "BitXor": ab ^ bb}[base]
                    return z3.BV2Int(r, False)
                raise ExecError("bitwise %s on symbolic Int (use bv mode)" % name)
            a2, b2 = self.to_bv(a, b, ta)
            if base == "BitAnd":
                return z3.simplify(a2 & b2)
            if base == "BitOr":
                return z3.simplify(a2 | b2)
            if base == "BitXor":
                return z3.simplify(a2 ^ b2)
            if base == "Shl":
                return z3.simplify(a2 << b2)
            return z3.simplify(z3.LShR(a2, b2) if not signed(ta) else a2 >> b2)
        raise ExecError("binop " + name)

    def to_bv(self, a, b, ta):
        w = None
        for x in (a, b):
            if is_sym(x) and z3.is_bv(x):
                w = x.size()
        if w is None:
            w = INT_BITS.get(ta, 64)
        def conv(x):
            if is_sym(x):
                if z3.is_bv(x):
                    if x.size() < w:
                        return z3.ZeroExt(w - x.size(), x)
                    if x.size() > w:
                        return z3.Extract(w - 1, 0, x)
                    return x
                raise ExecError("mixing Int and BV terms")
            return z3.BitVecVal(int(x), w)
        return conv(a), conv(b)

    def wrap(self, v, ty):
        if ty not in INT_BITS:
            return v
        bits = INT_BITS[ty]
        v &= (1 << bits) - 1
        if signed(ty) and v >= (1 << (bits - 1)):
            v -= 1 << bits
        return v

    def cast(self, st, v, src_ty, dst_ty, kind):
        if kind in ("IntToInt",):
            if dst_ty not in INT_BITS:
                raise ExecError("cast to " + dst_ty)
            if not is_sym(v):
                if isinstance(v, bool):
                    v = int(v)
                return self.wrap(v, dst_ty)
            if z3.is_bool(v):
                one = z3.BitVecVal(1, INT_BITS[dst_ty]) if self.ctx.mode == "bv" else 1
                zero = z3.BitVecVal(0, INT_BITS[dst_ty]) if self.ctx.mode == "bv" else 0
                return z3.If(v, one, zero)
            if z3.is_bv(v):
                w, nw = v.size(), INT_BITS[dst_ty]
                if nw == w:
                    return v
                if nw < w:
                    return z3.simplify(z3.Extract(nw - 1, 0, v))
                ext = z3.SignExt if (src_ty and signed(src_ty)) else z3.ZeroExt
                return z3.simplify(ext(nw - w, v))
            # Int mode: wrap into the destination range
            lo, hi = ty_range(dst_ty)
            m = 1 << INT_BITS[dst_ty]
            return ((v - lo) % m) + lo
        if kind.startswith("PointerCoercion") or kind in ("Transmute", "PtrToPtr"):
            return v
        raise ExecError("cast kind " + kind)

    def rvalue(self, st, rv, dest_ty=None):
        k = rv[0]
        if k == "use":
            return self.operand(st, rv[1])
        if k == "binop":
            a = self.operand(st, rv[2])
            b = self.operand(st, rv[3])
            ta = self.operand_type(st, rv[2]) or self.operand_type(st, rv[3])
            if ta is None and rv[1].endswith("WithOverflow") and dest_ty:
                m = re.match(r"\((\w+), bool\)", dest_ty)
                if m:
                    ta = m.group(1)
            if ta is None and dest_ty in INT_BITS:
                ta = dest_ty
            return self.binop(st, rv[1], a, b, ta)
        if k == "unop":
            a = self.operand(st, rv[2])
            if rv[1] == "Not":
                if isinstance(a, bool):
                    return not a
                if is_sym(a) and z3.is_bool(a):
                    return z3.simplify(z3.Not(a))
                ta = self.operand_type(st, rv[2]) or dest_ty
                if not is_sym(a):
                    return self.wrap(~a, ta)
                if z3.is_bv(a):
                    return z3.simplify(~a)
                raise ExecError("bitwise Not on symbolic Int")
            if rv[1] == "Neg":
                return -a
            if rv[1] == "PtrMetadata":
                target = self.deref(a, st) if isinstance(a, tuple) and a[0] in ("ref", "refval") else a
                if hasattr(target, "length"):
                    return target.length()
                return len(self.elements(target))
        if k == "discr":
            v = self.read_place(st, rv[1])
            if isinstance(v, tuple) and v[0] == "enum":
                name = v[1]
                if isinstance(name, int):
                    return name
                if name in DISCR:
                    return DISCR[name]
                d = self.ctx.enum_discriminant(name)
                if d is not None:
                    return d
                raise ExecError("unknown discriminant for variant " + str(name))
            if hasattr(v, "discriminant"):
                return v.discriminant()
            raise ExecError("discriminant of %r" % (v,))
        if k == "len":
            v = self.read_place(st, rv[1])
            if hasattr(v, "length"):
                return v.length()
            return len(self.elements(v))
        if k == "ref":
            _, local, proj = rv[1]
            # &(*_x) reborrows: return the same reference
            if proj and proj[-1] == ("deref",) :
                inner = self.read_place(st, ("place", local, proj[:-1]))
                return inner
            # references into a dereferenced reference: resolve the base
            if any(p[0] == "deref" for p in proj):
                i = max(i for i, p in enumerate(proj) if p[0] == "deref")
                base = self.read_place(st, ("place", local, proj[:i]))
                if isinstance(base, tuple) and base[0] == "ref":
                    _, (kind, fid, l2, p2) = base
                    return ("ref", ("local", fid, l2, tuple(p2) + self.freeze_proj(st, proj[i + 1:])))
                if isinstance(base, tuple) and base[0] == "refval":
                    v = base[1]
                    for p in proj[i + 1:]:
                        v = self.read_proj(v, p, st)
                    return ("refval", v)
                raise ExecError("ref through non-reference")
            return ("ref", ("local", st.frame, local, self.freeze_proj(st, proj)))
        if k == "cast":
            v = self.operand(st, rv[1])
            return self.cast(st, v, self.operand_type(st, rv[1]), rv[2], rv[3])
        if k == "tuple":
            return ("agg", tuple(self.operand(st, o) for o in rv[1]))
        if k == "array":
            return ("agg", tuple(self.operand(st, o) for o in rv[1]))
        if k == "repeat":
            v = self.operand(st, rv[1])
            return ("agg", tuple(v for _ in range(rv[2])))
        if k == "struct":
            return ("agg", tuple(self.operand(st, o) for _, o in rv[2]))
        if k == "closure":
            return ("closure", rv[1], tuple(self.operand(st, o) for _, o in rv[2]))
        if k == "variant":
            base = re.sub(r"<.*$", "", rv[1].split("::<")[0]).split("::")[-1].strip()
            name = rv[2] if base in ("Option", "Result", "ControlFlow", "") else base + "::" + rv[2]
            return ("enum", name, tuple(self.operand(st, o) for o in rv[3]))
        raise ExecError("rvalue " + str(rv[0]))

    def freeze_proj(self, st, proj):
        out = []
        for p in proj:
            if p[0] == "index":
                idx = st.locals[p[1]]
                if is_sym(idx):
                    raise ExecError("reference to an element at a symbolic index")
                out.append(("cindex", idx, False))
            else:
                out.append(p)
        return tuple(out)

    # -- execution ----------------------------------------------------------------------------------------------
    def run_function(self, func, args, heap=None, pc=True, stop_blocks=(), start_bb=0, start_locals=None, cut_blocks=None):
        """Execute `func` from start_bb; returns Outcome (conditions relative to the start state)."""
        ensure_parsed(func)
        fid = next(self.ctx.frame_ids)
        locs = {}
        if start_locals is not None:
            locs.update(start_locals)
        else:
            for (l, _t), v in zip(func.args, args):
                locs[l] = v
        st = State(fid, func, locs, dict(heap or {}), pc)
        env = Env(memo={}, stop_blocks=set(stop_blocks), cut_blocks=loop_heads(func) if cut_blocks is None else set(cut_blocks),
                  live=liveness(func), onstack={})
        out = self.explore(st, start_bb, env, at_start=True)
        out.frame = fid
        return out

    def explore(self, st: State, bb, env, skip_cut=False, at_start=False):
        """Execute from block `bb` until return/panic/stop; fork on symbolic branches. Conditions in the result are
        relative to the state at entry (st.pc is only used for feasibility pruning)."""
        ctx = self.ctx
        func = st.func
        while True:
            if ctx.deadline and time.time() > ctx.deadline:
                raise ExecError("time budget exhausted during symbolic execution")
            ctx.blocks_executed += 1
            if bb in env.stop_blocks and not at_start:
                return Outcome([], [], [(True, bb, dict(st.locals), st.heap)])
            if bb in env.cut_blocks and not skip_cut:
                # summarise the continuation from this control state, memoised on the live part of the store
                key = (bb, tuple(sorted((l, vkey(v)) for l, v in st.locals.items() if l in env.live[bb])), self.heap_key(st))
                if key in env.memo:
                    ctx.memo_hits += 1
                    return env.memo[key]
                if ("active", key) in env.onstack:
                    # the same control state (block, live locals, heap incl. stream position) is reached again while its own
                    # continuation is being explored: the loop makes no progress, i.e. the real code never terminates on this path.
                    # Reported like a panic outcome so that the condition is composed along the path and a witness can be replayed.
                    return Outcome([], [(True, "DIVERGES: the control state at bb%d of %s repeats without progress (endless loop)" % (bb, func.name))], [])
                cnt = env.onstack.get(bb, 0)
                if cnt >= ctx.loop_bound:
                    raise Unwind("loop at bb%d of %s exceeds the unwinding bound %d" % (bb, func.name, ctx.loop_bound))
                env.onstack[bb] = cnt + 1
                env.onstack[("active", key)] = True
                # the summary is shared by every path that reaches this control state, so it must not be pruned with
                # the path condition of the first visitor: explore it under `True` (plus the global assumptions)
                st2 = State(st.frame, func, dict(st.locals), self.copy_heap(st.heap), True)
                try:
                    res = self.explore(st2, bb, env, skip_cut=True, at_start=at_start)
                finally:
                    env.onstack[bb] = cnt
                    env.onstack.pop(("active", key), None)
                if not st.heap:
                    res = self.compress(res)
                env.memo[key] = res
                return res
            skip_cut = False
            at_start = False
            blk = func.blocks[bb]
            for s in blk.stmts:
                if s[0] == "assign":
                    dest_ty = self.place_type(st, s[1])
                    v = self.rvalue(st, s[2], dest_ty)
                    self.write_place(st, s[1], v)
                elif s[0] == "setdiscr":
                    raise ExecError("SetDiscriminant")
            t = blk.term
            k = t[0]
            if k == "goto":
                bb = t[1]
                continue
            if k == "return":
                return Outcome([(True, st.locals.get(0, UNIT), st.locals, st.heap)], [])
            if k == "unreachable":
                return Outcome([], [(True, "reached `unreachable` in %s bb%d" % (func.name, bb))])
            if k == "drop":
                bb = t[2]
                continue
            if k == "switch":
                v = self.operand(st, t[1])
                if isinstance(v, bool):
                    v = int(v)
                if is_sym(v):
                    v = z3.simplify(v)
                    if z3.is_true(v):
                        v = 1
                    elif z3.is_false(v):
                        v = 0
                    elif z3.is_int_value(v) or z3.is_bv_value(v):
                        v = v.as_long()
                if not is_sym(v):
                    nxt = t[3]
                    for val, tb in t[2]:
                        if val == v:
                            nxt = tb
                            break
                    if nxt is None:
                        raise ExecError("switchInt without matching arm")
                    bb = nxt
                    continue
                branches, others = [], []
                for val, tb in t[2]:
                    if z3.is_bool(v):
                        c = v if val != 0 else z3.Not(v)
                    elif z3.is_bv(v):
                        c = v == z3.BitVecVal(val, v.size())
                    else:
                        c = v == val
                    branches.append((z3.simplify(c), tb))
                    others.append(z3.Not(c))
                if t[3] is not None:
                    branches.append((z3.simplify(z3.And(*others)) if len(others) > 1 else z3.simplify(others[0]), t[3]))
                return self.fork(st, branches, env)
            if k == "assert":
                c = self.operand(st, t[1])
                ok = c if t[2] else b_not(c)
                if is_sym(ok):
                    ok = z3.simplify(ok)
                    if z3.is_true(ok):
                        ok = True
                    elif z3.is_false(ok):
                        ok = False
                if ok is True:
                    bb = t[4]
                    continue
                if ok is False:
                    return Outcome([], [(True, t[3])])
                res = Outcome([], [], [])
                bad = z3.Not(ok)
                if ctx.feasible(st.pc, bad):
                    res.panics.append((bad, t[3]))
                if ctx.feasible(st.pc, ok):
                    st2 = State(st.frame, func, st.locals, st.heap, b_and(st.pc, ok))
                    sub = self.explore(st2, t[4], env)
                    self.append(res, ok, sub)
                return res
            if k == "call":
                dest, fname, argops, ret_bb = t[1], t[2], t[3], t[4]
                args = [self.operand(st, a) for a in argops]
                dest_ty = st.func.local_types.get(dest[1]) if dest and not dest[2] else None
                st.cur_bb = bb
                outcome = self.call(st, fname, args, dest_ty)
                # outcome: list of (cond, value|Panic, heap-after|None)
                if len(outcome) == 1 and outcome[0][0] is True:
                    val, hp = outcome[0][1], outcome[0][2]
                    if isinstance(val, Panic):
                        return Outcome([], [(True, val.msg)])
                    if ret_bb is None:
                        return Outcome([], [(True, "diverging call returned: " + fname)])
                    if hp is not None:
                        self.adopt_heap(st, hp)
                    if dest is not None:
                        self.write_place(st, dest, val)
                    bb = ret_bb
                    continue
                res = Outcome([], [], [])
                for cond, val, hp in outcome:
                    if not ctx.feasible(st.pc, cond):
                        continue
                    if isinstance(val, Panic):
                        res.panics.append((cond, val.msg))
                        continue
                    st2 = State(st.frame, func, dict(st.locals), self.copy_heap(st.heap), b_and(st.pc, cond))
                    if hp is not None:
                        self.adopt_heap(st2, hp)
                    if dest is not None:
                        self.write_place(st2, dest, val)
                    sub = self.explore(st2, ret_bb, env)
                    self.append(res, cond, sub)
                return res
            raise ExecError("terminator " + k)

    def compress(self, res: Outcome):
        """Collapse a summary into one return case (ite-chain over scalar values) and one case per panic message, so
        that shared continuations stay shared (DAG) instead of being flattened into path lists. Only used for
        frames without callers (locals/heap of the returning frame are dropped)."""
        if res.stops:
            return res
        rets = res.rets
        if len(rets) > 1 and all(((isinstance(v, (int, bool)) or is_sym(v)) and not isinstance(v, tuple)) or v == UNIT for _, v, _, _ in rets):
            conds = [z3bool(c) for c, _, _, _ in rets]
            val = rets[-1][1]
            for c, v, _, _ in reversed(rets[:-1]):
                val = ite(c, v, val)
            rets = [(z3.Or(*conds), val, None, None)]
        elif len(rets) > 1 and all(isinstance(v, tuple) and v[0] in ("agg", "enum") for _, v, _, _ in rets):
            try:
                conds = [z3bool(c) for c, _, _, _ in rets]
                val = rets[-1][1]
                for c, v, _, _ in reversed(rets[:-1]):
                    val = ite(c, v, val)
                rets = [(z3.Or(*conds), val, None, None)]
            except ExecError:
                pass
        by_msg = {}
        for c, m in res.panics:
            by_msg.setdefault(m, []).append(z3bool(c))
        panics = [(z3.Or(*cs) if len(cs) > 1 else cs[0], m) for m, cs in by_msg.items()]
        return Outcome(rets, panics, [], res.frame)

    def closure_function(self, ctype):
        """MIR body of a closure, located by the closure type that its first parameter mentions."""
        cache = self.ctx.const_cache.setdefault("__closures__", {})
        if ctype in cache:
            return cache[ctype]
        for name, f in self.ctx.funcs.items():
            if isinstance(f, tuple) or "{closure#" not in name:
                continue
            if f.args and ctype in f.args[0][1]:
                cache[ctype] = f
                return f
        raise ExecError("no MIR body for closure " + ctype)

    def call_inplace(self, st, func, args):
        """Inline `func` with heap effects, requiring a single non-panicking outcome; the caller's state is updated in place."""
        ensure_parsed(func)
        heap = self.copy_heap(st.heap)
        heap[st.frame] = dict(st.locals)
        sub = self.run_function(func, args, heap=heap, pc=st.pc)
        rets = [r for r in sub.rets if r[0] is not False]
        if len(rets) != 1 or sub.panics:
            raise ExecError("call_inplace: %s has %d outcomes / %d panics" % (func.name, len(rets), len(sub.panics)))
        self.adopt_heap(st, rets[0][3])
        return rets[0][1]

    def call_value(self, st, func, args):
        """Inline `func` and merge its outcomes into ONE value (ite chain); returns (value, panic_condition)."""
        ensure_parsed(func)
        heap = self.copy_heap(st.heap)
        heap[st.frame] = dict(st.locals)
        sub = self.run_function(func, args, heap=heap, pc=st.pc)
        if not sub.rets:
            raise ExecError("inlined call never returns: " + func.name)
        val = sub.rets[-1][1]
        for c, v, _, _ in reversed(sub.rets[:-1]):
            val = ite(c, v, val)
        pan = False
        for c, m in sub.panics:
            pan = b_or(pan, c)
        return val, pan

    def adopt_heap(self, st, hp):
        """After an inlined call: take over the (possibly modified) caller frames from the callee's heap view."""
        for fid, locs in hp.items():
            if fid == st.frame:
                st.locals = dict(locs)
            elif fid in st.heap:
                st.heap[fid] = dict(locs)

    def heap_key(self, st):
        if not st.heap:
            return ()
        return tuple(sorted((fid, tuple(sorted((l, vkey(v)) for l, v in locs.items()))) for fid, locs in st.heap.items()))

    def append(self, res: Outcome, cond, sub: Outcome):
        for c, v, l, h in sub.rets:
            res.rets.append((b_and(cond, c), v, l, h))
        for c, m in sub.panics:
            res.panics.append((b_and(cond, c), m))
        for c, b, l, h in sub.stops:
            res.stops.append((b_and(cond, c), b, l, h))

    def fork(self, st, branches, env):
        res = Outcome([], [], [])
        feas = [(c, tb) for c, tb in branches if self.ctx.feasible(st.pc, c)]
        for c, tb in feas:
            st2 = State(st.frame, st.func, dict(st.locals), self.copy_heap(st.heap), b_and(st.pc, c))
            sub = self.explore(st2, tb, env)
            self.append(res, c, sub)
        return res

    def copy_heap(self, heap):
        return {fid: dict(l) for fid, l in heap.items()}

    def call(self, st, fname, args, dest_ty):
        """-> [(cond, value | Panic, heap_after | None)]"""
        ctx = self.ctx
        for rx, fn in ctx.models:
            if rx.search(fname):
                ctx.calls_seen[fname] = "model"
                r = fn(self, st, args, dest_ty, fname)
                if isinstance(r, tuple) and len(r) == 2 and r[0] == "__with_heap__":
                    return r[1]
                if isinstance(r, list):
                    return [(c, v, None) for c, v in r]
                return [(True, r, None)]
        f = ctx.find_func(fname)
        if f is None or isinstance(f, tuple):
            raise ExecError("no model and no MIR body for call: " + fname)
        ctx.calls_seen[fname] = "inlined"
        ensure_parsed(f)
        heap = self.copy_heap(st.heap)
        heap[st.frame] = dict(st.locals)
        sub = self.run_function(f, args, heap=heap, pc=st.pc)
        out = []
        for c, v, l, h in sub.rets:
            out.append((c, v, h))
        for c, m in sub.panics:
            out.append((c, Panic(m), None))
        return out


@dataclass
class Env:
    memo: dict
    stop_blocks: set
    cut_blocks: set
    live: dict
    onstack: dict


class Panic:
    def __init__(self, msg):
        self.msg = msg


# ---- CFG helpers ------------------------------------------------------------------------------------------------
def successors(blk):
    t = blk.term
    k = t[0]
    if k == "goto":
        return [t[1]]
    if k == "switch":
        return [tb for _, tb in t[2]] + ([t[3]] if t[3] is not None else [])
    if k == "assert":
        return [t[4]]
    if k == "call":
        return [t[4]] if t[4] is not None else []
    if k == "drop":
        return [t[2]]
    return []


def loop_heads(func):
    """Targets of back edges (DFS)."""
    ensure_parsed(func)
    heads, color = set(), {}
    stack = [(0, iter(successors(func.blocks[0])))]
    color[0] = 1
    while stack:
        n, it = stack[-1]
        adv = False
        for s in it:
            if color.get(s, 0) == 0:
                color[s] = 1
                stack.append((s, iter(successors(func.blocks[s]))))
                adv = True
                break
            elif color[s] == 1:
                heads.add(s)
        if not adv:
            color[n] = 2
            stack.pop()
    return heads


def _uses_defs(func):
    def place_uses(place, as_def):
        _, local, proj = place
        u = set()
        for p in proj:
            if p[0] == "index":
                u.add(p[1])
        if not as_def or proj:
            u.add(local)
        return u
    def op_uses(op):
        if op[0] in ("copy", "move"):
            return place_uses(op[1], False)
        return set()
    def rv_uses(rv):
        k = rv[0]
        if k == "use":
            return op_uses(rv[1])
        if k == "binop":
            return op_uses(rv[2]) | op_uses(rv[3])
        if k in ("unop",):
            return op_uses(rv[2])
        if k in ("discr", "len"):
            return place_uses(rv[1], False)
        if k == "ref":
            return place_uses(rv[1], False)
        if k == "cast":
            return op_uses(rv[1])
        if k in ("tuple", "array"):
            u = set()
            for o in rv[1]:
                u |= op_uses(o)
            return u
        if k == "repeat":
            return op_uses(rv[1])
        if k == "struct":
            u = set()
            for _, o in rv[2]:
                u |= op_uses(o)
            return u
        if k == "variant":
            u = set()
            for o in rv[3]:
                u |= op_uses(o)
            return u
        return set()
    info = {}
    addr_taken = set()
    for idx, b in func.blocks.items():
        use, defs = set(), set()
        for s in b.stmts:
            if s[0] == "assign":
                u = rv_uses(s[2]) | place_uses(s[1], True)
                if s[2][0] == "ref":
                    addr_taken.add(s[2][1][1])
                use |= (u - defs)
                if not s[1][2]:
                    defs.add(s[1][1])
            elif s[0] == "assume":
                use |= (op_uses(s[1]) - defs)
        t = b.term
        u = set()
        if t[0] == "switch":
            u = op_uses(t[1])
        elif t[0] == "assert":
            u = op_uses(t[1])
        elif t[0] == "call":
            for a in t[3]:
                u |= op_uses(a)
            if t[1] is not None:
                u |= place_uses(t[1], True)
        elif t[0] == "return":
            u = {0}
        elif t[0] == "drop":
            u = set()
        use |= (u - defs)
        if t[0] == "call" and t[1] is not None and not t[1][2]:
            defs.add(t[1][1])
        info[idx] = (use, defs)
    return info, addr_taken


_live_cache = {}

def liveness(func):
    """live-in sets per block (whole locals; address-taken locals are always live)."""
    if func.name in _live_cache and _live_cache[func.name][0] is func:
        return _live_cache[func.name][1]
    ensure_parsed(func)
    info, addr = _uses_defs(func)
    live = {i: set() for i in func.blocks}
    changed = True
    while changed:
        changed = False
        for i, b in func.blocks.items():
            out = set()
            for s in successors(b):
                out |= live[s]
            use, defs = info[i]
            new = use | (out - defs) | addr
            if new != live[i]:
                live[i] = new
                changed = True
    _live_cache[func.name] = (func, live)
    return live


def postdominators(func):
    """immediate-ish post-dominator sets: pdom[b] = set of blocks that post-dominate b (panic edges ignored)."""
    ensure_parsed(func)
    blocks = list(func.blocks)
    exits = [i for i, b in func.blocks.items() if b.term[0] == "return"]
    allb = set(blocks)
    pdom = {b: set(allb) for b in blocks}
    for e in exits:
        pdom[e] = {e}
    changed = True
    while changed:
        changed = False
        for b in blocks:
            if b in exits:
                continue
            succ = [s for s in successors(func.blocks[b]) if func.blocks[s].term[0] != "unreachable" or True]
            if not succ:
                new = {b}
            else:
                inter = None
                for s in succ:
                    inter = set(pdom[s]) if inter is None else inter & pdom[s]
                new = {b} | (inter or set())
            if new != pdom[b]:
                pdom[b] = new
                changed = True
    return pdom
