"""Parser for the textual MIR that `rustc -Zunpretty=mir` prints (the subset Humphrey's kernels use).

Produces Function objects: locals with types, debug-name map, basic blocks with parsed statements
and terminators. Operands/places/rvalues are parsed into small tuples interpreted by exec.py.
"""
import re
from dataclasses import dataclass, field


class MirParseError(Exception):
    pass


@dataclass
class Block:
    idx: int
    stmts: list = field(default_factory=list)     # [(place, rvalue)] assignments; other statement kinds dropped
    term: tuple = None                             # ('goto', bb) | ('switch', operand, [(val, bb)], otherwise) | ('assert', cond_operand, expected, msg, bb)
                                                   # | ('call', dest_place, fname, [operands], ret_bb) | ('return',) | ('unreachable',) | ('drop', place, bb)
    raw: list = field(default_factory=list)


@dataclass
class Function:
    name: str
    args: list            # [(local, type)]
    ret_type: str
    local_types: dict     # local -> type string
    debug: dict           # debug name -> [place strings] (a name may be shadowed: several entries)
    blocks: dict          # idx -> Block
    is_const: bool = False
    text: str = ""


def split_top(s, sep=","):
    """Split on `sep` at nesting depth 0 of (), [], {}, <>; quotes respected."""
    out, depth, cur, i = [], 0, [], 0
    inq = None
    while i < len(s):
        c = s[i]
        if inq:
            cur.append(c)
            if c == "\\":
                i += 1
                if i < len(s):
                    cur.append(s[i])
            elif c == inq:
                inq = None
        elif c in "\"":
            inq = c
            cur.append(c)
        elif c == "'" and re.match(r"'(\\.|[^'\\])'", s[i:]):
            m = re.match(r"'(\\.|[^'\\])'", s[i:])
            cur.append(m.group(0))
            i += len(m.group(0)) - 1
        elif c in "([{":
            depth += 1
            cur.append(c)
        elif c in ")]}":
            depth -= 1
            cur.append(c)
        elif c == "<" and not (i + 1 < len(s) and s[i + 1] in "=< ") and not (i > 0 and s[i - 1] == " "):
            depth += 1
            cur.append(c)
        elif c == ">" and depth > 0 and not (i > 0 and s[i - 1] in "-=") and not (i > 0 and s[i - 1] == " "):
            depth -= 1
            cur.append(c)
        elif s.startswith(sep, i) and depth == 0:
            out.append("".join(cur).strip())
            cur = []
            i += len(sep) - 1
        else:
            cur.append(c)
        i += 1
    last = "".join(cur).strip()
    if last or out:
        out.append(last)
    return out


def parse_place(s):
    """-> ('place', local:int, projections tuple) ; projections: ('field', i) | ('deref',) | ('downcast', name) | ('index', local) | ('cindex', i) | ('subslice', a, b, from_end)"""
    s = s.strip()
    m = re.fullmatch(r"_(\d+)", s)
    if m:
        return ("place", int(m.group(1)), ())
    if s.startswith("(*") and s.endswith(")"):
        inner = parse_place(s[2:-1])
        return ("place", inner[1], inner[2] + (("deref",),))
    # (PLACE.N: Type)
    if s.startswith("(") and s.endswith(")"):
        body = s[1:-1]
        # find top-level ": " separating type
        parts = split_top(body, ": ")
        if len(parts) >= 2:
            lhs = parts[0]
            m = re.fullmatch(r"(.*)\.(\d+)", lhs, re.S)
            if m:
                inner = parse_place(m.group(1))
                return ("place", inner[1], inner[2] + (("field", int(m.group(2))),))
        m = re.fullmatch(r"(.*) as (\w+)", body, re.S)
        if m:
            inner = parse_place(m.group(1))
            return ("place", inner[1], inner[2] + (("downcast", m.group(2)),))
        m = re.fullmatch(r"(.*) as variant#(\d+)", body, re.S)
        if m:
            inner = parse_place(m.group(1))
            return ("place", inner[1], inner[2] + (("downcast", int(m.group(2))),))
    m = re.fullmatch(r"(.*)\[_(\d+)\]", s, re.S)
    if m:
        inner = parse_place(m.group(1))
        return ("place", inner[1], inner[2] + (("index", int(m.group(2))),))
    m = re.fullmatch(r"(.*)\[(-?)(\d+) of (\d+)\]", s, re.S)
    if m:
        inner = parse_place(m.group(1))
        return ("place", inner[1], inner[2] + (("cindex", int(m.group(3)), m.group(2) == "-"),))
    m = re.fullmatch(r"(.*)\[(\d+):(-?)(\d*)\]", s, re.S)
    if m:
        inner = parse_place(m.group(1))
        return ("place", inner[1], inner[2] + (("subslice", int(m.group(2)), int(m.group(4) or 0), m.group(3) == "-"),))
    raise MirParseError("place: " + s)


INT_SUFFIX = r"(i8|i16|i32|i64|i128|isize|u8|u16|u32|u64|u128|usize)"


def parse_const(s):
    """-> ('const', kind, value[, type])"""
    s = s.strip()
    m = re.fullmatch(r"(-?\d+)_" + INT_SUFFIX, s)
    if m:
        return ("const", "int", int(m.group(1)), m.group(2))
    if s == "true":
        return ("const", "bool", True, "bool")
    if s == "false":
        return ("const", "bool", False, "bool")
    if s == "()":
        return ("const", "unit", (), "()")
    m = re.fullmatch(r"'(.*)'", s, re.S)
    if m:
        body = m.group(1)
        if body.startswith("\\"):
            esc = {"\\n": "\n", "\\r": "\r", "\\t": "\t", "\\\\": "\\", "\\'": "'", "\\0": "\0", '\\"': '"'}
            if body in esc:
                ch = esc[body]
            else:
                mu = re.fullmatch(r"\\u\{([0-9a-fA-F]+)\}", body)
                ch = chr(int(mu.group(1), 16)) if mu else body[-1]
        else:
            ch = body
        return ("const", "char", ord(ch), "char")
    m = re.fullmatch(r'b?"(.*)"', s, re.S)
    if m:
        raw = m.group(1)
        try:
            val = bytes(raw, "utf-8").decode("unicode_escape").encode("latin-1").decode("utf-8") if "\\" in raw else raw
        except Exception:
            val = raw
        if s.startswith("b"):
            # exact bytes of a byte-string constant (format templates are not UTF-8): side table keyed by the string value
            try:
                BYTES_CONST[val] = bytes(raw, "utf-8").decode("unicode_escape").encode("latin-1") if "\\" in raw else raw.encode("utf-8")
            except Exception:
                pass
        return ("const", "bytes" if s.startswith("b") else "str", val, "&str")
    m = re.fullmatch(INT_SUFFIX + r"::(MIN|MAX)", s)
    if m:
        ty, w = m.group(1), m.group(2)
        bits = {"i8": 8, "i16": 16, "i32": 32, "i64": 64, "i128": 128, "isize": 64, "u8": 8, "u16": 16, "u32": 32, "u64": 64, "u128": 128, "usize": 64}[ty]
        if ty.startswith("i"):
            v = -(1 << (bits - 1)) if w == "MIN" else (1 << (bits - 1)) - 1
        else:
            v = 0 if w == "MIN" else (1 << bits) - 1
        return ("const", "int", v, ty)
    m = re.fullmatch(r"(-?[\d.]+(?:[eE][-+]?\d+)?)(f32|f64)", s)
    if m:
        return ("const", "float", float(m.group(1)), m.group(2))
    if s.startswith("ZeroSized: "):
        return ("const", "zst", s[len("ZeroSized: "):], None)
    # named constant / promoted / fn item / ZST
    return ("const", "named", s, None)


def parse_operand(s):
    s = s.strip()
    if s.startswith("no_retag "):
        s = s[len("no_retag "):]
    if s.startswith("copy "):
        return ("copy", parse_place(s[5:]))
    if s.startswith("move "):
        return ("move", parse_place(s[5:]))
    if s.startswith("const "):
        return parse_const(s[6:])
    if re.fullmatch(r"[A-Za-z_][\w:<>&', ]*", s):
        return ("const", "fnitem", s, None)      # a bare function item passed as an argument
    raise MirParseError("operand: " + s)


BYTES_CONST = {}

BINOPS = {"Add", "Sub", "Mul", "Div", "Rem", "BitAnd", "BitOr", "BitXor", "Shl", "Shr", "Eq", "Ne", "Lt", "Le", "Gt", "Ge",
          "AddWithOverflow", "SubWithOverflow", "MulWithOverflow", "AddUnchecked", "SubUnchecked", "MulUnchecked", "ShlUnchecked", "ShrUnchecked", "Offset", "Cmp"}
UNOPS = {"Not", "Neg", "PtrMetadata"}


def parse_rvalue(s):
    s = s.strip()
    if s.startswith("no_retag "):
        s = s[len("no_retag "):]
    if s.startswith(("copy ", "move ", "const ")) and " as " not in s.split("(")[0]:
        # plain operand (beware 'move _3 as u8 (IntToInt)')
        try:
            return ("use", parse_operand(s))
        except MirParseError:
            pass
    m = re.fullmatch(r"(\w+)\((.*)\)", s, re.S)
    if m and m.group(1) in BINOPS:
        a = split_top(m.group(2))
        return ("binop", m.group(1), parse_operand(a[0]), parse_operand(a[1]))
    if m and m.group(1) in UNOPS:
        return ("unop", m.group(1), parse_operand(m.group(2)))
    if m and m.group(1) == "discriminant":
        return ("discr", parse_place(m.group(2)))
    if m and m.group(1) == "Len":
        return ("len", parse_place(m.group(2)))
    m = re.fullmatch(r"&(mut |raw const |raw mut |)(.*)", s, re.S)
    if m and not s.startswith("&&"):
        try:
            return ("ref", parse_place(m.group(2)), m.group(1).strip())
        except MirParseError:
            pass
    m = re.fullmatch(r"(.*) as (.*?) \((\w+(?:\([^)]*\))?)\)", s, re.S)
    if m:
        return ("cast", parse_operand(m.group(1)), m.group(2).strip(), m.group(3))
    # array repeat [x; N]
    m = re.fullmatch(r"\[(.*); (\d+)(?:_usize)?\]", s, re.S)
    if m:
        return ("repeat", parse_operand(m.group(1)), int(m.group(2)))
    if s.startswith("[") and s.endswith("]"):
        return ("array", [parse_operand(x) for x in split_top(s[1:-1]) if x])
    if s.startswith("(") and s.endswith(")"):
        items = [x for x in split_top(s[1:-1]) if x]
        return ("tuple", [parse_operand(x) for x in items])
    # closure aggregate: {closure@file:l:c: l:c} { cap: op, ... }  (or a bare closure type for a capture-less closure)
    if s.startswith("{closure@") or s.startswith("{coroutine@"):
        k = s.index("}")
        ctype = s[:k + 1]
        rest = s[k + 1:].strip()
        fields = []
        if rest.startswith("{") and rest.endswith("}"):
            for part in split_top(rest[1:-1].strip()):
                if not part:
                    continue
                kk, v = part.split(": ", 1)
                fields.append((kk.strip(), parse_operand(v)))
        return ("closure", ctype, fields)
    # struct aggregate: Path { f: op, ... }
    m = re.fullmatch(r"([\w:<>,' &\[\];]+?) \{ (.*) \}", s, re.S)
    if m:
        fields = []
        for part in split_top(m.group(2)):
            if not part:
                continue
            k, v = part.split(": ", 1)
            fields.append((k.strip(), parse_operand(v)))
        return ("struct", m.group(1).strip(), fields)
    # enum variant aggregate: Path::Variant(op, ...) or unit variant Path::Variant
    m = re.fullmatch(r"([\w:<>,' &\[\];()]+?)::(\w+)\((.*)\)", s, re.S)
    if m:
        return ("variant", m.group(1), m.group(2), [parse_operand(x) for x in split_top(m.group(3)) if x])
    m = re.fullmatch(r"([\w:<>,' &\[\];()]+)::(\w+)", s, re.S)
    if m:
        return ("variant", m.group(1), m.group(2), [])
    # tuple-struct aggregate: Name(op, ...)
    m = re.fullmatch(r"([A-Z]\w*(?:<.*?>)?)\((.*)\)", s, re.S)
    if m:
        return ("tuple", [parse_operand(x) for x in split_top(m.group(2)) if x])
    raise MirParseError("rvalue: " + s)


def parse_targets(s):
    """'[0: bb18, otherwise: bb11]' / '[return: bb1, unwind continue]' -> dict"""
    d = {}
    for part in split_top(s.strip()[1:-1]):
        if ": " in part:
            k, v = part.split(": ", 1)
            d[k.strip()] = v.strip()
        else:
            d[part.strip()] = None
    return d


def bbnum(s):
    m = re.fullmatch(r"bb(\d+)", s.strip())
    if not m:
        raise MirParseError("bb: " + s)
    return int(m.group(1))


def parse_terminator(s):
    s = s.strip()
    if s == "return":
        return ("return",)
    if s == "unreachable":
        return ("unreachable",)
    if s.startswith("resume") or s.startswith("terminate"):
        return ("unreachable",)
    m = re.fullmatch(r"goto -> bb(\d+)", s)
    if m:
        return ("goto", int(m.group(1)))
    m = re.fullmatch(r"switchInt\((.*)\) -> (\[.*\])", s, re.S)
    if m:
        t = parse_targets(m.group(2))
        cases, other = [], None
        for k, v in t.items():
            if k == "otherwise":
                other = bbnum(v)
            else:
                km = re.fullmatch(r"(-?\d+)(?:_\w+)?", k)
                cases.append((int(km.group(1)), bbnum(v)))
        return ("switch", parse_operand(m.group(1)), cases, other)
    m = re.fullmatch(r"assert\((!?)(.*?), (\".*\")(.*)\) -> (\[.*\])", s, re.S)
    if m:
        t = parse_targets(m.group(5))
        return ("assert", parse_operand(m.group(2)), m.group(1) != "!", m.group(3), bbnum(t["success"]))
    m = re.fullmatch(r"drop\((.*)\) -> (\[.*\])", s, re.S)
    if m:
        t = parse_targets(m.group(2))
        return ("drop", parse_place(m.group(1)), bbnum(t["return"]))
    # call:  DEST = FUNC(ARGS) -> [return: bbN, unwind ...]   |   FUNC(ARGS) -> unwind ...  (diverging)
    m = re.fullmatch(r"(?:(.*?) = )?(.*)\((.*)\) -> (\[.*\]|unwind .*|bb\d+)", s, re.S)
    if m:
        dest = parse_place(m.group(1)) if m.group(1) else None
        # function name may itself contain parens in generic args; split at the LAST top-level '(' : redo carefully
        full = s[(len(m.group(1)) + 3) if m.group(1) else 0: s.rindex(" -> ")]
        depth = 0
        k = None
        for i in range(len(full) - 1, -1, -1):
            c = full[i]
            if c == ")":
                depth += 1
            elif c == "(":
                depth -= 1
                if depth == 0:
                    k = i
                    break
        fname, argstr = full[:k].strip(), full[k + 1:-1]
        tgt = m.group(4)
        ret = None
        if tgt.startswith("["):
            t = parse_targets(tgt)
            if t.get("return"):
                ret = bbnum(t["return"])
        args = [parse_operand(x) for x in split_top(argstr) if x]
        return ("call", dest, fname, args, ret)
    raise MirParseError("terminator: " + s)


def parse_statement(s):
    s = s.strip()
    if s.startswith(("StorageLive", "StorageDead", "nop", "FakeRead", "PlaceMention", "AscribeUserType", "Retag", "Coverage", "ConstEvalCounter", "Deinit", "BackwardIncompatibleDropHint")):
        return None
    if s.startswith("discriminant(") and " = " in s:
        m = re.fullmatch(r"discriminant\((.*)\) = (\d+)", s)
        return ("setdiscr", parse_place(m.group(1)), int(m.group(2)))
    if s.startswith("assume("):
        return ("assume", parse_operand(s[7:-1]))
    parts = s.split(" = ", 1)
    if len(parts) != 2:
        raise MirParseError("statement: " + s)
    return ("assign", parse_place(parts[0]), parse_rvalue(parts[1]))


HEADER_FN = re.compile(r"^fn (.*?)\((.*)\) -> (.*) \{$")
HEADER_FN_UNIT = re.compile(r"^fn (.*?)\((.*)\) \{$")
_NAME = r"((?:<impl at [^>]*>|[^:<]|::|<)*?)"       # item paths may contain `<impl at file:l:c: l:c>` (with ": " inside)
HEADER_CONST = re.compile(r"^(?:const|static(?: mut)?) " + _NAME + r": (.*) = \{$")
SIMPLE_CONST = re.compile(r"^const " + _NAME + r": (.*?) = const (.*);$")


def parse_mir(text):
    """-> dict name -> Function (also simple consts as ('const-value', parsed const))."""
    funcs = {}
    lines = text.split("\n")
    i = 0
    n = len(lines)
    while i < n:
        line = lines[i]
        m = SIMPLE_CONST.match(line)
        if m:
            funcs[m.group(1)] = ("constval", parse_const(m.group(3)))
            i += 1
            continue
        mf = HEADER_FN.match(line) or HEADER_FN_UNIT.match(line)
        mc = HEADER_CONST.match(line) if not mf else None
        if not (mf or mc):
            i += 1
            continue
        j = i + 1
        while j < n and lines[j] != "}":
            j += 1
        body = lines[i + 1:j]
        if mf:
            name = mf.group(1)
            args = []
            for a in split_top(mf.group(2)):
                if not a:
                    continue
                am = re.match(r"_(\d+): (.*)", a)
                if am:
                    args.append((int(am.group(1)), am.group(2)))
            ret = mf.group(3) if mf.re is HEADER_FN else "()"
            f = Function(name, args, ret, {}, {}, {}, False)
        else:
            f = Function(mc.group(1), [], mc.group(2), {}, {}, {}, True)
        f.text = "\n".join(lines[i:j + 1])
        for a, t in f.args:
            f.local_types[a] = t
        f._body = body
        funcs[f.name] = f
        i = j + 1
    return funcs


def ensure_parsed(f: Function):
    """Parse the body lazily (only functions that are actually executed need to be in the supported subset)."""
    if f.blocks or not hasattr(f, "_body"):
        return f
    cur = None
    pending = ""
    for raw in f._body:
        s = raw.strip()
        if not s or s.startswith("//"):
            continue
        m = re.match(r"let (?:mut )?_(\d+): (.*);$", s)
        if m and cur is None:
            f.local_types[int(m.group(1))] = m.group(2)
            continue
        m = re.match(r"debug (\w+) => (.*);$", s)
        if m:
            f.debug.setdefault(m.group(1), []).append(m.group(2))
            continue
        if s.startswith("scope ") or s == "}":
            if s == "}" and cur is not None and raw.startswith("    }"):
                cur = None
            continue
        m = re.match(r"bb(\d+)(?: \(cleanup\))?: \{$", s)
        if m:
            cur = Block(int(m.group(1)))
            f.blocks[cur.idx] = cur
            continue
        if cur is None:
            continue
        pending += (" " if pending else "") + s
        if not pending.endswith(";"):
            continue
        stmt = pending[:-1]
        pending = ""
        cur.raw.append(stmt)
    # second pass: classify raw statements (last one of each block is the terminator)
    for b in f.blocks.values():
        if not b.raw:
            raise MirParseError("empty block bb%d in %s" % (b.idx, f.name))
        for st in b.raw[:-1]:
            ps = parse_statement(st)
            if ps is not None:
                b.stmts.append(ps)
        b.term = parse_terminator(b.raw[-1])
    return f
