"""std models for the HTTP request parser (C02, engine M, integer mode): BufReader over a NetStream, byte vectors as strings
(ASCII only: one byte = one char), str::split / splitn / strip_suffix / trim_start / parse::<usize>, Vec<Header>."""
import re
from dataclasses import dataclass, replace
import z3

from .exec import *
from .models import M, SymStr, ConcStr, str_chars, _simp, _substr
from .models_json import VecM
from .models_ws import NetStream, ref_to, deref_all, elems
from .models_sha import SliceIter


@dataclass(frozen=True)
class BufRd:
    """BufReader<&mut T>: just the reference to the underlying stream (no read-ahead is observable through read_until/read_exact)."""
    inner: object


@dataclass(frozen=True)
class SplitIt:
    """str::split(char) / splitn(n, char): remaining text, separator, pieces still allowed (None = unlimited), finished flag."""
    s: object
    sep: object
    left: object
    done: bool = False


def mkstr(chars, name="s"):
    chars = tuple(chars)
    if all(isinstance(c, int) for c in chars):
        return ConcStr("".join(chr(c) for c in chars))
    return SymStr(name, chars)


def make_models():
    def state_copy(ex, st):
        return State(st.frame, st.func, dict(st.locals), ex.copy_heap(st.heap), st.pc)

    def heap_of(st2):
        h = dict(st2.heap)
        h[st2.frame] = dict(st2.locals)
        return h

    def stream_of(ex, st, rd_ref):
        """reader reference -> reference to the NetStream cell"""
        r = ref_to(ex, st, rd_ref)
        v = ex.deref(r, st)
        if isinstance(v, BufRd):
            return ref_to(ex, st, v.inner)
        if isinstance(v, NetStream):
            return r
        raise ExecError("not a reader: %r" % (v,))

    def m_bufreader_new(ex, st, args, dest_ty, fname):
        return BufRd(args[0])

    def m_read_until(ex, st, args, dest_ty, fname):
        sref = stream_of(ex, st, args[0])
        s = ex.deref(sref, st)
        delim = args[1]
        vref = ref_to(ex, st, args[2])
        vec = ex.deref(vref, st)
        cases = []
        none_before = True
        for j in range(s.pos, len(s.inp)):
            hit = _simp(s.inp[j] == delim)
            cond = _simp(b_and(none_before, hit))
            if cond is not False and ex.ctx.feasible(st.pc, z3bool(cond) if cond is not True else True):
                st2 = state_copy(ex, st)
                ex.write_ref(st2, vref, VecM(tuple(vec.items) + tuple(s.inp[s.pos:j + 1])))
                ex.write_ref(st2, sref, replace(s, pos=j + 1))
                cases.append((cond, enum("Ok", j + 1 - s.pos), heap_of(st2)))
            none_before = _simp(b_and(none_before, b_not(hit)))
            if none_before is False:
                break
        if none_before is not False and ex.ctx.feasible(st.pc, z3bool(none_before) if none_before is not True else True):
            # the peer closed before a delimiter: read_until returns what there is
            st2 = state_copy(ex, st)
            ex.write_ref(st2, vref, VecM(tuple(vec.items) + tuple(s.inp[s.pos:])))
            ex.write_ref(st2, sref, replace(s, pos=len(s.inp)))
            cases.append((none_before, enum("Ok", len(s.inp) - s.pos), heap_of(st2)))
        return ("__with_heap__", cases)

    def m_read_exact(ex, st, args, dest_ty, fname):
        sref = stream_of(ex, st, args[0])
        s = ex.deref(sref, st)
        bref = ref_to(ex, st, args[1])
        buf = ex.deref(bref, st)
        n = len(ex.elements(buf))
        if s.pos + n > len(s.inp):
            ex.write_ref(st, sref, replace(s, pos=len(s.inp)))
            return enum("Err", ("opaque", "io::Error:UnexpectedEof"))
        data = s.inp[s.pos:s.pos + n]
        ex.write_ref(st, bref, buf.with_elements(tuple(data)) if hasattr(buf, "with_elements") else ("agg", tuple(data)))
        ex.write_ref(st, sref, replace(s, pos=s.pos + n))
        return enum("Ok", UNIT)

    def m_from_utf8(ex, st, args, dest_ty, fname):
        items = elems(ex, st, args[0])
        ok = True
        for b in items:
            ok = b_and(ok, _simp(b < 128))
        ok = _simp(ok)
        if ok is not True and ex.ctx.feasible(st.pc, z3bool(b_not(ok))):
            raise ExecError("from_utf8 on bytes that may be non-ASCII (outside the encoding)")
        return enum("Ok", ("refval", mkstr(items, "line")))

    def m_vec_insert(ex, st, args, dest_ty, fname):
        r = ref_to(ex, st, args[0])
        v = ex.deref(r, st)
        i = args[1]
        items = list(v.items)
        if not isinstance(i, int) or i > len(items):
            return Panic("insertion index out of bounds")
        items.insert(i, args[2])
        ex.write_ref(st, r, VecM(tuple(items)))
        return UNIT

    def m_from_elem(ex, st, args, dest_ty, fname):
        v, n = args
        if is_sym(n):
            n = z3.simplify(n)
            if not z3.is_int_value(n):
                raise ExecError("vec![x; n] with symbolic n")
            n = n.as_long()
        if n > (1 << 20):
            raise ExecError("vec![x; %d]: allocation beyond the encoding's bound" % n)
        return VecM(tuple(v for _ in range(n)))

    def m_vec_new(ex, st, args, dest_ty, fname):
        return VecM(())

    def m_vec_push(ex, st, args, dest_ty, fname):
        r = ref_to(ex, st, args[0])
        v = ex.deref(r, st)
        ex.write_ref(st, r, VecM(tuple(v.items) + (args[1],)))
        return UNIT

    def m_deref_same(ex, st, args, dest_ty, fname):
        return ref_to(ex, st, args[0])

    # ---- str ------------------------------------------------------------------------------------------------------------------
    def sval(ex, st, a):
        v = deref_all(ex, st, a)
        if not isinstance(v, (SymStr, ConcStr)):
            raise ExecError("expected a string, got %r" % (v,))
        return v

    def m_split(ex, st, args, dest_ty, fname):
        return SplitIt(sval(ex, st, args[0]), args[1], None)

    def m_splitn(ex, st, args, dest_ty, fname):
        return SplitIt(sval(ex, st, args[0]), args[2], args[1])

    def m_split_next(ex, st, args, dest_ty, fname):
        r = ref_to(ex, st, args[0])
        it = ex.deref(r, st)
        if it.done or it.left == 0:
            return NONE
        cs = str_chars(it.s)
        if it.left == 1:
            ex.write_ref(st, r, replace(it, done=True, left=0))
            return some(("refval", it.s))
        cases = []
        none_before = True
        for j in range(len(cs)):
            hit = _simp(cs[j] == it.sep)
            cond = _simp(b_and(none_before, hit))
            if cond is not False and ex.ctx.feasible(st.pc, z3bool(cond) if cond is not True else True):
                st2 = state_copy(ex, st)
                ex.write_ref(st2, r, replace(it, s=_substr(it.s, j + 1, len(cs)), left=None if it.left is None else it.left - 1))
                cases.append((cond, some(("refval", _substr(it.s, 0, j))), heap_of(st2)))
            none_before = _simp(b_and(none_before, b_not(hit)))
            if none_before is False:
                break
        if none_before is not False and ex.ctx.feasible(st.pc, z3bool(none_before) if none_before is not True else True):
            st2 = state_copy(ex, st)
            ex.write_ref(st2, r, replace(it, done=True))
            cases.append((none_before, some(("refval", it.s)), heap_of(st2)))
        return ("__with_heap__", cases)

    def m_strip_suffix_str(ex, st, args, dest_ty, fname):
        s = sval(ex, st, args[0])
        suf = str_chars(sval(ex, st, args[1]))
        cs = str_chars(s)
        if len(suf) > len(cs):
            return NONE
        c = True
        for x, y in zip(cs[len(cs) - len(suf):], suf):
            c = b_and(c, _simp(x == y))
        c = _simp(c)
        hit = some(("refval", _substr(s, 0, len(cs) - len(suf))))
        if c is True:
            return hit
        if c is False:
            return NONE
        return [(c, hit), (b_not(c), NONE)]

    WS = [(0x09, 0x0D), (0x20, 0x20), (0x85, 0x85), (0xA0, 0xA0)]       # White_Space below 0x100 (ASCII-only strings here)

    def is_ws(c):
        if is_sym(c):
            return _simp(z3.Or(*[(c == a) if a == b else z3.And(c >= a, c <= b) for a, b in WS]))
        return any(a <= c <= b for a, b in WS)

    def m_trim_start(ex, st, args, dest_ty, fname):
        s = sval(ex, st, args[0])
        cs = str_chars(s)
        cases = []
        allws = True
        for j in range(len(cs) + 1):
            cond = allws if j == len(cs) else _simp(b_and(allws, b_not(is_ws(cs[j]))))
            if cond is not False and ex.ctx.feasible(st.pc, z3bool(cond) if cond is not True else True):
                cases.append((cond, ("refval", _substr(s, j, len(cs)))))
            if cond is True:
                break
            if j < len(cs):
                allws = _simp(b_and(allws, is_ws(cs[j])))
                if allws is False:
                    break
        return cases

    def trim_cases(ex, st, s, at_start, at_end):
        cs = str_chars(s)
        n = len(cs)
        starts = [(True, 0)]
        if at_start:
            starts, allws = [], True
            for j in range(n + 1):
                cond = allws if j == n else _simp(b_and(allws, b_not(is_ws(cs[j]))))
                if cond is not False:
                    starts.append((cond, j))
                if cond is True or j == n:
                    break
                allws = _simp(b_and(allws, is_ws(cs[j])))
                if allws is False:
                    break
        cases = []
        for c1, i in starts:
            ends = [(True, n)]
            if at_end:
                ends, allws = [], True
                for j in range(n, i - 1, -1):
                    cond = allws if j == i else _simp(b_and(allws, b_not(is_ws(cs[j - 1]))))
                    if cond is not False:
                        ends.append((cond, j))
                    if cond is True or j == i:
                        break
                    allws = _simp(b_and(allws, is_ws(cs[j - 1])))
                    if allws is False:
                        break
            for c2, j in ends:
                c = _simp(b_and(c1, c2))
                if c is not False and ex.ctx.feasible(st.pc, z3bool(c) if c is not True else True):
                    cases.append((c, ("refval", _substr(s, i, j))))
        return cases

    def m_trim(ex, st, args, dest_ty, fname):
        return trim_cases(ex, st, sval(ex, st, args[0]), True, True)

    def m_trim_end(ex, st, args, dest_ty, fname):
        return trim_cases(ex, st, sval(ex, st, args[0]), False, True)

    def m_parse_usize(ex, st, args, dest_ty, fname):
        s = sval(ex, st, args[0])
        cs = list(str_chars(s))
        if not all(isinstance(c, int) for c in cs):
            raise ExecError("parse::<usize> of a symbolic string (templates keep Content-Length concrete)")
        t = "".join(chr(c) for c in cs)
        if re.fullmatch(r"\+?[0-9]+", t) and int(t) < (1 << 64):
            return enum("Ok", int(t))
        return enum("Err", ("opaque", "ParseIntError"))

    def m_str_eq(ex, st, args, dest_ty, fname):
        a, b = sval(ex, st, args[0]), sval(ex, st, args[1])
        ca, cb = str_chars(a), str_chars(b)
        if len(ca) != len(cb):
            return False
        r = True
        for x, y in zip(ca, cb):
            r = b_and(r, _simp(x == y))
        return _simp(r)

    def m_str_len(ex, st, args, dest_ty, fname):
        return len(str_chars(sval(ex, st, args[0])))

    def m_str_is_empty(ex, st, args, dest_ty, fname):
        return len(str_chars(sval(ex, st, args[0]))) == 0

    def m_to_string(ex, st, args, dest_ty, fname):
        return sval(ex, st, args[0])

    def m_as_str(ex, st, args, dest_ty, fname):
        return ref_to(ex, st, args[0])

    def m_to_ascii_lowercase_str(ex, st, args, dest_ty, fname):
        s = sval(ex, st, args[0])
        out = []
        for c in str_chars(s):
            if is_sym(c):
                out.append(z3.If(z3.And(c >= 65, c <= 90), c + 32, c))
            else:
                out.append(c + 32 if 65 <= c <= 90 else c)
        return mkstr(out, "lower")

    def m_as_ref_str(ex, st, args, dest_ty, fname):
        v = ex.deref(args[0], st)
        if isinstance(v, tuple) and v and v[0] in ("ref", "refval"):
            return v
        return args[0]

    # ---- Option / Result ------------------------------------------------------------------------------------------------------
    def m_to_error(ex, st, args, dest_ty, fname):
        o, e = args
        return enum("Ok", o[2][0]) if o[1] == "Some" else enum("Err", e)

    def m_opt_unwrap(ex, st, args, dest_ty, fname):
        o = args[0]
        if o[1] == "Some":
            return o[2][0]
        return Panic("called `Option::unwrap()` on a `None` value")

    def m_opt_unwrap_or(ex, st, args, dest_ty, fname):
        o, d = args
        return o[2][0] if o[1] == "Some" else d

    def m_map_err(ex, st, args, dest_ty, fname):
        r, clos = args
        if r[1] == "Ok":
            return r
        f = ex.closure_function(clos[1])
        val, pan = ex.call_value(st, f, [clos, r[2][0]])
        return enum("Err", val)

    def m_opt_map(ex, st, args, dest_ty, fname):
        o, clos = args
        if o[1] == "None":
            return NONE
        f = ex.closure_function(clos[1])
        val, pan = ex.call_value(st, f, [clos, o[2][0]])
        return some(val)

    # ---- Headers --------------------------------------------------------------------------------------------------------------
    def m_to_header(ex, st, args, dest_ty, fname):
        v = args[0]
        inner = deref_all(ex, st, v)
        if isinstance(inner, (SymStr, ConcStr)):
            f = None
            for k, fn in ex.ctx.funcs.items():
                if not isinstance(fn, tuple) and k.endswith("::from") and "headers.rs" in k and fn.ret_type.strip() == "HeaderType" and fn.args and fn.args[0][1].strip() == "&str":
                    f = fn
            if f is None:
                raise ExecError("<HeaderType as From<&str>>::from not found")
            ensure_parsed(f)
            heap = ex.copy_heap(st.heap)
            heap[st.frame] = dict(st.locals)
            sub = ex.run_function(f, [("refval", inner)], heap=heap, pc=st.pc)
            return ("__with_heap__", [(c, v, h) for c, v, l, h in sub.rets] + [(c, Panic(m), None) for c, m in sub.panics])
        if isinstance(inner, tuple) and inner and inner[0] == "enum":
            return inner
        raise ExecError("to_header of %r" % (inner,))

    def m_slice_iter(ex, st, args, dest_ty, fname):
        return SliceIter(ref_to(ex, st, args[0]), 0, False)

    def m_iter_find(ex, st, args, dest_ty, fname):
        r = ref_to(ex, st, args[0])
        it = ex.deref(r, st)
        clos = args[1]
        f = ex.closure_function(clos[1])
        base = it.base
        n = len(ex.elements(ex.deref(base, st)))
        _, (kind, fid, local, proj) = base
        cases = []
        none_before = True
        for i in range(it.pos, n):
            eref = ("ref", (kind, fid, local, tuple(proj) + (("cindex", i, False),)))
            val, pan = ex.call_value(st, f, [("refval", clos), ("refval", eref)])
            hit = _simp(val) if is_sym(val) else bool(val)
            cond = _simp(b_and(none_before, hit))
            if cond is not False:
                cases.append((cond, some(eref)))
            none_before = _simp(b_and(none_before, b_not(hit)))
            if none_before is False:
                break
        if none_before is not False:
            cases.append((none_before, NONE))
        return cases

    def m_string_eq(ex, st, args, dest_ty, fname):
        return m_str_eq(ex, st, args, dest_ty, fname)

    def m_clone(ex, st, args, dest_ty, fname):
        return deref_all(ex, st, args[0])

    def m_address_from_headers(ex, st, args, dest_ty, fname):
        # modelled, not executed: templates carry no X-Forwarded-For field (asserted by the spec), so the address is the peer's
        hs = deref_all(ex, st, args[0])
        for h in ex.elements(hs[1][0]):
            name = h[1][0]
            if name[1].endswith("Custom"):
                cs = str_chars(name[2][0])
                if len(cs) == 15:
                    raise ExecError("a 15-character custom header name may be X-Forwarded-For (outside the encoding)")
        return enum("Ok", ("opaque", "Address(peer)"))

    def m_ctor(name):
        def f(ex, st, args, dest_ty, fname):
            return ("enum", name, tuple(args))
        return f

    return [
        M(r"^BufReader::<&mut T>::new$", m_bufreader_new),
        M(r"^<BufReader<&mut T> as BufRead>::read_until$", m_read_until),
        M(r"^<BufReader<&mut T> as std::io::Read>::read_exact$", m_read_exact),
        M(r"^<T as std::io::Read>::read_exact$", m_read_exact),
        M(r"^(std::str::|core::str::)?from_utf8$", m_from_utf8),
        M(r"^Vec::<u8>::insert$", m_vec_insert),
        M(r"^std::vec::from_elem::<u8>$", m_from_elem),
        M(r"^Vec::<.*>::(with_capacity|new)$", m_vec_new),
        M(r"^<Vec<.*> as Default>::default$", m_vec_new),
        M(r"^Vec::<.*>::push$", m_vec_push),
        M(r"^<Vec<.*> as Deref(Mut)?>::deref(_mut)?$", m_deref_same),
        M(r"^core::str::<impl str>::split::<char>$", m_split),
        M(r"^core::str::<impl str>::splitn::<char>$", m_splitn),
        M(r"^<std::str::Split(N)?<'_, char> as Iterator>::next$", m_split_next),
        M(r"^core::str::<impl str>::strip_suffix::<&str>$", m_strip_suffix_str),
        M(r"^core::str::<impl str>::trim_start$", m_trim_start),
        M(r"^core::str::<impl str>::trim$", m_trim),
        M(r"^core::str::<impl str>::trim_end$", m_trim_end),
        M(r"^core::str::<impl str>::parse::<usize>$", m_parse_usize),
        M(r"^<&?str as PartialEq(<&?str>)?>::eq$", m_str_eq),
        M(r"^<String as PartialEq(<&?str>|<String>)?>::eq$", m_string_eq),
        M(r"^core::str::<impl str>::len$", m_str_len),
        M(r"^(String|core::str::<impl str>)::is_empty$", m_str_is_empty),
        M(r"^String::len$", m_str_len),
        M(r"^<str as ToString>::to_string$", m_to_string),
        M(r"^<String as Clone>::clone$", m_to_string),
        M(r"^<str as ToOwned>::to_owned$", m_to_string),
        M(r"^String::as_str$", m_as_str),
        M(r"^<String as Deref>::deref$", m_as_str),
        M(r"^(core::)?str::<impl str>::to_ascii_lowercase$", m_to_ascii_lowercase_str),
        M(r"^<impl AsRef<str> as AsRef<str>>::as_ref$", m_as_ref_str),
        M(r"^<&str as AsRef<str>>::as_ref$", m_as_ref_str),
        M(r"^<Option<&str> as OptionToRequestResult<&str>>::to_error$", m_to_error),
        M(r"^Option::<&str>::unwrap$", m_opt_unwrap),
        M(r"^Option::<&str>::unwrap_or$", m_opt_unwrap_or),
        M(r"^Result::<.*>::map_err::<RequestError, ", m_map_err),
        M(r"^Option::<&Header>::map::<&str, ", m_opt_map),
        M(r"^<impl HeaderLike as HeaderLike>::to_header$", m_to_header),
        M(r"^<&HeaderType as HeaderLike>::to_header$", m_to_header),
        M(r"^core::slice::<impl \[Header\]>::iter$", m_slice_iter),
        M(r"^<std::slice::Iter<'_, Header> as Iterator>::find::<", m_iter_find),
        M(r"^<HeaderType as Clone>::clone$", m_clone),
        M(r"^Address::from_headers::<", m_address_from_headers),
        M(r"^Result::<.*>::Ok$", m_ctor("Ok")),
        M(r"^Result::<.*>::Err$", m_ctor("Err")),
    ]
