"""std models for the HTTP request parser (C02, engine M, integer mode): BufReader over a NetStream, byte vectors as strings
(ASCII only: one byte = one char), str::split / splitn / strip_suffix / trim_start / parse::<usize>, Vec<Header>."""
import re
from dataclasses import dataclass, replace
import z3

from .exec import *
from .models import M, SymStr, ConcStr, str_chars, _simp, _substr
from .models_json import VecM
from .models_ws import NetStream, ref_to, deref_all, elems
from .models_sha import SliceIter


@dataclass(frozen=True)
class BufRd:
    """BufReader<&mut T>: the reference to the underlying stream plus the read-ahead: `buf_end` is the absolute offset up to which
    bytes have been taken from the stream into the buffer (the logical position stays in the NetStream). A fill takes what ONE read
    of the raw stream returns, i.e. up to the next offset in NetStream.cuts (messages are < 8 KiB, the buffer capacity)."""
    inner: object
    buf_end: int = 0


@dataclass(frozen=True)
class SplitIt:
    """str::split(char) / splitn(n, char): remaining text, separator, pieces still allowed (None = unlimited), finished flag."""
    s: object
    sep: object
    left: object
    done: bool = False


def mkstr(chars, name="s"):
    chars = tuple(chars)
    if all(isinstance(c, int) for c in chars):
        return ConcStr("".join(chr(c) for c in chars))        # (code points: concrete multi-byte characters stay characters)
    return SymStr(name, chars)


def make_models():
    def state_copy(ex, st):
        return State(st.frame, st.func, dict(st.locals), ex.copy_heap(st.heap), st.pc)

    def heap_of(st2):
        h = dict(st2.heap)
        h[st2.frame] = dict(st2.locals)
        return h

    def stream_of(ex, st, rd_ref):
        """reader reference -> reference to the NetStream cell"""
        return rd_of(ex, st, rd_ref)[1]

    def rd_of(ex, st, rd_ref):
        """reader reference -> (reference to the BufRd cell | None, reference to the NetStream cell)"""
        r = ref_to(ex, st, rd_ref)
        v = ex.deref(r, st)
        if isinstance(v, BufRd):
            return r, ref_to(ex, st, v.inner)
        if isinstance(v, NetStream):
            return None, r
        raise ExecError("not a reader: %r" % (v,))

    def boundary_after(s, j):
        """end of the raw read that delivers byte j"""
        for c in s.cuts:
            if c > j:
                return min(c, len(s.inp))
        return len(s.inp)

    def buf_end_of(ex, st, bref, s):
        if bref is None:
            return s.pos
        return max(ex.deref(bref, st).buf_end, s.pos)

    def set_buf_end(ex, st2, bref, be):
        if bref is not None:
            b = ex.deref(bref, st2)
            if b.buf_end != be:
                ex.write_ref(st2, bref, replace(b, buf_end=be))

    def after_consuming(s, be, last):
        """read-ahead after the reader has delivered bytes up to index `last` (inclusive) to its caller"""
        return be if last < be else boundary_after(s, last)

    def m_bufreader_new(ex, st, args, dest_ty, fname):
        return BufRd(args[0])

    def m_read_until(ex, st, args, dest_ty, fname):
        bref, sref = rd_of(ex, st, args[0])
        s = ex.deref(sref, st)
        be = buf_end_of(ex, st, bref, s)
        delim = args[1]
        vref = ref_to(ex, st, args[2])
        vec = ex.deref(vref, st)
        cases = []
        none_before = True
        for j in range(s.pos, len(s.inp)):
            hit = _simp(s.inp[j] == delim)
            cond = _simp(b_and(none_before, hit))
            if cond is not False and ex.ctx.feasible(st.pc, z3bool(cond) if cond is not True else True):
                st2 = state_copy(ex, st)
                ex.write_ref(st2, vref, VecM(tuple(vec.items) + tuple(s.inp[s.pos:j + 1])))
                ex.write_ref(st2, sref, replace(s, pos=j + 1))
                set_buf_end(ex, st2, bref, after_consuming(s, be, j))
                cases.append((cond, enum("Ok", j + 1 - s.pos), heap_of(st2)))
            none_before = _simp(b_and(none_before, b_not(hit)))
            if none_before is False:
                break
        if none_before is not False and ex.ctx.feasible(st.pc, z3bool(none_before) if none_before is not True else True):
            # the peer closed before a delimiter: read_until returns what there is
            st2 = state_copy(ex, st)
            ex.write_ref(st2, vref, VecM(tuple(vec.items) + tuple(s.inp[s.pos:])))
            ex.write_ref(st2, sref, replace(s, pos=len(s.inp)))
            set_buf_end(ex, st2, bref, len(s.inp))
            cases.append((none_before, enum("Ok", len(s.inp) - s.pos), heap_of(st2)))
        return ("__with_heap__", cases)

    def m_read_exact(ex, st, args, dest_ty, fname):
        bref, sref = rd_of(ex, st, args[0])
        s = ex.deref(sref, st)
        be = buf_end_of(ex, st, bref, s)
        bufref = ref_to(ex, st, args[1])
        buf = ex.deref(bufref, st)
        n = len(ex.elements(buf))
        if s.pos + n > len(s.inp):
            ex.write_ref(st, sref, replace(s, pos=len(s.inp)))
            set_buf_end(ex, st, bref, len(s.inp))
            return enum("Err", ("opaque", "io::Error:UnexpectedEof"))
        data = s.inp[s.pos:s.pos + n]
        ex.write_ref(st, bufref, buf.with_elements(tuple(data)) if hasattr(buf, "with_elements") else ("agg", tuple(data)))
        ex.write_ref(st, sref, replace(s, pos=s.pos + n))
        if n:
            set_buf_end(ex, st, bref, after_consuming(s, be, s.pos + n - 1))
        return enum("Ok", UNIT)

    def m_read(ex, st, args, dest_ty, fname):
        """Read::read on the raw stream or on a BufReader: ONE read — what is buffered, else what the next raw read delivers."""
        bref, sref = rd_of(ex, st, args[0])
        s = ex.deref(sref, st)
        be = buf_end_of(ex, st, bref, s)
        bufref = ref_to(ex, st, args[1])
        buf = ex.deref(bufref, st)
        items = list(ex.elements(buf))
        n = len(items)
        if n == 0 or s.pos >= len(s.inp):
            return enum("Ok", 0)
        avail_end = be if be > s.pos else boundary_after(s, s.pos)
        k = min(n, avail_end - s.pos)
        items[:k] = s.inp[s.pos:s.pos + k]
        ex.write_ref(st, bufref, buf.with_elements(tuple(items)) if hasattr(buf, "with_elements") else ("agg", tuple(items)))
        ex.write_ref(st, sref, replace(s, pos=s.pos + k))
        set_buf_end(ex, st, bref, max(avail_end, s.pos + k) if bref is not None else s.pos + k)
        return enum("Ok", k)

    def m_buffer(ex, st, args, dest_ty, fname):
        bref, sref = rd_of(ex, st, args[0])
        s = ex.deref(sref, st)
        be = buf_end_of(ex, st, bref, s)
        return ("refval", VecM(tuple(s.inp[s.pos:be])))

    def m_fill_buf(ex, st, args, dest_ty, fname):
        bref, sref = rd_of(ex, st, args[0])
        s = ex.deref(sref, st)
        be = buf_end_of(ex, st, bref, s)
        if be <= s.pos and s.pos < len(s.inp):
            be = boundary_after(s, s.pos)
            set_buf_end(ex, st, bref, be)
        return enum("Ok", ("refval", VecM(tuple(s.inp[s.pos:be]))))

    def m_consume(ex, st, args, dest_ty, fname):
        bref, sref = rd_of(ex, st, args[0])
        s = ex.deref(sref, st)
        be = buf_end_of(ex, st, bref, s)
        n = args[1]
        if is_sym(n):
            raise ExecError("BufReader::consume with a symbolic amount")
        ex.write_ref(st, sref, replace(s, pos=min(s.pos + n, be)))
        return UNIT

    def m_by_ref(ex, st, args, dest_ty, fname):
        return args[0]

    def m_take(ex, st, args, dest_ty, fname):
        from .models_ws import TakeRd
        return TakeRd(args[0], args[1])

    def m_take_read_to_end(ex, st, args, dest_ty, fname):
        from .models_ws import TakeRd
        tref = ref_to(ex, st, args[0])
        t = ex.deref(tref, st)
        bref, sref = rd_of(ex, st, t.inner)
        s = ex.deref(sref, st)
        be = buf_end_of(ex, st, bref, s)
        vref = ref_to(ex, st, args[1])
        vec = ex.deref(vref, st)
        lim = t.limit
        remaining = len(s.inp) - s.pos
        def do(n, st2):
            ex.write_ref(st2, vref, VecM(tuple(vec.items) + tuple(s.inp[s.pos:s.pos + n])))
            ex.write_ref(st2, sref, replace(s, pos=s.pos + n))
            if n:
                set_buf_end(ex, st2, bref, after_consuming(s, be, s.pos + n - 1))
        if not is_sym(lim):
            n = min(lim, remaining)
            do(n, st)
            return enum("Ok", n)
        cases = []
        for k in range(0, remaining):
            c = _simp(lim == k)
            if c is not False and ex.ctx.feasible(st.pc, z3bool(c) if c is not True else True):
                st2 = state_copy(ex, st)
                do(k, st2)
                cases.append((c, enum("Ok", k), heap_of(st2)))
        c = _simp(lim >= remaining)
        if c is not False and ex.ctx.feasible(st.pc, z3bool(c) if c is not True else True):
            st2 = state_copy(ex, st)
            do(remaining, st2)
            cases.append((c, enum("Ok", remaining), heap_of(st2)))
        return ("__with_heap__", cases)

    # ---- byte slices ----------------------------------------------------------------------------------------------
    def m_slice_len(ex, st, args, dest_ty, fname):
        return len(elems(ex, st, args[0]))

    def m_slice_index_range(kind):
        def f(ex, st, args, dest_ty, fname):
            items = elems(ex, st, args[0])
            n = len(items)
            r = args[1][1]
            a, b = (0, r[0]) if kind == "to" else (r[0], n) if kind == "from" else (r[0], r[1])
            cases = []
            bad = True
            for i in range(n + 1):
                for j in range(i, n + 1):
                    cond = _simp(b_and(a == i if is_sym(a) else a == i, b == j if is_sym(b) else b == j))
                    if cond is False:
                        continue
                    if cond is True:
                        return ("refval", VecM(tuple(items[i:j])))
                    if ex.ctx.feasible(st.pc, z3bool(cond)):
                        cases.append((cond, ("refval", VecM(tuple(items[i:j])))))
                    bad = b_and(bad, b_not(cond))
            bad = _simp(bad)
            if bad is not False:
                cases.append((bad, Panic("range out of bounds in a byte slice index")))
            return cases
        return f

    def m_slice_to_vec(ex, st, args, dest_ty, fname):
        return VecM(tuple(elems(ex, st, args[0])))

    def m_ord_min(ex, st, args, dest_ty, fname):
        a, b = args[0], args[1]
        if is_sym(a) or is_sym(b):
            return z3.If(a <= b, a, b)
        return min(a, b)

    def m_ord_max(ex, st, args, dest_ty, fname):
        a, b = args[0], args[1]
        if is_sym(a) or is_sym(b):
            return z3.If(a >= b, a, b)
        return max(a, b)

    def m_vec_eq_arr(neg):
        def f(ex, st, args, dest_ty, fname):
            def items(v):
                x = deref_all(ex, st, v)
                return tuple(str_chars(x)) if isinstance(x, (ConcStr, SymStr)) else tuple(ex.elements(x))
            a, b = items(args[0]), items(args[1])
            if len(a) != len(b):
                r = False
            else:
                r = True
                for x, y in zip(a, b):
                    r = b_and(r, _simp(x == y) if (is_sym(x) or is_sym(y)) else (x == y))
            r = _simp(r) if is_sym(r) else r
            return b_not(r) if neg else r
        return f

    def m_vec_clear(ex, st, args, dest_ty, fname):
        vref = ref_to(ex, st, args[0])
        ex.write_ref(st, vref, VecM(()))
        return UNIT

    def m_vec_truncate(ex, st, args, dest_ty, fname):
        vref = ref_to(ex, st, args[0])
        vec = ex.deref(vref, st)
        n = args[1]
        if is_sym(n):
            raise ExecError("Vec::truncate with a symbolic length")
        ex.write_ref(st, vref, VecM(tuple(vec.items[:n])))
        return UNIT

    def m_extend_from_slice(ex, st, args, dest_ty, fname):
        vref = ref_to(ex, st, args[0])
        vec = ex.deref(vref, st)
        ex.write_ref(st, vref, VecM(tuple(vec.items) + tuple(elems(ex, st, args[1]))))
        return UNIT

    def m_vec_len(ex, st, args, dest_ty, fname):
        return len(elems(ex, st, args[0]))

    def m_from_utf8(ex, st, args, dest_ty, fname):
        """from_utf8 / String::from_utf8: symbolic bytes must be ASCII (assumed by the templates); concrete bytes are decoded as UTF-8
        (so that multi-byte characters can be placed at slicing positions); invalid UTF-8 in the concrete part -> Err."""
        items = list(elems(ex, st, args[0]))
        chars = []
        i = 0
        bad = False
        while i < len(items):
            b = items[i]
            if not isinstance(b, int):
                ok = _simp(b < 128)
                if ok is not True and ex.ctx.feasible(st.pc, z3bool(b_not(ok))):
                    raise ExecError("from_utf8 on symbolic bytes that may be non-ASCII (outside the encoding)")
                chars.append(b)
                i += 1
                continue
            if b < 0x80:
                chars.append(b); i += 1; continue
            n = 2 if 0xC2 <= b <= 0xDF else 3 if 0xE0 <= b <= 0xEF else 4 if 0xF0 <= b <= 0xF4 else 0
            seq = items[i:i + n]
            if n == 0 or len(seq) < n or not all(isinstance(x, int) for x in seq):
                bad = True
                break
            try:
                chars.append(ord(bytes(seq).decode("utf-8")))
            except UnicodeDecodeError:
                bad = True
                break
            i += n
        if bad:
            return enum("Err", ("opaque", "Utf8Error"))
        val = mkstr(chars, "line")
        if "String" in fname:
            return enum("Ok", val)
        return enum("Ok", ("refval", val))

    def m_vec_insert(ex, st, args, dest_ty, fname):
        r = ref_to(ex, st, args[0])
        v = ex.deref(r, st)
        i = args[1]
        items = list(v.items)
        if not isinstance(i, int) or i > len(items):
            return Panic("insertion index out of bounds")
        items.insert(i, args[2])
        ex.write_ref(st, r, VecM(tuple(items)))
        return UNIT

    def m_from_elem(ex, st, args, dest_ty, fname):
        """vec![x; n]: the allocation obligation of C03 lives here — a request for more than 64 KiB + 16 x the bytes supplied is reported
        as the outcome `ALLOC` (treated like a panic by the obligations); small symbolic n are enumerated."""
        v, n = args
        supplied = 0
        for fid, locs in list(st.heap.items()) + [(st.frame, st.locals)]:
            for val in locs.values():
                if isinstance(val, NetStream):
                    supplied = max(supplied, len(val.inp))
        bound = 65536 + 16 * supplied
        if is_sym(n):
            n = z3.simplify(n)
            if z3.is_int_value(n) or z3.is_bv_value(n):
                n = n.as_long()
        if not is_sym(n):
            if n > bound:
                return Panic("ALLOC: vec![0; %d] for a length the peer merely claims (%d bytes supplied)" % (n, supplied))
            return VecM(tuple(v for _ in range(n)))
        cases = []
        big = _simp(n > bound)
        if big is not False and ex.ctx.feasible(st.pc, z3bool(big)):
            cases.append((big, Panic("ALLOC: vec![0; n] with a claimed n above %d (%d bytes supplied)" % (bound, supplied))))
        # the buffer is only ever filled by read_exact: every size above the bytes still in the script fails that read in the same way,
        # so those sizes are represented by ONE buffer of remaining+1 bytes; the sizes up to `remaining` are enumerated
        remaining = 0
        for fid, locs in list(st.heap.items()) + [(st.frame, st.locals)]:
            for val in locs.values():
                if isinstance(val, NetStream):
                    remaining = max(remaining, len(val.inp) - val.pos)
        for k in range(0, remaining + 1):
            c = _simp(n == k)
            if c is not False and ex.ctx.feasible(st.pc, z3bool(c) if c is not True else True):
                cases.append((c, VecM(tuple(v for _ in range(k)))))
        mid = _simp(z3.And(n > remaining, n <= bound))
        if mid is not False and ex.ctx.feasible(st.pc, z3bool(mid)):
            cases.append((mid, VecM(tuple(v for _ in range(remaining + 1)))))
        return cases

    def m_vec_new(ex, st, args, dest_ty, fname):
        return VecM(())

    def alloc_bound(st):
        supplied = 0
        for fid, locs in list(st.heap.items()) + [(st.frame, st.locals)]:
            for val in locs.values():
                if isinstance(val, NetStream):
                    supplied = max(supplied, len(val.inp))
        return 65536 + 16 * supplied, supplied

    def alloc_request(ex, st, n, what, ok_value):
        """The allocation obligation for capacity requests (with_capacity / reserve): a request above 64 KiB + 16 x supplied is `ALLOC`."""
        bound, supplied = alloc_bound(st)
        if is_sym(n):
            n = z3.simplify(n)
            if z3.is_int_value(n):
                n = n.as_long()
        if not is_sym(n):
            if n > bound:
                return Panic("ALLOC: %s(%d) for a length the peer merely claims (%d bytes supplied)" % (what, n, supplied))
            return ok_value
        big = _simp(n > bound)
        cases = []
        if big is not False and ex.ctx.feasible(st.pc, z3bool(big)):
            cases.append((big, Panic("ALLOC: %s(n) with a claimed n above %d (%d bytes supplied)" % (what, bound, supplied))))
        small = _simp(b_not(big))
        if small is not False:
            cases.append((small, ok_value))
        return cases

    def m_vec_with_capacity(ex, st, args, dest_ty, fname):
        return alloc_request(ex, st, args[0], "Vec::with_capacity", VecM(()))

    def m_vec_reserve(ex, st, args, dest_ty, fname):
        return alloc_request(ex, st, args[1], "Vec::reserve", UNIT)

    def m_vec_push(ex, st, args, dest_ty, fname):
        r = ref_to(ex, st, args[0])
        v = ex.deref(r, st)
        ex.write_ref(st, r, VecM(tuple(v.items) + (args[1],)))
        return UNIT

    def m_deref_same(ex, st, args, dest_ty, fname):
        return ref_to(ex, st, args[0])

    # ---- str ------------------------------------------------------------------------------------------------------------------
    def sval(ex, st, a):
        v = deref_all(ex, st, a)
        if not isinstance(v, (SymStr, ConcStr)):
            raise ExecError("expected a string, got %r" % (v,))
        return v

    def m_split(ex, st, args, dest_ty, fname):
        return SplitIt(sval(ex, st, args[0]), args[1], None)

    def m_splitn(ex, st, args, dest_ty, fname):
        return SplitIt(sval(ex, st, args[0]), args[2], args[1])

    def m_split_next(ex, st, args, dest_ty, fname):
        r = ref_to(ex, st, args[0])
        it = ex.deref(r, st)
        if it.done or it.left == 0:
            return NONE
        cs = str_chars(it.s)
        if it.left == 1:
            ex.write_ref(st, r, replace(it, done=True, left=0))
            return some(("refval", it.s))
        cases = []
        none_before = True
        for j in range(len(cs)):
            hit = _simp(cs[j] == it.sep)
            cond = _simp(b_and(none_before, hit))
            if cond is not False and ex.ctx.feasible(st.pc, z3bool(cond) if cond is not True else True):
                st2 = state_copy(ex, st)
                ex.write_ref(st2, r, replace(it, s=_substr(it.s, j + 1, len(cs)), left=None if it.left is None else it.left - 1))
                cases.append((cond, some(("refval", _substr(it.s, 0, j))), heap_of(st2)))
            none_before = _simp(b_and(none_before, b_not(hit)))
            if none_before is False:
                break
        if none_before is not False and ex.ctx.feasible(st.pc, z3bool(none_before) if none_before is not True else True):
            st2 = state_copy(ex, st)
            ex.write_ref(st2, r, replace(it, done=True))
            cases.append((none_before, some(("refval", it.s)), heap_of(st2)))
        return ("__with_heap__", cases)

    def m_strip_suffix_str(ex, st, args, dest_ty, fname):
        s = sval(ex, st, args[0])
        suf = str_chars(sval(ex, st, args[1]))
        cs = str_chars(s)
        if len(suf) > len(cs):
            return NONE
        c = True
        for x, y in zip(cs[len(cs) - len(suf):], suf):
            c = b_and(c, _simp(x == y))
        c = _simp(c)
        hit = some(("refval", _substr(s, 0, len(cs) - len(suf))))
        if c is True:
            return hit
        if c is False:
            return NONE
        return [(c, hit), (b_not(c), NONE)]

    WS = [(0x09, 0x0D), (0x20, 0x20), (0x85, 0x85), (0xA0, 0xA0)]       # White_Space below 0x100 (ASCII-only strings here)

    def is_ws(c):
        if is_sym(c):
            return _simp(z3.Or(*[(c == a) if a == b else z3.And(c >= a, c <= b) for a, b in WS]))
        return any(a <= c <= b for a, b in WS)

    def m_trim_start(ex, st, args, dest_ty, fname):
        s = sval(ex, st, args[0])
        cs = str_chars(s)
        cases = []
        allws = True
        for j in range(len(cs) + 1):
            cond = allws if j == len(cs) else _simp(b_and(allws, b_not(is_ws(cs[j]))))
            if cond is not False and ex.ctx.feasible(st.pc, z3bool(cond) if cond is not True else True):
                cases.append((cond, ("refval", _substr(s, j, len(cs)))))
            if cond is True:
                break
            if j < len(cs):
                allws = _simp(b_and(allws, is_ws(cs[j])))
                if allws is False:
                    break
        return cases

    def trim_cases(ex, st, s, at_start, at_end):
        cs = str_chars(s)
        n = len(cs)
        starts = [(True, 0)]
        if at_start:
            starts, allws = [], True
            for j in range(n + 1):
                cond = allws if j == n else _simp(b_and(allws, b_not(is_ws(cs[j]))))
                if cond is not False:
                    starts.append((cond, j))
                if cond is True or j == n:
                    break
                allws = _simp(b_and(allws, is_ws(cs[j])))
                if allws is False:
                    break
        cases = []
        for c1, i in starts:
            ends = [(True, n)]
            if at_end:
                ends, allws = [], True
                for j in range(n, i - 1, -1):
                    cond = allws if j == i else _simp(b_and(allws, b_not(is_ws(cs[j - 1]))))
                    if cond is not False:
                        ends.append((cond, j))
                    if cond is True or j == i:
                        break
                    allws = _simp(b_and(allws, is_ws(cs[j - 1])))
                    if allws is False:
                        break
            for c2, j in ends:
                c = _simp(b_and(c1, c2))
                if c is not False and ex.ctx.feasible(st.pc, z3bool(c) if c is not True else True):
                    cases.append((c, ("refval", _substr(s, i, j))))
        return cases

    def m_trim(ex, st, args, dest_ty, fname):
        return trim_cases(ex, st, sval(ex, st, args[0]), True, True)

    def m_trim_end(ex, st, args, dest_ty, fname):
        return trim_cases(ex, st, sval(ex, st, args[0]), False, True)

    def m_parse_usize(ex, st, args, dest_ty, fname):
        """<usize as FromStr>: optional single '+', then one or more ASCII digits, value < 2^64 (a leading '-' is an error)."""
        s = sval(ex, st, args[0])
        cs = list(str_chars(s))
        err = enum("Err", ("opaque", "ParseIntError"))
        if all(isinstance(c, int) for c in cs):
            t = "".join(chr(c) for c in cs)
            if re.fullmatch(r"\+?[0-9]+", t) and int(t) < (1 << 64):
                return enum("Ok", int(t))
            return err
        if not cs:
            return err
        digit = lambda c: (z3.And(c >= 48, c <= 57) if is_sym(c) else (48 <= c <= 57))
        def val(ds):
            v = 0
            for c in ds:
                v = v * 10 + (c - 48)
            return v
        alld = True
        for c in cs:
            alld = b_and(alld, digit(c))
        restd = len(cs) > 1
        for c in cs[1:]:
            restd = b_and(restd, digit(c))
        v1, v2 = val(cs), val(cs[1:])
        inr = lambda v: (z3.And(v >= 0, v < (1 << 64)) if is_sym(v) else 0 <= v < (1 << 64))
        a1 = _simp(b_and(alld, inr(v1)))
        a2 = _simp(b_and(b_and(cs[0] == 43 if is_sym(cs[0]) else cs[0] == 43, restd), inr(v2)))
        cases = []
        if a1 is not False:
            cases.append((a1, enum("Ok", v1)))
        if a2 is not False:
            cases.append((a2, enum("Ok", v2)))
        rest = _simp(b_not(b_or(a1, a2)))
        if rest is not False:
            cases.append((rest, err))
        return cases

    def m_str_eq(ex, st, args, dest_ty, fname):
        a, b = sval(ex, st, args[0]), sval(ex, st, args[1])
        ca, cb = str_chars(a), str_chars(b)
        if len(ca) != len(cb):
            return False
        r = True
        for x, y in zip(ca, cb):
            r = b_and(r, _simp(x == y))
        return _simp(r)

    def m_str_len(ex, st, args, dest_ty, fname):
        # byte length: symbolic characters are ASCII here (1 byte), concrete ones count their UTF-8 length
        from .models import utf8_len
        return sum(1 if is_sym(c) else utf8_len(c) for c in str_chars(sval(ex, st, args[0])))

    def m_str_is_empty(ex, st, args, dest_ty, fname):
        return len(str_chars(sval(ex, st, args[0]))) == 0

    def m_to_string(ex, st, args, dest_ty, fname):
        return sval(ex, st, args[0])

    def m_as_str(ex, st, args, dest_ty, fname):
        return ref_to(ex, st, args[0])

    def m_to_ascii_lowercase_str(ex, st, args, dest_ty, fname):
        s = sval(ex, st, args[0])
        out = []
        for c in str_chars(s):
            if is_sym(c):
                out.append(z3.If(z3.And(c >= 65, c <= 90), c + 32, c))
            else:
                out.append(c + 32 if 65 <= c <= 90 else c)
        return mkstr(out, "lower")

    def m_as_ref_str(ex, st, args, dest_ty, fname):
        v = ex.deref(args[0], st)
        if isinstance(v, tuple) and v and v[0] in ("ref", "refval"):
            return v
        return args[0]

    def split_pieces(ex, st, s, sep, left):
        """All ways `s.splitn(left, sep)` (left=None: split) can cut s -> [(cond, [piece, ...])]"""
        cs = str_chars(s)
        if left == 0:
            return [(True, [])]
        if left == 1:
            return [(True, [s])]
        out = []
        none_before = True
        for j in range(len(cs)):
            hit = _simp(cs[j] == sep)
            cond = _simp(b_and(none_before, hit))
            if cond is not False and ex.ctx.feasible(st.pc, z3bool(cond) if cond is not True else True):
                for c2, rest in split_pieces(ex, st, _substr(s, j + 1, len(cs)), sep, None if left is None else left - 1):
                    c = _simp(b_and(cond, c2))
                    if c is not False:
                        out.append((c, [_substr(s, 0, j)] + rest))
            none_before = _simp(b_and(none_before, b_not(hit)))
            if none_before is False:
                break
        if none_before is not False:
            out.append((none_before, [s]))
        return out

    def m_split_once(ex, st, args, dest_ty, fname):
        """str::split_once(pat) for a char or a &str pattern: Some((before, after)) at the first occurrence, else None."""
        s_ = sval(ex, st, args[0])
        pat = args[1]
        pv = deref_all(ex, st, pat) if isinstance(pat, tuple) else pat
        pcs = list(str_chars(pv)) if isinstance(pv, (SymStr, ConcStr)) else [pv]
        cs = str_chars(s_)
        k = len(pcs)
        if k == 0:
            raise ExecError("split_once with an empty pattern")
        cases = []
        none_before = True
        for j in range(0, len(cs) - k + 1):
            hit = True
            for a, b in zip(cs[j:j + k], pcs):
                hit = b_and(hit, _simp(a == b))
            hit = _simp(hit)
            cond = _simp(b_and(none_before, hit))
            if cond is not False and ex.ctx.feasible(st.pc, z3bool(cond) if cond is not True else True):
                cases.append((cond, some(("agg", (("refval", _substr(s_, 0, j)), ("refval", _substr(s_, j + k, len(cs))))))))
            none_before = _simp(b_and(none_before, b_not(hit)))
            if none_before is False:
                break
        if none_before is not False:
            cases.append((none_before, NONE))
        return cases[0][1] if len(cases) == 1 and cases[0][0] is True else cases

    def m_rsplit_once(ex, st, args, dest_ty, fname):
        """str::rsplit_once(char): Some((before, after)) at the LAST occurrence, else None."""
        s_ = sval(ex, st, args[0])
        pat = args[1]
        cs = str_chars(s_)
        cases = []
        none_after = True
        for j in range(len(cs) - 1, -1, -1):
            hit = _simp(cs[j] == pat) if (is_sym(cs[j]) or is_sym(pat)) else (cs[j] == pat)
            cond = _simp(b_and(none_after, hit))
            if cond is not False and ex.ctx.feasible(st.pc, z3bool(cond) if cond is not True else True):
                cases.append((cond, some(("agg", (("refval", _substr(s_, 0, j)), ("refval", _substr(s_, j + 1, len(cs))))))))
            none_after = _simp(b_and(none_after, b_not(hit)))
            if none_after is False:
                break
        if none_after is not False:
            cases.append((none_after, NONE))
        return cases[0][1] if len(cases) == 1 and cases[0][0] is True else cases

    def m_opt_map_or(ex, st, args, dest_ty, fname):
        o, default, clos = args
        if o[1] == "None":
            return default
        f = ex.closure_function(clos[1])
        val, pan = ex.call_value(st, f, [clos, o[2][0]])
        if pan is not False:
            raise ExecError("Option::map_or: closure may panic")
        return val

    def m_split_collect(ex, st, args, dest_ty, fname):
        it = args[0]
        if it.done or it.left == 0:
            return VecM(())
        cases = [(c, VecM(tuple(("refval", p) for p in ps))) for c, ps in split_pieces(ex, st, it.s, it.sep, it.left)]
        return cases[0][1] if len(cases) == 1 and cases[0][0] is True else cases

    def m_vec_index(ex, st, args, dest_ty, fname):
        r = ref_to(ex, st, args[0])
        n = len(ex.elements(ex.deref(r, st)))
        i = args[1]
        if is_sym(i):
            raise ExecError("symbolic Vec index")
        if not (0 <= i < n):
            return Panic("index out of bounds: the len is %d but the index is %d" % (n, i))
        _, (kind, fid, local, proj) = r
        return ("ref", (kind, fid, local, tuple(proj) + (("cindex", i, False),)))

    def m_vec_len(ex, st, args, dest_ty, fname):
        return len(elems(ex, st, args[0]))

    def parse_unsigned(bits):
        def f(ex, st, args, dest_ty, fname):
            s = sval(ex, st, args[0])
            cs = list(str_chars(s))
            err = enum("Err", ("opaque", "ParseIntError"))
            if not cs:
                return err
            digit = lambda c: (z3.And(c >= 48, c <= 57) if is_sym(c) else (48 <= c <= 57))
            def val(ds):
                v = 0
                for c in ds:
                    v = v * 10 + (c - 48)
                return v
            alld = True
            for c in cs:
                alld = b_and(alld, digit(c))
            restd = len(cs) > 1
            for c in cs[1:]:
                restd = b_and(restd, digit(c))
            v1, v2 = val(cs), val(cs[1:])
            inr = lambda v: (z3.And(v >= 0, v < (1 << bits)) if is_sym(v) else 0 <= v < (1 << bits))
            a1 = _simp(b_and(alld, inr(v1)))
            a2 = _simp(b_and(b_and((cs[0] == 43), restd), inr(v2)))
            cases = []
            if a1 is not False:
                cases.append((a1, enum("Ok", v1)))
            if a2 is not False:
                cases.append((a2, enum("Ok", v2)))
            rest = _simp(b_not(b_or(a1, a2)))
            if rest is not False:
                cases.append((rest, err))
            return cases[0][1] if len(cases) == 1 and cases[0][0] is True else cases
        return f

    def m_from_str_radix16(ex, st, args, dest_ty, fname):
        s = sval(ex, st, args[0])
        cs = list(str_chars(s))
        if args[1] != 16:
            raise ExecError("from_str_radix with radix %r" % (args[1],))
        err = enum("Err", ("opaque", "ParseIntError"))
        if not cs:
            return err
        def hexd(c):
            if is_sym(c):
                return z3.Or(z3.And(c >= 48, c <= 57), z3.And(c >= 65, c <= 70), z3.And(c >= 97, c <= 102))
            return 48 <= c <= 57 or 65 <= c <= 70 or 97 <= c <= 102
        def hv(c):
            if is_sym(c):
                return z3.If(c <= 57, c - 48, z3.If(c <= 70, c - 55, c - 87))
            return c - 48 if c <= 57 else c - 55 if c <= 70 else c - 87
        def val(ds):
            v = 0
            for c in ds:
                v = v * 16 + hv(c)
            return v
        alld = True
        for c in cs:
            alld = b_and(alld, hexd(c))
        restd = len(cs) > 1
        for c in cs[1:]:
            restd = b_and(restd, hexd(c))
        v1, v2 = val(cs), val(cs[1:])
        inr = lambda v: (z3.And(v >= 0, v < (1 << 64)) if is_sym(v) else 0 <= v < (1 << 64))
        a1 = _simp(b_and(alld, inr(v1)))
        a2 = _simp(b_and(b_and((cs[0] == 43), restd), inr(v2)))
        cases = []
        if a1 is not False:
            cases.append((a1, enum("Ok", v1)))
        if a2 is not False:
            cases.append((a2, enum("Ok", v2)))
        rest = _simp(b_not(b_or(a1, a2)))
        if rest is not False:
            cases.append((rest, err))
        return cases[0][1] if len(cases) == 1 and cases[0][0] is True else cases

    def m_usize_to_string(ex, st, args, dest_ty, fname):
        v = deref_all(ex, st, args[0])
        if is_sym(v):
            v = z3.simplify(v)
            if not z3.is_int_value(v):
                raise ExecError("to_string of a symbolic integer")
            v = v.as_long()
        return ConcStr(str(v))

    def m_retain(ex, st, args, dest_ty, fname):
        r = ref_to(ex, st, args[0])
        vec = ex.deref(r, st)
        clos = args[1]
        f = ex.closure_function(clos[1])
        _, (kind, fid, local, proj) = r
        keep = []
        for i, item in enumerate(vec.items):
            eref = ("ref", (kind, fid, local, tuple(proj) + (("cindex", i, False),)))
            val, pan = ex.call_value(st, f, [("refval", clos), eref])
            if is_sym(val):
                val = _simp(val)
            if val is True or val is False or isinstance(val, (bool, int)):
                if val:
                    keep.append(item)
            else:
                raise ExecError("Vec::retain with a symbolic predicate")
        ex.write_ref(st, r, VecM(tuple(keep)))
        return UNIT

    def m_extend_vec(ex, st, args, dest_ty, fname):
        r = ref_to(ex, st, args[0])
        a = ex.deref(r, st)
        b = deref_all(ex, st, args[1])
        ex.write_ref(st, r, VecM(tuple(a.items) + tuple(ex.elements(b))))
        return UNIT

    def m_opt_and_then(ex, st, args, dest_ty, fname):
        o, clos = args
        if o[1] == "None":
            return NONE
        f = ex.closure_function(clos[1])
        heap = ex.copy_heap(st.heap)
        heap[st.frame] = dict(st.locals)
        sub = ex.run_function(f, [clos, o[2][0]], heap=heap, pc=st.pc)
        return ("__with_heap__", [(c, v, h) for c, v, l, h in sub.rets] + [(c, Panic(m), None) for c, m in sub.panics])

    def m_derived_ne(ex, st, args, dest_ty, fname):
        f = ex.ctx.find_func(fname[:-4] + "::eq")
        if f is None or isinstance(f, tuple):
            raise ExecError("no eq for " + fname)
        val, pan = ex.call_value(st, f, list(args))
        return b_not(val)

    def m_is_some(ex, st, args, dest_ty, fname):
        return deref_all(ex, st, args[0])[1] == "Some"

    def m_result_ok(ex, st, args, dest_ty, fname):
        v = args[0]
        return some(v[2][0]) if v[1] == "Ok" else NONE

    def m_opt_branch(ex, st, args, dest_ty, fname):
        o = args[0]
        if o[1] == "Some":
            return ("enum", "Continue", (o[2][0],))
        return ("enum", "Break", (("enum", "None", ()),))

    def m_opt_from_residual(ex, st, args, dest_ty, fname):
        return NONE

    # ---- Option / Result ------------------------------------------------------------------------------------------------------
    def m_to_error(ex, st, args, dest_ty, fname):
        o, e = args
        return enum("Ok", o[2][0]) if o[1] == "Some" else enum("Err", e)

    def m_opt_unwrap(ex, st, args, dest_ty, fname):
        o = args[0]
        if o[1] == "Some":
            return o[2][0]
        return Panic("called `Option::unwrap()` on a `None` value")

    def m_opt_unwrap_or(ex, st, args, dest_ty, fname):
        o, d = args
        return o[2][0] if o[1] == "Some" else d

    def m_map_err(ex, st, args, dest_ty, fname):
        r, clos = args
        if r[1] == "Ok":
            return r
        f = ex.closure_function(clos[1])
        val, pan = ex.call_value(st, f, [clos, r[2][0]])
        return enum("Err", val)

    def m_opt_map(ex, st, args, dest_ty, fname):
        o, clos = args
        if o[1] == "None":
            return NONE
        f = ex.closure_function(clos[1])
        val, pan = ex.call_value(st, f, [clos, o[2][0]])
        return some(val)

    # ---- Headers --------------------------------------------------------------------------------------------------------------
    def m_to_header(ex, st, args, dest_ty, fname):
        v = args[0]
        inner = deref_all(ex, st, v)
        if isinstance(inner, (SymStr, ConcStr)):
            f = None
            for k, fn in ex.ctx.funcs.items():
                if not isinstance(fn, tuple) and k.endswith("::from") and "headers.rs" in k and fn.ret_type.strip() == "HeaderType" and fn.args and fn.args[0][1].strip() == "&str":
                    f = fn
            if f is None:
                raise ExecError("<HeaderType as From<&str>>::from not found")
            ensure_parsed(f)
            heap = ex.copy_heap(st.heap)
            heap[st.frame] = dict(st.locals)
            sub = ex.run_function(f, [("refval", inner)], heap=heap, pc=st.pc)
            return ("__with_heap__", [(c, v, h) for c, v, l, h in sub.rets] + [(c, Panic(m), None) for c, m in sub.panics])
        if isinstance(inner, tuple) and inner and inner[0] == "enum":
            return inner
        raise ExecError("to_header of %r" % (inner,))

    def m_slice_iter(ex, st, args, dest_ty, fname):
        return SliceIter(ref_to(ex, st, args[0]), 0, False)

    def m_iter_find(ex, st, args, dest_ty, fname):
        r = ref_to(ex, st, args[0])
        it = ex.deref(r, st)
        clos = args[1]
        f = ex.closure_function(clos[1])
        base = it.base
        n = len(ex.elements(ex.deref(base, st)))
        _, (kind, fid, local, proj) = base
        cases = []
        none_before = True
        for i in range(it.pos, n):
            eref = ("ref", (kind, fid, local, tuple(proj) + (("cindex", i, False),)))
            val, pan = ex.call_value(st, f, [("refval", clos), ("refval", eref)])
            hit = _simp(val) if is_sym(val) else bool(val)
            cond = _simp(b_and(none_before, hit))
            if cond is not False:
                cases.append((cond, some(eref)))
            none_before = _simp(b_and(none_before, b_not(hit)))
            if none_before is False:
                break
        if none_before is not False:
            cases.append((none_before, NONE))
        return cases

    def m_string_eq(ex, st, args, dest_ty, fname):
        return m_str_eq(ex, st, args, dest_ty, fname)

    def m_clone(ex, st, args, dest_ty, fname):
        return deref_all(ex, st, args[0])

    # ---- Address::from_headers executed for real: X-Forwarded-For lists (concrete header values), peer address as an opaque socket address
    def m_split_filter_map(ex, st, args, dest_ty, fname):
        return ("agg", (args[0], args[1]))

    def m_filter_map_collect(ex, st, args, dest_ty, fname):
        it, clos = args[0][1]
        if not isinstance(it, SplitIt) or it.done or it.left is not None:
            raise ExecError("filter_map over %r" % (it,))
        s = deref_all(ex, st, it.s)
        cs = list(str_chars(s))
        if any(is_sym(c) for c in cs):
            raise ExecError("X-Forwarded-For value with symbolic characters (templates keep it concrete)")
        sep = it.sep
        pieces, cur = [], []
        for c in cs:
            if c == sep:
                pieces.append(cur)
                cur = []
            else:
                cur.append(c)
        pieces.append(cur)
        f = ex.closure_function(clos[1])
        out = []
        for pc_ in pieces:
            val, pan = ex.call_value(st, f, [("refval", clos), ("refval", mkstr(pc_))])
            if pan is not False:
                raise ExecError("filter_map closure may panic")
            if val[1] == "Some":
                out.append(val[2][0])
        return VecM(tuple(out))

    def m_ipaddr_from_str(ex, st, args, dest_ty, fname):
        import ipaddress
        s = deref_all(ex, st, args[0])
        if not isinstance(s, ConcStr):
            raise ExecError("IpAddr::from_str on a symbolic string")
        t = s.s
        err = enum("Err", ("opaque", "AddrParseError"))
        if "%" in t or t != t.strip() or not t:
            return err
        try:
            a = ipaddress.ip_address(t)
        except ValueError:
            return err
        return enum("Ok", ("agg", (("opaque", "ip:" + a.compressed),)))

    def m_vec_is_empty(ex, st, args, dest_ty, fname):
        return len(elems(ex, st, args[0])) == 0

    def m_slice_last(ex, st, args, dest_ty, fname):
        items = elems(ex, st, args[0])
        return some(("refval", items[-1])) if items else NONE

    def m_vec_remove(ex, st, args, dest_ty, fname):
        vref = ref_to(ex, st, args[0])
        vec = ex.deref(vref, st)
        i = args[1]
        if is_sym(i):
            raise ExecError("Vec::remove with a symbolic index")
        if i >= len(vec.items):
            return [(True, Panic("removal index (is %d) should be < len (is %d)" % (i, len(vec.items))))]
        ex.write_ref(st, vref, VecM(tuple(vec.items[:i]) + tuple(vec.items[i + 1:])))
        return vec.items[i]

    def m_to_socket_addrs(ex, st, args, dest_ty, fname):
        return enum("Ok", VecM((("agg", (("opaque", "sockaddr:peer"),)),)))

    def m_sockiter_next(ex, st, args, dest_ty, fname):
        r = ref_to(ex, st, args[0])
        it = ex.deref(r, st)
        if not it.items:
            return NONE
        ex.write_ref(st, r, VecM(tuple(it.items[1:])))
        return some(it.items[0])

    def m_sockaddr_ip(ex, st, args, dest_ty, fname):
        return ("agg", (("opaque", "ip:peer"),))

    def m_sockaddr_port(ex, st, args, dest_ty, fname):
        return 4000

    def m_address_from_headers(ex, st, args, dest_ty, fname):
        # modelled, not executed: templates carry no X-Forwarded-For field (asserted by the spec), so the address is the peer's
        hs = deref_all(ex, st, args[0])
        for h in ex.elements(hs[1][0]):
            name = h[1][0]
            if name[1].endswith("Custom"):
                cs = str_chars(name[2][0])
                if len(cs) == 15:
                    raise ExecError("a 15-character custom header name may be X-Forwarded-For (outside the encoding)")
        return enum("Ok", ("opaque", "Address(peer)"))

    def m_ctor(name):
        def f(ex, st, args, dest_ty, fname):
            return ("enum", name, tuple(args))
        return f

    return [
        M(r"^BufReader::<(&mut )?T>::new$", m_bufreader_new),
        M(r"^<BufReader<(&mut )?T> as BufRead>::read_until$", m_read_until),
        M(r"^<BufReader<(&mut )?T> as std::io::Read>::read_exact$", m_read_exact),
        M(r"^<T as std::io::Read>::read_exact$", m_read_exact),
        M(r"^<(BufReader<(&mut )?T>|T) as std::io::Read>::read$", m_read),
        M(r"^BufReader::<(&mut )?T>::buffer$", m_buffer),
        M(r"^<BufReader<(&mut )?T> as BufRead>::fill_buf$", m_fill_buf),
        M(r"^<BufReader<(&mut )?T> as BufRead>::consume$", m_consume),
        M(r"^<.* as std::io::Read>::by_ref$", m_by_ref),
        M(r"^<.* as std::io::Read>::take$", m_take),
        M(r"^<std::io::Take<.*> as std::io::Read>::read_to_end$", m_take_read_to_end),
        M(r"^Vec::<u8>::len$", m_vec_len),
        M(r"^core::slice::<impl \[u8\]>::len$", m_slice_len),
        M(r"^<(\[u8\]|Vec<u8>) as Index<RangeTo<usize>>>::index$", m_slice_index_range("to")),
        M(r"^<(\[u8\]|Vec<u8>) as Index<(std::ops::)?RangeFrom<usize>>>::index$", m_slice_index_range("from")),
        M(r"^<(\[u8\]|Vec<u8>) as Index<(std::ops::)?Range<usize>>>::index$", m_slice_index_range("range")),
        M(r"^(core::|std::|alloc::)?slice::<impl \[u8\]>::to_vec$", m_slice_to_vec),
        M(r"^<usize as Ord>::min$", m_ord_min),
        M(r"^(std|core)::cmp::min::<usize>$", m_ord_min),
        M(r"^<usize as Ord>::max$", m_ord_max),
        M(r"^<(Vec<u8>|\[u8\]|&\[u8\]|\[u8; \d+\]) as PartialEq<(&?\[u8; \d+\]|&?\[u8\]|Vec<u8>)>>::eq$", m_vec_eq_arr(False)),
        M(r"^<(Vec<u8>|\[u8\]|&\[u8\]|\[u8; \d+\]) as PartialEq<(&?\[u8; \d+\]|&?\[u8\]|Vec<u8>)>>::ne$", m_vec_eq_arr(True)),
        M(r"^Vec::<u8>::extend_from_slice$", m_extend_from_slice),
        M(r"^Vec::<u8>::clear$", m_vec_clear),
        M(r"^Vec::<u8>::truncate$", m_vec_truncate),
        M(r"^(std::str::|core::str::)?from_utf8$", m_from_utf8),
        M(r"^String::from_utf8$", m_from_utf8),
        M(r"^Vec::<u8>::insert$", m_vec_insert),
        M(r"^std::vec::from_elem::<u8>$", m_from_elem),
        M(r"^Vec::<.*>::with_capacity$", m_vec_with_capacity),
        M(r"^Vec::<.*>::(reserve|reserve_exact)$", m_vec_reserve),
        M(r"^String::with_capacity$", lambda ex, st, args, dest_ty, fname: alloc_request(ex, st, args[0], "String::with_capacity", mkstr([], "s"))),
        M(r"^Vec::<.*>::new$", m_vec_new),
        M(r"^<Vec<.*> as Default>::default$", m_vec_new),
        M(r"^Vec::<.*>::push$", m_vec_push),
        M(r"^<Vec<.*> as Deref(Mut)?>::deref(_mut)?$", m_deref_same),
        M(r"^core::str::<impl str>::split::<char>$", m_split),
        M(r"^core::str::<impl str>::splitn::<char>$", m_splitn),
        M(r"^<std::str::Split(N)?<'_, char> as Iterator>::next$", m_split_next),
        M(r"^core::str::<impl str>::strip_suffix::<&str>$", m_strip_suffix_str),
        M(r"^core::str::<impl str>::trim_start$", m_trim_start),
        M(r"^core::str::<impl str>::trim$", m_trim),
        M(r"^core::str::<impl str>::trim_end$", m_trim_end),
        M(r"^core::str::<impl str>::parse::<usize>$", m_parse_usize),
        M(r"^core::str::<impl str>::split_once::<(&str|char)>$", m_split_once),
        M(r"^core::str::<impl str>::rsplit_once::<char>$", m_rsplit_once),
        M(r"^Option::<\(&str, &str\)>::map_or::<", m_opt_map_or),
        M(r"^core::str::<impl str>::parse::<u16>$", parse_unsigned(16)),
        M(r"^core::num::<impl usize>::from_str_radix$", m_from_str_radix16),
        M(r"^<std::str::SplitN<'_, char> as Iterator>::collect::<Vec<&str>>$", m_split_collect),
        M(r"^<Vec<&str> as Index<usize>>::index$", m_vec_index),
        M(r"^Vec::<.*>::len$", m_vec_len),
        M(r"^<String as Index<std::ops::Range<usize>>>::index$", lambda ex, st, args, dest_ty, fname: __import__("mirsym.models", fromlist=["x"]).m_str_index_range(ex, st, args, dest_ty, fname)),
        M(r"^<usize as ToString>::to_string$", m_usize_to_string),
        M(r"^Vec::<Header>::retain::<", m_retain),
        M(r"^<Vec<u8> as Extend<u8>>::extend::<Vec<u8>>$", m_extend_vec),
        M(r"^Option::<&str>::and_then::<", m_opt_and_then),
        M(r"^Option::<.*>::is_some$", m_is_some),
        M(r"^<HeaderType as PartialEq>::ne$", m_derived_ne),
        M(r"^Result::<.*>::ok$", m_result_ok),
        M(r"^<Option<.*> as Try>::branch$", m_opt_branch),
        M(r"^<Option<.*> as FromResidual<Option<Infallible>>>::from_residual$", m_opt_from_residual),
        M(r"^Result::<.*>::map_err::<ResponseError, ", m_map_err),
        M(r"^<&?str as PartialEq(<&?str>)?>::eq$", m_str_eq),
        M(r"^<&?String as PartialEq(<&?str>|<&?String>)?>::eq$", m_string_eq),
        M(r"^core::str::<impl str>::len$", m_str_len),
        M(r"^(String|core::str::<impl str>)::is_empty$", m_str_is_empty),
        M(r"^String::len$", m_str_len),
        M(r"^<str as ToString>::to_string$", m_to_string),
        M(r"^<String as Clone>::clone$", m_to_string),
        M(r"^<str as ToOwned>::to_owned$", m_to_string),
        M(r"^String::as_str$", m_as_str),
        M(r"^<String as Deref>::deref$", m_as_str),
        M(r"^(core::)?str::<impl str>::to_ascii_lowercase$", m_to_ascii_lowercase_str),
        M(r"^<impl AsRef<str> as AsRef<str>>::as_ref$", m_as_ref_str),
        M(r"^<&str as AsRef<str>>::as_ref$", m_as_ref_str),
        M(r"^<Option<&str> as OptionToRequestResult<&str>>::to_error$", m_to_error),
        M(r"^Option::<&str>::unwrap$", m_opt_unwrap),
        M(r"^Option::<&str>::unwrap_or$", m_opt_unwrap_or),
        M(r"^Result::<.*>::map_err::<RequestError, ", m_map_err),
        M(r"^Option::<&Header>::map::<&str, ", m_opt_map),
        M(r"^Option::<(usize|u8|u16|u64|\(\))>::map::<", m_opt_map),
        M(r"^<impl HeaderLike as HeaderLike>::to_header$", m_to_header),
        M(r"^<&HeaderType as HeaderLike>::to_header$", m_to_header),
        M(r"^core::slice::<impl \[Header\]>::iter$", m_slice_iter),
        M(r"^<std::slice::Iter<'_, Header> as Iterator>::find::<", m_iter_find),
        M(r"^<HeaderType as Clone>::clone$", m_clone),
        M(r"^<std::str::Split<'_, char> as Iterator>::filter_map::<IpAddr, ", m_split_filter_map),
        M(r"^<FilterMap<std::str::Split<'_, char>, .*> as Iterator>::collect::<Vec<IpAddr>>$", m_filter_map_collect),
        M(r"^<IpAddr as FromStr>::from_str$", m_ipaddr_from_str),
        M(r"^Vec::<IpAddr>::is_empty$", m_vec_is_empty),
        M(r"^core::slice::<impl \[IpAddr\]>::last$", m_slice_last),
        M(r"^Vec::<IpAddr>::remove$", m_vec_remove),
        M(r"^<(impl ToSocketAddrs|std::net::SocketAddr|T) as ToSocketAddrs>::to_socket_addrs$", m_to_socket_addrs),
        M(r"^<<(impl ToSocketAddrs|std::net::SocketAddr|T) as ToSocketAddrs>::Iter as Iterator>::next$", m_sockiter_next),
        M(r"^std::net::SocketAddr::ip$", m_sockaddr_ip),
        M(r"^std::net::SocketAddr::port$", m_sockaddr_port),
        M(r"^Result::<.*>::Ok$", m_ctor("Ok")),
        M(r"^Result::<.*>::Err$", m_ctor("Err")),
    ]
