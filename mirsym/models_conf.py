"""std models for the configuration tree parser (humphrey-server config::tree::parse_conf / parse_section / include, engine M):
str::lines, Option::map_or, starts_with(&str), SplitN::last, parse::<bool>, the cross-crate `wildcard_match` with a concrete pattern
(glob recurrence as a formula), an in-memory file system for `File::open` / `read_to_string` (the include directive), ConfigError::new.
Symbolic characters of a configuration text are assumed not to be line terminators (checked: a hole that may be LF raises)."""
import re
from dataclasses import dataclass, replace
import z3

from .exec import *
from .models import M, SymStr, ConcStr, str_chars, _simp

FS = {}          # path -> text : files visible to `include` (set by the property module before a run)


@dataclass(frozen=True)
class LinesIt:
    lines: tuple
    pos: int = 0


@dataclass(frozen=True)
class FileM:
    text: object


@dataclass(frozen=True)
class IntStr:
    """i64::to_string of a symbolic value (only carried around, never inspected)."""
    value: object


def mkstr(chars, name="c"):
    chars = tuple(chars)
    if all(isinstance(c, int) for c in chars):
        return ConcStr("".join(chr(c) for c in chars))
    return SymStr(name, chars)


def make_models():
    def deref_all(ex, st, v):
        while isinstance(v, tuple) and v and v[0] in ("ref", "refval"):
            v = ex.deref(v, st)
        return v

    def ref_to(ex, st, v):
        while True:
            inner = ex.deref(v, st)
            if isinstance(inner, tuple) and inner and inner[0] in ("ref", "refval"):
                v = inner
                continue
            return v

    def m_lines(ex, st, args, dest_ty, fname):
        cs = list(str_chars(deref_all(ex, st, args[0])))
        for c in cs:
            if is_sym(c) and ex.ctx.feasible(st.pc, z3bool(z3.Or(c == 10, c == 13))):
                raise ExecError("str::lines over a symbolic character that may be a line terminator")
        lines, cur = [], []
        for c in cs:
            if c == 10:
                if cur and cur[-1] == 13:
                    cur.pop()
                lines.append(mkstr(cur))
                cur = []
            else:
                cur.append(c)
        if cur:
            lines.append(mkstr(cur))            # a final line without a terminator (a trailing '\\r' stays, as in std)
        return LinesIt(tuple(lines))

    def m_lines_next(ex, st, args, dest_ty, fname):
        r = ref_to(ex, st, args[0])
        it = ex.deref(r, st)
        if not isinstance(it, LinesIt):
            raise ExecError("Lines::next on %r" % (it,))
        if it.pos >= len(it.lines):
            return NONE
        ex.write_ref(st, r, replace(it, pos=it.pos + 1))
        return some(("refval", it.lines[it.pos]))

    def m_opt_map_or(ex, st, args, dest_ty, fname):
        o, default, clos = args
        if o[1] == "None":
            return default
        f = ex.closure_function(clos[1])
        val, pan = ex.call_value(st, f, [clos, o[2][0]])
        if pan is not False:
            raise ExecError("Option::map_or: closure may panic")
        return val

    def m_starts_with_str(ex, st, args, dest_ty, fname):
        cs = list(str_chars(deref_all(ex, st, args[0])))
        ps = list(str_chars(deref_all(ex, st, args[1])))
        if len(ps) > len(cs):
            return False
        r = True
        for a, b in zip(cs, ps):
            r = b_and(r, _simp(a == b) if (is_sym(a) or is_sym(b)) else a == b)
        return _simp(r) if is_sym(r) else r

    def m_splitn_last(ex, st, args, dest_ty, fname):
        """<SplitN<char> as Iterator>::last for splitn(2, sep): the part after the first separator, or the whole string"""
        it = deref_all(ex, st, args[0])
        cs = list(str_chars(deref_all(ex, st, it.s)))
        sep = it.sep
        if it.left != 2 or it.done:
            raise ExecError("SplitN::last: only splitn(2, c) from the start is modelled")
        cases, none_before = [], True
        for j, c in enumerate(cs):
            hit = _simp(c == sep) if is_sym(c) else (c == sep)
            cond = _simp(b_and(none_before, hit))
            if cond is not False and ex.ctx.feasible(st.pc, z3bool(cond) if cond is not True else True):
                cases.append((cond, some(("refval", mkstr(cs[j + 1:])))))
            none_before = _simp(b_and(none_before, b_not(hit)))
            if none_before is False:
                break
        if none_before is not False and ex.ctx.feasible(st.pc, z3bool(none_before) if none_before is not True else True):
            cases.append((none_before, some(("refval", mkstr(cs)))))
        if len(cases) == 1:
            return cases[0][1]
        return [(z3bool(c) if c is not True else True, v) for c, v in cases]

    def m_parse_bool(ex, st, args, dest_ty, fname):
        cs = list(str_chars(deref_all(ex, st, args[0])))
        def eqw(w):
            if len(cs) != len(w):
                return False
            r = True
            for a, ch in zip(cs, w):
                r = b_and(r, _simp(a == ord(ch)) if is_sym(a) else a == ord(ch))
            return _simp(r) if is_sym(r) else r
        t, f = eqw("true"), eqw("false")
        err = enum("Err", ("opaque", "ParseBoolError"))
        cases = []
        if t is not False:
            cases.append((t, enum("Ok", True)))
        if f is not False:
            cases.append((f, enum("Ok", False)))
        rest = _simp(b_not(b_or(t, f)))
        if rest is not False:
            cases.append((rest, err))
        if len(cases) == 1:
            return cases[0][1]
        return [(z3bool(c) if c is not True else True, v) for c, v in cases]

    def m_result_is_ok(ex, st, args, dest_ty, fname):
        v = deref_all(ex, st, args[0])
        return v[1] == "Ok"

    def m_wildcard_match(ex, st, args, dest_ty, fname):
        p = deref_all(ex, st, args[0])
        if not isinstance(p, ConcStr):
            raise ExecError("wildcard_match with a symbolic pattern (cross-crate call; decided by C05)")
        ps = [ord(c) for c in p.s]
        ts = list(str_chars(deref_all(ex, st, args[1])))
        memo = {}
        def g(i, j):
            if (i, j) in memo:
                return memo[(i, j)]
            if i == len(ps):
                r = j == len(ts)
            elif ps[i] == 42:
                r = g(i + 1, j)
                if j < len(ts):
                    r = b_or(r, g(i, j + 1))
            elif j < len(ts):
                e = _simp(ts[j] == ps[i]) if is_sym(ts[j]) else ts[j] == ps[i]
                r = b_and(e, g(i + 1, j + 1))
            else:
                r = False
            memo[(i, j)] = r
            return r
        r = g(0, 0)
        return z3.simplify(r) if is_sym(r) else r

    def m_i64_to_string(ex, st, args, dest_ty, fname):
        v = deref_all(ex, st, args[0])
        if is_sym(v):
            v2 = z3.simplify(v)
            if z3.is_int_value(v2):
                return ConcStr(str(v2.as_long()))
            return IntStr(v)
        return ConcStr(str(v))

    def m_str_into_string(ex, st, args, dest_ty, fname):
        return deref_all(ex, st, args[0])

    def m_config_error_new(ex, st, args, dest_ty, fname):
        return ("agg", (deref_all(ex, st, args[0]), deref_all(ex, st, args[1]), args[2]))

    def m_file_open(ex, st, args, dest_ty, fname):
        p = deref_all(ex, st, args[0])
        if not isinstance(p, ConcStr):
            if FS:
                raise ExecError("File::open with a symbolic path while files exist")
            return enum("Err", ("opaque", "io::Error:NotFound"))      # empty in-memory file system: nothing can be opened
        if p.s in FS:
            return enum("Ok", FileM(FS[p.s]))
        return enum("Err", ("opaque", "io::Error:NotFound"))

    def m_read_to_string(ex, st, args, dest_ty, fname):
        f = deref_all(ex, st, args[0])
        r = ref_to(ex, st, args[1])
        cur = ex.deref(r, st)
        add = list(str_chars(f.text))
        ex.write_ref(st, r, mkstr(list(str_chars(cur)) + add))
        return enum("Ok", len(add))

    def m_string_new(ex, st, args, dest_ty, fname):
        return ConcStr("")

    def m_vec_extend(ex, st, args, dest_ty, fname):
        from .models_json import VecM
        r = ref_to(ex, st, args[0])
        vec = ex.deref(r, st)
        other = deref_all(ex, st, args[1])
        ex.write_ref(st, r, VecM(tuple(vec.items) + tuple(other.items)))
        return UNIT

    def m_unwrap_err(ex, st, args, dest_ty, fname):
        v = args[0]
        if v[1] != "Err":
            return [(True, Panic("called `Result::unwrap_err()` on an `Ok` value"))]
        return v[2][0]

    def m_str_cmp(neg):
        def f(ex, st, args, dest_ty, fname):
            a = list(str_chars(deref_all(ex, st, args[0])))
            b = list(str_chars(deref_all(ex, st, args[1])))
            if len(a) != len(b):
                r = False
            else:
                r = True
                for x, y in zip(a, b):
                    r = b_and(r, _simp(x == y) if (is_sym(x) or is_sym(y)) else x == y)
            r = _simp(r) if is_sym(r) else r
            return b_not(r) if neg else r
        return f

    def m_tb_next(ex, st, args, dest_ty, fname):
        """TracebackIterator::next (3 lines of real code): current_line += 1; inner.next()"""
        r = ref_to(ex, st, args[0])
        tb = ex.deref(r, st)
        it, n = tb[1]
        if it.pos >= len(it.lines):
            ex.write_ref(st, r, ("agg", (it, n + 1)))
            return NONE
        ex.write_ref(st, r, ("agg", (replace(it, pos=it.pos + 1), n + 1)))
        return some(("refval", it.lines[it.pos]))

    def m_tb_line(ex, st, args, dest_ty, fname):
        tb = deref_all(ex, st, args[0])
        return tb[1][1]

    def m_tb_from(ex, st, args, dest_ty, fname):
        return ("agg", (args[0], 0))

    return [
        M(r"^core::str::<impl str>::lines$", m_lines),
        M(r"^<(std::str::)?Lines<'_> as Iterator>::next$", m_lines_next),
        M(r"^Option::<\(&str, &str\)>::map_or::<", m_opt_map_or),
        M(r"^core::str::<impl str>::starts_with::<&str>$", m_starts_with_str),
        M(r"^<(std::str::)?SplitN<'_, char> as Iterator>::last$", m_splitn_last),
        M(r"^core::str::<impl str>::parse::<bool>$", m_parse_bool),
        M(r"^Result::<(i64|bool), .*>::is_ok$", m_result_is_ok),
        M(r"^Result::<.*>::is_ok$", m_result_is_ok),
        M(r"(^|::)wildcard_match$", m_wildcard_match),
        M(r"^<i64 as ToString>::to_string$", m_i64_to_string),
        M(r"^<&str as Into<String>>::into$", m_str_into_string),
        M(r"^ConfigError::new$", m_config_error_new),
        M(r"^(std::fs::)?File::open::<", m_file_open),
        M(r"^<(std::fs::)?File as (std::io::)?Read>::read_to_string$", m_read_to_string),
        M(r"^String::new$", m_string_new),
        M(r"^<Vec<ConfigNode> as Extend<ConfigNode>>::extend::<Vec<ConfigNode>>$", m_vec_extend),
        M(r"^Result::<Vec<ConfigNode>, ConfigError>::unwrap_err$", m_unwrap_err),
        M(r"^<TracebackIterator<.*> as (std::convert::)?From<.*>>::from$", m_tb_from),
        M(r"^<TracebackIterator<.*> as Iterator>::next$", m_tb_next),
        M(r"^TracebackIterator::<.*>::current_line$", m_tb_line),
        M(r"^<&?(str|String) as PartialEq(<&?(str|String)>)?>::ne$", m_str_cmp(True)),
        M(r"^<&?(str|String) as PartialEq(<&?(str|String)>)?>::eq$", m_str_cmp(False)),
    ]
