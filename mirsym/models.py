"""Models of std functions used by the encoded kernels. Every entry here is part of the trusted base and is listed
(by the names actually hit) in the evidence of each run.

A model is `fn(ex, st, args, dest_ty, fname) -> value | [(cond, value | Panic)]`.
"""
import re
from dataclasses import dataclass, replace
import z3

from .exec import *


@dataclass(frozen=True)
class ConcStr:
    s: str

    def length(self):
        return len(self.s.encode("utf-8"))


@dataclass(frozen=True)
class SymStr:
    """A string given as a sequence of `char`s (Unicode scalar values): concrete length, symbolic contents."""
    name: str
    chars: tuple

    def key(self):
        return self.name


def utf8_len(c):
    """UTF-8 byte length of a char value (concrete or symbolic)."""
    if is_sym(c):
        return z3.If(c < 0x80, 1, z3.If(c < 0x800, 2, z3.If(c < 0x10000, 3, 4)))
    return 1 if c < 0x80 else 2 if c < 0x800 else 3 if c < 0x10000 else 4


@dataclass(frozen=True)
class MatchesIt:
    """str::matches(char) iterator: remaining chars and the needle."""
    s: object
    pos: int
    needle: object


@dataclass(frozen=True)
class CharsIt:
    s: object
    pos: int


@dataclass(frozen=True)
class PeekIt:
    s: object
    pos: int


def str_chars(s):
    if isinstance(s, ConcStr):
        return tuple(ord(c) for c in s.s)
    if isinstance(s, SymStr):
        return s.chars
    raise ExecError("not a string: %r" % (s,))


def m_str_chars(ex, st, args, dest_ty, fname):
    s = ex.deref(args[0], st)
    return CharsIt(s, 0)


def m_peekable(ex, st, args, dest_ty, fname):
    it = args[0]
    if isinstance(it, CharsIt):
        return PeekIt(it.s, it.pos)
    raise ExecError("peekable on %r" % (it,))


def m_peek(ex, st, args, dest_ty, fname):
    it = ex.deref(args[0], st)
    cs = str_chars(it.s)
    if it.pos < len(cs):
        return some(("refval", cs[it.pos]))
    return NONE


def m_peek_next(ex, st, args, dest_ty, fname):
    it = ex.deref(args[0], st)
    cs = str_chars(it.s)
    if it.pos < len(cs):
        ex.write_ref(st, args[0], replace(it, pos=it.pos + 1))
        return some(cs[it.pos])
    return NONE


def m_clone(ex, st, args, dest_ty, fname):
    return ex.deref(args[0], st)


def m_opt_copied(ex, st, args, dest_ty, fname):
    o = args[0]
    if o[1] == "Some":
        return some(ex.deref(o[2][0], st))
    return NONE


def m_opt_is_none(ex, st, args, dest_ty, fname):
    o = ex.deref(args[0], st)
    return o[1] == "None"


def m_opt_is_some(ex, st, args, dest_ty, fname):
    o = ex.deref(args[0], st)
    return o[1] == "Some"


def _opt_eq(a, b):
    if a[1] != b[1]:
        return False
    if a[1] == "None":
        return True
    x, y = a[2][0], b[2][0]
    if is_sym(x) or is_sym(y):
        return z3.simplify(x == y)
    return x == y


def m_opt_eq(ex, st, args, dest_ty, fname):
    return _opt_eq(ex.deref(args[0], st), ex.deref(args[1], st))


def m_opt_ne(ex, st, args, dest_ty, fname):
    return b_not(_opt_eq(ex.deref(args[0], st), ex.deref(args[1], st)))


def m_str_len(ex, st, args, dest_ty, fname):
    cs = str_chars(ex.deref(args[0], st))
    total = 0
    for c in cs:
        total = total + utf8_len(c)
    return z3.simplify(total) if is_sym(total) else total


def m_str_is_empty(ex, st, args, dest_ty, fname):
    return len(str_chars(ex.deref(args[0], st))) == 0


def m_chars_count(ex, st, args, dest_ty, fname):
    it = args[0]
    return len(str_chars(it.s)) - it.pos


def m_str_matches_char(ex, st, args, dest_ty, fname):
    return MatchesIt(ex.deref(args[0], st), 0, args[1])


def m_matches_count(ex, st, args, dest_ty, fname):
    it = args[0]
    cs = str_chars(it.s)[it.pos:]
    total = 0
    for c in cs:
        eq = (c == it.needle)
        total = total + (z3.If(eq, 1, 0) if is_sym(eq) else int(eq))
    return z3.simplify(total) if is_sym(total) else total


def m_str_contains_char(ex, st, args, dest_ty, fname):
    cs = str_chars(ex.deref(args[0], st))
    r = False
    for c in cs:
        r = b_or(r, c == args[1]) if is_sym(c == args[1]) else (r or bool(c == args[1]))
    return r


def m_str_starts_with_char(ex, st, args, dest_ty, fname):
    cs = str_chars(ex.deref(args[0], st))
    if not cs:
        return False
    r = cs[0] == args[1]
    return z3.simplify(r) if is_sym(r) else bool(r)


def m_str_ends_with_char(ex, st, args, dest_ty, fname):
    cs = str_chars(ex.deref(args[0], st))
    if not cs:
        return False
    r = cs[-1] == args[1]
    return z3.simplify(r) if is_sym(r) else bool(r)


def M(pattern, fn):
    return (re.compile(pattern), fn)


COMMON = [
    M(r"^core::str::<impl str>::chars$", m_str_chars),
    M(r"^<Chars<'_> as Iterator>::peekable$", m_peekable),
    M(r"^core::str::<impl str>::len$", m_str_len),
    M(r"^core::str::<impl str>::is_empty$", m_str_is_empty),
    M(r"^<Chars<'_> as Iterator>::count$", m_chars_count),
    M(r"^core::str::<impl str>::matches::<char>$", m_str_matches_char),
    M(r"^<Matches<'_, char> as Iterator>::count$", m_matches_count),
    M(r"^core::str::<impl str>::contains::<char>$", m_str_contains_char),
    M(r"^core::str::<impl str>::starts_with::<char>$", m_str_starts_with_char),
    M(r"^core::str::<impl str>::ends_with::<char>$", m_str_ends_with_char),
    M(r"^Peekable::<Chars<'_>>::peek$", m_peek),
    M(r"^<Peekable<Chars<'_>> as Iterator>::next$", m_peek_next),
    M(r"^<Peekable<Chars<'_>> as Clone>::clone$", m_clone),
    M(r"^Option::<&char>::copied$", m_opt_copied),
    M(r"^Option::<.*>::is_none$", m_opt_is_none),
    M(r"^Option::<.*>::is_some$", m_opt_is_some),
    M(r"^<Option<char> as PartialEq>::eq$", m_opt_eq),
    M(r"^<Option<char> as PartialEq>::ne$", m_opt_ne),
]
