"""Models of std functions used by the encoded kernels. Every entry here is part of the trusted base and is listed
(by the names actually hit) in the evidence of each run.

A model is `fn(ex, st, args, dest_ty, fname) -> value | [(cond, value | Panic)]`.
"""
import re
from dataclasses import dataclass, replace
import z3

from .exec import *


@dataclass(frozen=True)
class ConcStr:
    s: str

    def length(self):
        return len(self.s.encode("utf-8"))


@dataclass(frozen=True)
class SymStr:
    """A string given as a sequence of `char`s (Unicode scalar values): concrete length, symbolic contents."""
    name: str
    chars: tuple

    def key(self):
        return self.name


def utf8_len(c):
    """UTF-8 byte length of a char value (concrete or symbolic)."""
    if is_sym(c):
        return z3.If(c < 0x80, 1, z3.If(c < 0x800, 2, z3.If(c < 0x10000, 3, 4)))
    return 1 if c < 0x80 else 2 if c < 0x800 else 3 if c < 0x10000 else 4


@dataclass(frozen=True)
class MatchesIt:
    """str::matches(char) iterator: remaining chars and the needle."""
    s: object
    pos: int
    needle: object


@dataclass(frozen=True)
class CharsIt:
    s: object
    pos: int


@dataclass(frozen=True)
class PeekIt:
    s: object
    pos: int


def str_chars(s):
    if isinstance(s, ConcStr):
        return tuple(ord(c) for c in s.s)
    if isinstance(s, SymStr):
        return s.chars
    raise ExecError("not a string: %r" % (s,))


def m_str_chars(ex, st, args, dest_ty, fname):
    s = ex.deref(args[0], st)
    return CharsIt(s, 0)


def m_peekable(ex, st, args, dest_ty, fname):
    it = args[0]
    if isinstance(it, CharsIt):
        return PeekIt(it.s, it.pos)
    raise ExecError("peekable on %r" % (it,))


def m_peek(ex, st, args, dest_ty, fname):
    it = ex.deref(args[0], st)
    cs = str_chars(it.s)
    if it.pos < len(cs):
        return some(("refval", cs[it.pos]))
    return NONE


def m_peek_next(ex, st, args, dest_ty, fname):
    it = ex.deref(args[0], st)
    cs = str_chars(it.s)
    if it.pos < len(cs):
        ex.write_ref(st, args[0], replace(it, pos=it.pos + 1))
        return some(cs[it.pos])
    return NONE


def m_clone(ex, st, args, dest_ty, fname):
    return ex.deref(args[0], st)


def m_opt_copied(ex, st, args, dest_ty, fname):
    o = args[0]
    if o[1] == "Some":
        return some(ex.deref(o[2][0], st))
    return NONE


def m_opt_is_none(ex, st, args, dest_ty, fname):
    o = ex.deref(args[0], st)
    return o[1] == "None"


def m_opt_is_some(ex, st, args, dest_ty, fname):
    o = ex.deref(args[0], st)
    return o[1] == "Some"


def _opt_eq(a, b):
    if a[1] != b[1]:
        return False
    if a[1] == "None":
        return True
    x, y = a[2][0], b[2][0]
    if is_sym(x) or is_sym(y):
        return z3.simplify(x == y)
    return x == y


def m_opt_eq(ex, st, args, dest_ty, fname):
    return _opt_eq(ex.deref(args[0], st), ex.deref(args[1], st))


def m_opt_ref_eq(ex, st, args, dest_ty, fname):
    """<Option<&char> as PartialEq>::eq: compares the referents."""
    a = ex.deref(args[0], st)
    b = ex.deref(args[1], st)
    if a[1] != b[1]:
        return False
    if a[1] == "None":
        return True
    x, y = ex.deref(a[2][0], st), ex.deref(b[2][0], st)
    r = (x == y)
    return z3.simplify(r) if is_sym(r) else bool(r)


def m_opt_ne(ex, st, args, dest_ty, fname):
    return b_not(_opt_eq(ex.deref(args[0], st), ex.deref(args[1], st)))


def m_str_len(ex, st, args, dest_ty, fname):
    cs = str_chars(ex.deref(args[0], st))
    total = 0
    for c in cs:
        total = total + utf8_len(c)
    return z3.simplify(total) if is_sym(total) else total


def m_str_is_empty(ex, st, args, dest_ty, fname):
    return len(str_chars(ex.deref(args[0], st))) == 0


def m_chars_count(ex, st, args, dest_ty, fname):
    it = args[0]
    return len(str_chars(it.s)) - it.pos


def m_str_matches_char(ex, st, args, dest_ty, fname):
    return MatchesIt(ex.deref(args[0], st), 0, args[1])


def m_matches_count(ex, st, args, dest_ty, fname):
    it = args[0]
    cs = str_chars(it.s)[it.pos:]
    total = 0
    for c in cs:
        eq = (c == it.needle)
        total = total + (z3.If(eq, 1, 0) if is_sym(eq) else int(eq))
    return z3.simplify(total) if is_sym(total) else total


def m_str_contains_char(ex, st, args, dest_ty, fname):
    cs = str_chars(ex.deref(args[0], st))
    r = False
    for c in cs:
        r = b_or(r, c == args[1]) if is_sym(c == args[1]) else (r or bool(c == args[1]))
    return r


def m_str_starts_with_char(ex, st, args, dest_ty, fname):
    cs = str_chars(ex.deref(args[0], st))
    if not cs:
        return False
    r = cs[0] == args[1]
    return z3.simplify(r) if is_sym(r) else bool(r)


def m_str_ends_with_char(ex, st, args, dest_ty, fname):
    cs = str_chars(ex.deref(args[0], st))
    if not cs:
        return False
    r = cs[-1] == args[1]
    return z3.simplify(r) if is_sym(r) else bool(r)


I64_MIN, I64_MAX = -(1 << 63), (1 << 63) - 1


def parse_int_cases(cs, lo=I64_MIN, hi=I64_MAX):
    """Semantics of <i64 as FromStr>::from_str over a sequence of chars: optional single '+'/'-', then one or more ASCII digits,
    value within range. Returns (accept_condition, value_term)."""
    n = len(cs)
    if n == 0:
        return False, 0
    def digit(c):
        return z3.And(c >= 48, c <= 57) if is_sym(c) else (48 <= c <= 57)
    def val(ds):
        v = 0
        for c in ds:
            v = v * 10 + (c - 48)
        return v
    c0 = cs[0]
    plus = (c0 == 43)
    minus = (c0 == 45)
    all_digits = True
    for c in cs:
        all_digits = b_and(all_digits, digit(c))
    rest_digits = True
    for c in cs[1:]:
        rest_digits = b_and(rest_digits, digit(c))
    v_plain = val(cs)
    v_rest = val(cs[1:]) if n > 1 else 0
    signed_ok = b_and(rest_digits, n > 1)
    def in_range(v):
        if is_sym(v):
            return z3.And(v >= lo, v <= hi)
        return lo <= v <= hi
    acc = b_or(b_and(all_digits, in_range(v_plain)),
               b_or(b_and(b_and(plus if is_sym(plus) else bool(plus), signed_ok), in_range(v_rest)),
                    b_and(b_and(minus if is_sym(minus) else bool(minus), signed_ok), in_range(-v_rest if not isinstance(v_rest, bool) else 0))))
    value = v_plain
    if n > 1:
        value = ite(minus if is_sym(minus) else bool(minus), -v_rest, ite(plus if is_sym(plus) else bool(plus), v_rest, v_plain))
    return acc, value


def m_parse_i64(ex, st, args, dest_ty, fname):
    cs = str_chars(ex.deref(args[0], st))
    acc, value = parse_int_cases(cs)
    if acc is True:
        return enum("Ok", value)
    if acc is False:
        return enum("Err", ("opaque", "ParseIntError"))
    acc = z3.simplify(acc)
    return [(acc, enum("Ok", value)), (z3.Not(acc), enum("Err", ("opaque", "ParseIntError")))]


def m_map_err_unit(ex, st, args, dest_ty, fname):
    r = args[0]
    if r[1] == "Ok":
        return r
    return enum("Err", UNIT)      # the closures in the encoded code are `|_| ()`


def m_chars_last(ex, st, args, dest_ty, fname):
    it = args[0]
    cs = str_chars(it.s)[it.pos:]
    return some(cs[-1]) if cs else NONE


def m_opt_unwrap(ex, st, args, dest_ty, fname):
    o = args[0]
    if o[1] == "Some":
        return o[2][0]
    return Panic("called `Option::unwrap()` on a `None` value")


def m_to_ascii_uppercase(ex, st, args, dest_ty, fname):
    c = ex.deref(args[0], st)
    if is_sym(c):
        return z3.If(z3.And(c >= 97, c <= 122), c - 32, c)
    return c - 32 if 97 <= c <= 122 else c


def m_to_ascii_lowercase(ex, st, args, dest_ty, fname):
    c = ex.deref(args[0], st)
    if is_sym(c):
        return z3.If(z3.And(c >= 65, c <= 90), c + 32, c)
    return c + 32 if 65 <= c <= 90 else c


def _char_pred(ranges):
    """char predicate given as inclusive code point ranges."""
    def f(ex, st, args, dest_ty, fname):
        c = ex.deref(args[0], st) if isinstance(args[0], tuple) and args[0] and args[0][0] in ("ref", "refval") else args[0]
        if is_sym(c):
            return z3.simplify(z3.Or(*[(c == a) if a == b else z3.And(c >= a, c <= b) for a, b in ranges]))
        return any(a <= c <= b for a, b in ranges)
    return f


CHAR_PREDICATES = {
    "is_ascii_whitespace": [(0x20, 0x20), (0x09, 0x0A), (0x0C, 0x0D)],
    "is_ascii_digit": [(0x30, 0x39)],
    "is_ascii_hexdigit": [(0x30, 0x39), (0x41, 0x46), (0x61, 0x66)],
    "is_ascii_alphabetic": [(0x41, 0x5A), (0x61, 0x7A)],
    "is_ascii_alphanumeric": [(0x30, 0x39), (0x41, 0x5A), (0x61, 0x7A)],
    "is_ascii_uppercase": [(0x41, 0x5A)],
    "is_ascii_lowercase": [(0x61, 0x7A)],
    "is_ascii_punctuation": [(0x21, 0x2F), (0x3A, 0x40), (0x5B, 0x60), (0x7B, 0x7E)],
    "is_ascii_graphic": [(0x21, 0x7E)],
    "is_ascii_control": [(0x00, 0x1F), (0x7F, 0x7F)],
    "is_ascii": [(0x00, 0x7F)],
    # Unicode White_Space (char::is_whitespace)
    "is_whitespace": [(0x09, 0x0D), (0x20, 0x20), (0x85, 0x85), (0xA0, 0xA0), (0x1680, 0x1680), (0x2000, 0x200A), (0x2028, 0x2029), (0x202F, 0x202F), (0x205F, 0x205F), (0x3000, 0x3000)],
    # Unicode Cc (char::is_control)
    "is_control": [(0x00, 0x1F), (0x7F, 0x9F)],
}


def m_str_index_range(ex, st, args, dest_ty, fname):
    """<str as Index<Range<usize>>>::index: byte offsets must fall on char boundaries (else panic)."""
    s = ex.deref(args[0], st)
    cs = str_chars(s)
    a, b = args[1][1]
    prefix = [0]
    for c in cs:
        prefix.append(prefix[-1] + utf8_len(c))
    cases = []
    covered = False
    for i in range(len(cs) + 1):
        for j in range(i, len(cs) + 1):
            ci = (a == prefix[i])
            cj = (b == prefix[j])
            ci = z3.simplify(ci) if is_sym(ci) else bool(ci)
            cj = z3.simplify(cj) if is_sym(cj) else bool(cj)
            cond = b_and(ci, cj)
            if is_sym(cond):
                cond = z3.simplify(cond)
                if z3.is_false(cond):
                    continue
                if z3.is_true(cond):
                    cond = True
            if cond is False:
                continue
            sub = SymStr(getattr(s, "name", "s") + "[%d..%d]" % (i, j), tuple(cs[i:j])) if isinstance(s, SymStr) else ConcStr(s.s[i:j])
            cases.append((cond, ("refval", sub)))
            if cond is True:
                return ("refval", sub)
    bad = True
    for c, _ in cases:
        bad = b_and(bad, b_not(c))
    if bad is not False:
        cases.append((bad, Panic("byte index is not a char boundary / out of range in str slice")))
    return cases


def _total_bytes(cs):
    n = 0
    for c in cs:
        n = n + utf8_len(c)
    return n


def m_str_index_range_to(ex, st, args, dest_ty, fname):
    """<str as Index<RangeTo<usize>>>::index  (s[..b])"""
    b = args[1][1][0]
    return m_str_index_range(ex, st, [args[0], ("agg", (0, b))], dest_ty, fname)


def m_str_index_range_from(ex, st, args, dest_ty, fname):
    """<str as Index<RangeFrom<usize>>>::index  (s[a..])"""
    a = args[1][1][0]
    cs = str_chars(ex.deref(args[0], st))
    return m_str_index_range(ex, st, [args[0], ("agg", (a, _total_bytes(cs)))], dest_ty, fname)


def m_str_get_range_to(ex, st, args, dest_ty, fname):
    b = args[1][1][0]
    return m_str_get_range(ex, st, [args[0], ("agg", (0, b))], dest_ty, fname)


def m_str_get_range_from(ex, st, args, dest_ty, fname):
    a = args[1][1][0]
    cs = str_chars(ex.deref(args[0], st))
    return m_str_get_range(ex, st, [args[0], ("agg", (a, _total_bytes(cs)))], dest_ty, fname)


def m_str_get_range(ex, st, args, dest_ty, fname):
    """str::get(a..b): Some(slice) when both offsets are char boundaries in range, else None."""
    a, b = args[1][1]
    if not is_sym(a) and not is_sym(b) and a > b:
        return NONE
    r = m_str_index_range(ex, st, args, dest_ty, fname)
    if not isinstance(r, list):
        return some(r)
    return [(c, NONE if isinstance(v, Panic) else some(v)) for c, v in r]


def _substr(s, i, j):
    cs = str_chars(s)
    return SymStr(getattr(s, "name", "s") + "[%d..%d]" % (i, j), tuple(cs[i:j])) if isinstance(s, SymStr) else ConcStr(s.s[i:j])


def _simp(c):
    if is_sym(c):
        c = z3.simplify(c)
        if z3.is_true(c):
            return True
        if z3.is_false(c):
            return False
    return bool(c) if not is_sym(c) else c


def m_trim_end_matches_char(ex, st, args, dest_ty, fname):
    """str::trim_end_matches(char): the longest prefix that does not end with the char."""
    s = ex.deref(args[0], st)
    cs = str_chars(s)
    c = args[1]
    cases = []
    for j in range(len(cs), -1, -1):
        cond = True
        for k in range(j, len(cs)):
            cond = b_and(cond, _simp(cs[k] == c))
        if j > 0:
            cond = b_and(cond, _simp(b_not(_simp(cs[j - 1] == c))))
        cond = _simp(cond)
        if cond is False:
            continue
        cases.append((cond, ("refval", _substr(s, 0, j))))
        if cond is True:
            break
    return cases


def m_trim_start_matches_char(ex, st, args, dest_ty, fname):
    s = ex.deref(args[0], st)
    cs = str_chars(s)
    c = args[1]
    cases = []
    for j in range(0, len(cs) + 1):
        cond = True
        for k in range(0, j):
            cond = b_and(cond, _simp(cs[k] == c))
        if j < len(cs):
            cond = b_and(cond, _simp(b_not(_simp(cs[j] == c))))
        cond = _simp(cond)
        if cond is False:
            continue
        cases.append((cond, ("refval", _substr(s, j, len(cs)))))
        if cond is True:
            break
    return cases


def m_ends_with_char(ex, st, args, dest_ty, fname):
    cs = str_chars(ex.deref(args[0], st))
    return _simp(cs[-1] == args[1]) if cs else False


def m_starts_with_char(ex, st, args, dest_ty, fname):
    cs = str_chars(ex.deref(args[0], st))
    return _simp(cs[0] == args[1]) if cs else False


def m_strip_suffix_char(ex, st, args, dest_ty, fname):
    s = ex.deref(args[0], st)
    cs = str_chars(s)
    if not cs:
        return NONE
    c = _simp(cs[-1] == args[1])
    if c is True:
        return some(("refval", _substr(s, 0, len(cs) - 1)))
    if c is False:
        return NONE
    return [(c, some(("refval", _substr(s, 0, len(cs) - 1)))), (b_not(c), NONE)]


def m_len_utf8(ex, st, args, dest_ty, fname):
    return utf8_len(args[0])


def m_checked_mul_i64(ex, st, args, dest_ty, fname):
    a, b = args
    p = a * b
    if is_sym(p):
        ok = z3.And(p >= I64_MIN, p <= I64_MAX)
        return [(ok, some(p)), (z3.Not(ok), NONE)]
    return some(p) if I64_MIN <= p <= I64_MAX else NONE


def m_checked_add_i64(ex, st, args, dest_ty, fname):
    a, b = args
    p = a + b
    if is_sym(p):
        ok = z3.And(p >= I64_MIN, p <= I64_MAX)
        return [(ok, some(p)), (z3.Not(ok), NONE)]
    return some(p) if I64_MIN <= p <= I64_MAX else NONE


def m_opt_ok_or(ex, st, args, dest_ty, fname):
    o, e = args
    return enum("Ok", o[2][0]) if o[1] == "Some" else enum("Err", e)


def m_try_branch(ex, st, args, dest_ty, fname):
    r = args[0]
    if r[1] == "Ok":
        return enum("Continue", r[2][0])
    return enum("Break", enum("Err", r[2][0]))


def m_from_residual_err(ex, st, args, dest_ty, fname):
    r = args[0]
    return enum("Err", r[2][0] if r[2] else UNIT)


def m_range_contains(ex, st, args, dest_ty, fname):
    """Range::<T>::contains(&self, &item): start <= item < end"""
    r = args[0]
    while isinstance(r, tuple) and r and r[0] in ("ref", "refval"):
        r = ex.deref(r, st)
    v = args[1]
    while isinstance(v, tuple) and v and v[0] in ("ref", "refval"):
        v = ex.deref(v, st)
    lo, hi = r[1][0], r[1][1]
    c = b_and(lo <= v, v < hi)
    return z3.simplify(c) if is_sym(c) else c


def m_range_incl_contains(ex, st, args, dest_ty, fname):
    """RangeInclusive::<T>::contains(&self, &item): start <= item <= end (fields start, end, exhausted)"""
    r = args[0]
    while isinstance(r, tuple) and r and r[0] in ("ref", "refval"):
        r = ex.deref(r, st)
    v = args[1]
    while isinstance(v, tuple) and v and v[0] in ("ref", "refval"):
        v = ex.deref(v, st)
    lo, hi = r[1][0], r[1][1]
    c = b_and(lo <= v, v <= hi)
    return z3.simplify(c) if is_sym(c) else c


def M(pattern, fn):
    return (re.compile(pattern), fn)


def m_int_min(ex, st, args, dest_ty, fname):
    a, b = args
    if is_sym(a) or is_sym(b):
        return z3.If(a <= b, a, b)
    return min(a, b)


def m_int_max(ex, st, args, dest_ty, fname):
    a, b = args
    if is_sym(a) or is_sym(b):
        return z3.If(a >= b, a, b)
    return max(a, b)


COMMON = [
    M(r"^<(u8|u16|u32|u64|usize|i8|i16|i32|i64|isize) as Ord>::min$", m_int_min),
    M(r"^<(u8|u16|u32|u64|usize|i8|i16|i32|i64|isize) as Ord>::max$", m_int_max),
    M(r"^(std|core)::cmp::min::<(u8|u16|u32|u64|usize|i8|i16|i32|i64|isize)>$", m_int_min),
    M(r"^(std|core)::cmp::max::<(u8|u16|u32|u64|usize|i8|i16|i32|i64|isize)>$", m_int_max),
    M(r"^core::num::<impl u8>::to_ascii_uppercase$", m_to_ascii_uppercase),
    M(r"^core::num::<impl u8>::to_ascii_lowercase$", m_to_ascii_lowercase),
    M(r"^core::num::<impl u8>::is_ascii_whitespace$", _char_pred(CHAR_PREDICATES["is_ascii_whitespace"])),
    M(r"^core::num::<impl u8>::is_ascii_digit$", _char_pred(CHAR_PREDICATES["is_ascii_digit"])),
    M(r"^core::num::<impl u8>::is_ascii_hexdigit$", _char_pred(CHAR_PREDICATES["is_ascii_hexdigit"])),
    M(r"^core::num::<impl u8>::is_ascii_alphabetic$", _char_pred(CHAR_PREDICATES["is_ascii_alphabetic"])),
    M(r"^core::num::<impl u8>::is_ascii_alphanumeric$", _char_pred(CHAR_PREDICATES["is_ascii_alphanumeric"])),
    M(r"^core::num::<impl u8>::is_ascii_uppercase$", _char_pred(CHAR_PREDICATES["is_ascii_uppercase"])),
    M(r"^core::num::<impl u8>::is_ascii_lowercase$", _char_pred(CHAR_PREDICATES["is_ascii_lowercase"])),
    M(r"^core::num::<impl u8>::is_ascii_punctuation$", _char_pred(CHAR_PREDICATES["is_ascii_punctuation"])),
    M(r"^core::num::<impl u8>::is_ascii_graphic$", _char_pred(CHAR_PREDICATES["is_ascii_graphic"])),
    M(r"^core::num::<impl u8>::is_ascii_control$", _char_pred(CHAR_PREDICATES["is_ascii_control"])),
    M(r"^core::num::<impl u8>::is_ascii$", _char_pred(CHAR_PREDICATES["is_ascii"])),
    M(r"^char::methods::<impl char>::is_ascii_whitespace$", _char_pred(CHAR_PREDICATES["is_ascii_whitespace"])),
    M(r"^char::methods::<impl char>::is_ascii_digit$", _char_pred(CHAR_PREDICATES["is_ascii_digit"])),
    M(r"^char::methods::<impl char>::is_ascii_hexdigit$", _char_pred(CHAR_PREDICATES["is_ascii_hexdigit"])),
    M(r"^char::methods::<impl char>::is_ascii_alphabetic$", _char_pred(CHAR_PREDICATES["is_ascii_alphabetic"])),
    M(r"^char::methods::<impl char>::is_ascii_alphanumeric$", _char_pred(CHAR_PREDICATES["is_ascii_alphanumeric"])),
    M(r"^char::methods::<impl char>::is_ascii_uppercase$", _char_pred(CHAR_PREDICATES["is_ascii_uppercase"])),
    M(r"^char::methods::<impl char>::is_ascii_lowercase$", _char_pred(CHAR_PREDICATES["is_ascii_lowercase"])),
    M(r"^char::methods::<impl char>::is_ascii_punctuation$", _char_pred(CHAR_PREDICATES["is_ascii_punctuation"])),
    M(r"^char::methods::<impl char>::is_ascii_graphic$", _char_pred(CHAR_PREDICATES["is_ascii_graphic"])),
    M(r"^char::methods::<impl char>::is_ascii_control$", _char_pred(CHAR_PREDICATES["is_ascii_control"])),
    M(r"^char::methods::<impl char>::is_ascii$", _char_pred(CHAR_PREDICATES["is_ascii"])),
    M(r"^char::methods::<impl char>::is_whitespace$", _char_pred(CHAR_PREDICATES["is_whitespace"])),
    M(r"^char::methods::<impl char>::is_control$", _char_pred(CHAR_PREDICATES["is_control"])),
    M(r"^core::str::<impl str>::parse::<i64>$", m_parse_i64),
    M(r"^Result::<i64, ParseIntError>::map_err::<\(\), ", m_map_err_unit),
    M(r"^<Chars<'_> as Iterator>::last$", m_chars_last),
    M(r"^(std::ops::|core::ops::)?Range::<\w+>::contains::<\w+>$", m_range_contains),
    M(r"^(std::ops::|core::ops::)?RangeInclusive::<\w+>::contains::<\w+>$", m_range_incl_contains),
    M(r"^Option::<char>::unwrap$", m_opt_unwrap),
    M(r"^char::methods::<impl char>::to_ascii_uppercase$", m_to_ascii_uppercase),
    M(r"^char::methods::<impl char>::to_ascii_lowercase$", m_to_ascii_lowercase),
    M(r"^<str as Index<std::ops::Range<usize>>>::index$", m_str_index_range),
    M(r"^core::str::<impl str>::get::<std::ops::Range<usize>>$", m_str_get_range),
    M(r"^core::str::<impl str>::get::<RangeTo<usize>>$", m_str_get_range_to),
    M(r"^core::str::<impl str>::get::<std::ops::RangeFrom<usize>>$", m_str_get_range_from),
    M(r"^<(str|String) as Index<RangeTo<usize>>>::index$", m_str_index_range_to),
    M(r"^<(str|String) as Index<std::ops::RangeFrom<usize>>>::index$", m_str_index_range_from),
    M(r"^core::str::<impl str>::trim_end_matches::<char>$", m_trim_end_matches_char),
    M(r"^core::str::<impl str>::trim_start_matches::<char>$", m_trim_start_matches_char),
    M(r"^core::str::<impl str>::ends_with::<char>$", m_ends_with_char),
    M(r"^core::str::<impl str>::starts_with::<char>$", m_starts_with_char),
    M(r"^core::str::<impl str>::strip_suffix::<char>$", m_strip_suffix_char),
    M(r"^char::methods::<impl char>::len_utf8$", m_len_utf8),
    M(r"^core::num::<impl i64>::checked_mul$", m_checked_mul_i64),
    M(r"^core::num::<impl i64>::checked_add$", m_checked_add_i64),
    M(r"^Option::<.*>::ok_or::<", m_opt_ok_or),
    M(r"^<Result<.*> as Try>::branch$", m_try_branch),
    M(r"^<Result<.*> as FromResidual<Result<Infallible, .*>>>::from_residual$", m_from_residual_err),
    M(r"^core::str::<impl str>::chars$", m_str_chars),
    M(r"^<Chars<'_> as Iterator>::peekable$", m_peekable),
    M(r"^core::str::<impl str>::len$", m_str_len),
    M(r"^core::str::<impl str>::is_empty$", m_str_is_empty),
    M(r"^<Chars<'_> as Iterator>::count$", m_chars_count),
    M(r"^core::str::<impl str>::matches::<char>$", m_str_matches_char),
    M(r"^<Matches<'_, char> as Iterator>::count$", m_matches_count),
    M(r"^core::str::<impl str>::contains::<char>$", m_str_contains_char),
    M(r"^core::str::<impl str>::starts_with::<char>$", m_str_starts_with_char),
    M(r"^core::str::<impl str>::ends_with::<char>$", m_str_ends_with_char),
    M(r"^Peekable::<Chars<'_>>::peek$", m_peek),
    M(r"^<Peekable<Chars<'_>> as Iterator>::next$", m_peek_next),
    M(r"^<Peekable<Chars<'_>> as Clone>::clone$", m_clone),
    M(r"^Option::<&char>::copied$", m_opt_copied),
    M(r"^Option::<.*>::is_none$", m_opt_is_none),
    M(r"^Option::<.*>::is_some$", m_opt_is_some),
    M(r"^<Option<char> as PartialEq>::eq$", m_opt_eq),
    M(r"^<Option<&char> as PartialEq>::eq$", m_opt_ref_eq),
    M(r"^<Option<char> as PartialEq>::ne$", m_opt_ne),
]
