"""std models for the file-cache step (C16): VecDeque as a bounded sequence, opaque string tokens, Vec<u8> as (len, tag),
clock calls as fresh non-decreasing integers."""
import re
from dataclasses import dataclass, replace
import z3

from .exec import *
from .models import M


@dataclass(frozen=True)
class Deque:
    items: tuple

    def elements(self):
        return self.items

    def with_elements(self, items):
        return Deque(tuple(items))

    def length(self):
        return len(self.items)


@dataclass(frozen=True)
class StrTok:
    """A string known only by identity (route paths): equality of strings = equality of ids."""
    id: object


@dataclass(frozen=True)
class VecU8:
    length_: object
    tag: object       # stands for the contents

    def length(self):
        return self.length_


@dataclass(frozen=True)
class DequeIter:
    dq: object       # reference to the deque place
    pos: int


@dataclass(frozen=True)
class TimeVal:
    secs: object


class Clock:
    """SystemTime::now() returns fresh integers t_0 <= t_1 <= ... (assumptions collected in .constraints)."""
    def __init__(self, floor_terms=(), name="now"):
        self.values = []
        self.constraints = []
        self.floor = list(floor_terms)
        self.by_site = {}
        self.name = name

    def tick(self, site=None):
        """One clock reading per call site (the same reading on every path through that site), so that post-conditions
        can name it; readings are >= every floor term (stored times / earlier readings given by the caller)."""
        if site is not None and site in self.by_site:
            return self.by_site[site]
        t = z3.Int("%s_%d" % (self.name, len(self.values)))
        if site is not None:
            self.by_site[site] = t
        for f in self.floor:
            self.constraints.append(t >= f)
        self.constraints.append(t >= 0)
        self.constraints.append(t < (1 << 62))
        self.values.append(t)
        return t


def make_models(clock: Clock):
    def m_now(ex, st, args, dest_ty, fname):
        t = clock.tick((st.func.name, getattr(st, "cur_bb", None)))
        # the new reading is constrained immediately, so feasibility pruning sees a monotone clock
        ex.ctx.base_assumptions = list(ex.ctx.base_assumptions) + [c for c in clock.constraints if c not in ex.ctx.base_assumptions]
        return TimeVal(t)

    def m_duration_since(ex, st, args, dest_ty, fname):
        tv = ex.deref(args[0], st)
        return enum("Ok", TimeVal(tv.secs))

    def m_unwrap(ex, st, args, dest_ty, fname):
        v = args[0]
        if v[1] in ("Ok", "Some"):
            return v[2][0]
        return Panic("called unwrap on an Err/None value")

    def m_as_secs(ex, st, args, dest_ty, fname):
        return ex.deref(args[0], st).secs

    def m_iter(ex, st, args, dest_ty, fname):
        return DequeIter(args[0], 0)

    def m_position(ex, st, args, dest_ty, fname):
        it = ex.deref(args[0], st)
        clos = args[1]
        dq = ex.deref(it.dq, st)
        f = ex.closure_function(clos[1])
        # the closure takes (&mut closure, &item)
        cases = []
        none_so_far = True
        for i in range(it.pos, len(dq.items)):
            cref = ("refval", clos)
            val, pan = ex.call_value(st, f, [cref, ("refval", dq.items[i])])
            if pan is not False:
                cases.append((b_and(none_so_far, pan), Panic("panic inside position() predicate")))
            hit = b_and(none_so_far, val)
            if hit is not False:
                cases.append((hit, some(i)))
            none_so_far = b_and(none_so_far, b_not(val))
            if none_so_far is False:
                break
        if none_so_far is not False:
            cases.append((none_so_far, NONE))
        return cases

    def _elem_ref(dqref, i, dq):
        if dqref[0] == "ref":
            _, (kind, fid, local, proj) = dqref
            return ("ref", (kind, fid, local, tuple(proj) + (("cindex", i, False),)))
        return ("refval", dq.items[i])

    def m_find(ex, st, args, dest_ty, fname):
        """Iterator::find over a deque iterator: first element whose predicate holds (as a reference to the element)."""
        it = ex.deref(args[0], st)
        clos = args[1]
        dq = ex.deref(it.dq, st)
        f = ex.closure_function(clos[1])
        cases = []
        none_so_far = True
        for i in range(it.pos, len(dq.items)):
            eref = _elem_ref(it.dq, i, dq)
            val, pan = ex.call_value(st, f, [("refval", clos), ("refval", eref)])
            if pan is not False:
                cases.append((b_and(none_so_far, pan), Panic("panic inside find() predicate")))
            hit = b_and(none_so_far, val)
            if hit is not False:
                cases.append((hit, some(eref)))
            none_so_far = b_and(none_so_far, b_not(val))
            if none_so_far is False:
                break
        if none_so_far is not False:
            cases.append((none_so_far, NONE))
        return cases

    def _call_closure(ex, st, clos, argvals):
        f = ex.closure_function(clos[1])
        # closures are compiled with the arguments spread: (closure, arg0, arg1, ...)
        return ex.call_value(st, f, [clos] + list(argvals))

    def m_opt_map_or(ex, st, args, dest_ty, fname):
        o, default, clos = args
        if o[1] == "None":
            return default
        val, pan = _call_closure(ex, st, clos, [o[2][0]])
        if pan is not False:
            return [(pan, Panic("panic inside map_or closure")), (b_not(pan), val)]
        return val

    def m_opt_map(ex, st, args, dest_ty, fname):
        o, clos = args
        if o[1] == "None":
            return NONE
        val, pan = _call_closure(ex, st, clos, [o[2][0]])
        if pan is not False:
            return [(pan, Panic("panic inside map closure")), (b_not(pan), some(val))]
        return some(val)

    def m_opt_and_then(ex, st, args, dest_ty, fname):
        o, clos = args
        if o[1] == "None":
            return NONE
        # the closure may mutate captured state (e.g. remove from the deque): inline it with heap effects
        f = ex.closure_function(clos[1])
        ensure_parsed(f)
        heap = ex.copy_heap(st.heap)
        heap[st.frame] = dict(st.locals)
        sub = ex.run_function(f, [clos, o[2][0]], heap=heap, pc=st.pc)
        out = []
        for c, v, l, h in sub.rets:
            out.append((c, v, h))
        for c, m in sub.panics:
            out.append((c, Panic(m), None))
        return ("__with_heap__", out)

    def m_opt_unwrap_or(ex, st, args, dest_ty, fname):
        o, default = args
        return o[2][0] if o[1] == "Some" else default

    def m_iter_mut(ex, st, args, dest_ty, fname):
        return DequeIter(args[0], 0)

    def m_deque_get(ex, st, args, dest_ty, fname):
        dq = ex.deref(args[0], st)
        i = args[1]
        if is_sym(i):
            raise ExecError("symbolic VecDeque::get index")
        if 0 <= i < len(dq.items):
            return some(_elem_ref(args[0], i, dq))
        return NONE

    def m_deque_front(ex, st, args, dest_ty, fname):
        dq = ex.deref(args[0], st)
        return some(_elem_ref(args[0], 0, dq)) if dq.items else NONE

    def m_deque_is_empty(ex, st, args, dest_ty, fname):
        return len(ex.deref(args[0], st).items) == 0

    def m_index(ex, st, args, dest_ty, fname):
        dqref, idx = args[0], args[1]
        dq = ex.deref(dqref, st)
        if is_sym(idx):
            raise ExecError("symbolic VecDeque index")
        if not (0 <= idx < len(dq.items)):
            return Panic("VecDeque index out of bounds: the len is %d but the index is %d" % (len(dq.items), idx))
        if dqref[0] == "ref":
            _, (kind, fid, local, proj) = dqref
            return ("ref", (kind, fid, local, tuple(proj) + (("cindex", idx, False),)))
        return ("refval", dq.items[idx])

    def m_pop_front(ex, st, args, dest_ty, fname):
        dq = ex.deref(args[0], st)
        if not dq.items:
            return NONE
        ex.write_ref(st, args[0], Deque(dq.items[1:]))
        return some(dq.items[0])

    def m_remove(ex, st, args, dest_ty, fname):
        dq = ex.deref(args[0], st)
        idx = args[1]
        if is_sym(idx):
            raise ExecError("symbolic VecDeque::remove index")
        if not (0 <= idx < len(dq.items)):
            return NONE
        ex.write_ref(st, args[0], Deque(dq.items[:idx] + dq.items[idx + 1:]))
        return some(dq.items[idx])

    def m_push_back(ex, st, args, dest_ty, fname):
        dq = ex.deref(args[0], st)
        ex.write_ref(st, args[0], Deque(dq.items + (args[1],)))
        return UNIT

    def m_push_front(ex, st, args, dest_ty, fname):
        dq = ex.deref(args[0], st)
        ex.write_ref(st, args[0], Deque((args[1],) + dq.items))
        return UNIT

    def m_deque_len(ex, st, args, dest_ty, fname):
        return len(ex.deref(args[0], st).items)

    def m_vec_len(ex, st, args, dest_ty, fname):
        return ex.deref(args[0], st).length_

    def m_str_eq(ex, st, args, dest_ty, fname):
        a = ex.deref(args[0], st)
        b = ex.deref(args[1], st)
        while isinstance(b, tuple) and b and b[0] in ("ref", "refval"):
            b = ex.deref(b, st)
        while isinstance(a, tuple) and a and a[0] in ("ref", "refval"):
            a = ex.deref(a, st)
        r = a.id == b.id
        return z3.simplify(r) if is_sym(r) else bool(r)

    def m_str_into(ex, st, args, dest_ty, fname):
        v = args[0]
        while isinstance(v, tuple) and v and v[0] in ("ref", "refval"):
            v = ex.deref(v, st)
        return v

    return [
        M(r"^SystemTime::now$", m_now),
        M(r"^SystemTime::duration_since$", m_duration_since),
        M(r"^Result::<Duration, SystemTimeError>::unwrap$", m_unwrap),
        M(r"^Duration::as_secs$", m_as_secs),
        M(r"^VecDeque::<CachedItem>::iter$", m_iter),
        M(r"^<std::collections::vec_deque::Iter<'_, CachedItem> as Iterator>::position::<", m_position),
        M(r"^<std::collections::vec_deque::Iter(Mut)?<'_, CachedItem> as Iterator>::find::<", m_find),
        M(r"^VecDeque::<CachedItem>::iter_mut$", m_iter_mut),
        M(r"^VecDeque::<CachedItem>::get(_mut)?$", m_deque_get),
        M(r"^VecDeque::<CachedItem>::front(_mut)?$", m_deque_front),
        M(r"^VecDeque::<CachedItem>::is_empty$", m_deque_is_empty),
        M(r"^Option::<.*>::map_or::<", m_opt_map_or),
        M(r"^Option::<.*>::map::<", m_opt_map),
        M(r"^Option::<.*>::and_then::<", m_opt_and_then),
        M(r"^Option::<.*>::unwrap_or$", m_opt_unwrap_or),
        M(r"^<VecDeque<CachedItem> as Index(Mut)?<usize>>::index(_mut)?$", m_index),
        M(r"^VecDeque::<CachedItem>::pop_front$", m_pop_front),
        M(r"^VecDeque::<CachedItem>::remove$", m_remove),
        M(r"^VecDeque::<CachedItem>::push_back$", m_push_back),
        M(r"^VecDeque::<CachedItem>::push_front$", m_push_front),
        M(r"^VecDeque::<CachedItem>::len$", m_deque_len),
        M(r"^Vec::<u8>::len$", m_vec_len),
        M(r"^<String as PartialEq<&str>>::eq$", m_str_eq),
        M(r"^<String as PartialEq<str>>::eq$", m_str_eq),
        M(r"^<&str as Into<String>>::into$", m_str_into),
        M(r"^<str as ToString>::to_string$", m_str_into),
        M(r"^<str as ToOwned>::to_owned$", m_str_into),
        M(r"^<String as From<&str>>::from$", m_str_into),
    ]
