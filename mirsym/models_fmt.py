"""std models for `format!` / `write!` (engine M) and for the byte-level string functions of humphrey::percent.

`format!` is modelled from the documented encoding of `fmt::Arguments` in library/core/src/fmt/mod.rs of the pinned nightly:
the template is a byte string (literal pieces prefixed by their length, placeholders with optional flags/width/precision/
arg_index, a terminating 0), the arguments are `rt::Argument::new_<trait>::<T>(&value)`. Supported traits and options (anything
else raises ExecError, i.e. the obligation is undischarged, never silently wrong): Display of char / str / String / integers,
LowerHex / UpperHex of integers, width with the `0` flag (zero padding) for the hex forms and for non-negative integers.
"""
import re
from dataclasses import dataclass, replace
import z3

from .exec import *
from .models import M, SymStr, ConcStr, str_chars, _simp
from .models_json import VecM
from . import mir as _mir

SIGN_AWARE_ZERO_PAD_FLAG = 1 << 24
WIDTH_FLAG = 1 << 27
PRECISION_FLAG = 1 << 28


@dataclass(frozen=True)
class FmtArg:
    trait: str      # display | upper_hex | lower_hex | debug
    ty: str
    ref: object


@dataclass(frozen=True)
class FmtArgs:
    template: bytes
    args: tuple


@dataclass(frozen=True)
class BytesIt:
    """str::bytes(): the UTF-8 bytes still to be yielded (concrete ints or z3 terms)."""
    items: tuple
    pos: int = 0


def mkstr(chars, name="f"):
    chars = tuple(chars)
    if all(isinstance(c, int) for c in chars):
        return ConcStr("".join(chr(c) for c in chars))
    return SymStr(name, chars)


def template_bytes(v):
    if isinstance(v, ConcStr):
        b = _mir.BYTES_CONST.get(v.s)
        return b if b is not None else v.s.encode("utf-8")
    raise ExecError("format template is not a constant: %r" % (v,))


def parse_template(t):
    """-> list of ('lit', str) | ('arg', index, flags, width, precision)"""
    out, i, nxt = [], 0, 0
    while True:
        n = t[i]
        i += 1
        if n == 0:
            break
        if n < 0x80:
            out.append(("lit", t[i:i + n].decode("utf-8")))
            i += n
        elif n == 0x80:
            ln = t[i] | (t[i + 1] << 8)
            i += 2
            out.append(("lit", t[i:i + ln].decode("utf-8")))
            i += ln
        elif n == 0xC0:
            out.append(("arg", nxt, 0, None, None))
            nxt += 1
        else:
            if n < 0xC0:
                raise ExecError("format template: byte %#x" % n)
            flags, width, prec, idx = 0, None, None, nxt
            if n & 1:
                flags = int.from_bytes(t[i:i + 4], "little")
                i += 4
            if n & 2:
                width = int.from_bytes(t[i:i + 2], "little")
                i += 2
            if n & 4:
                prec = int.from_bytes(t[i:i + 2], "little")
                i += 2
            if n & 8:
                idx = int.from_bytes(t[i:i + 2], "little")
                i += 2
            if n & 48:
                raise ExecError("format template: dynamic width/precision")
            out.append(("arg", idx, flags, width, prec))
            nxt = idx + 1
    return out


def hexchar(d, upper):
    base = 55 if upper else 87
    if is_sym(d):
        return z3.If(d < 10, d + 48, d + base)
    return d + 48 if d < 10 else d + base


def int_bits(ty):
    t = ty.strip("& ")
    return INT_BITS.get(t)


def make_models():
    def deref_all(ex, st, v):
        while isinstance(v, tuple) and v and v[0] in ("ref", "refval"):
            v = ex.deref(v, st)
        return v

    def m_arg_new(trait):
        def f(ex, st, args, dest_ty, fname):
            m = re.search(r"::new_\w+::<(.*)>$", fname)
            return FmtArg(trait, m.group(1) if m else "?", args[0])
        return f

    def m_arguments_new(ex, st, args, dest_ty, fname):
        t = template_bytes(deref_all(ex, st, args[0]))
        arr = deref_all(ex, st, args[1])
        return FmtArgs(t, tuple(ex.elements(arr)))

    def m_arguments_from_str(ex, st, args, dest_ty, fname):
        s = deref_all(ex, st, args[0])
        return FmtArgs(None, (s,))

    def digits_dec(ex, st, v, ty):
        if is_sym(v):
            v2 = z3.simplify(v)
            if z3.is_int_value(v2):
                v = v2.as_long()
        if not is_sym(v):
            return [(True, [ord(c) for c in str(v)])]
        # symbolic non-negative integer: case split on the number of decimal digits (bounded by the type)
        bits = int_bits(ty) or 64
        maxd = len(str((1 << bits) - 1))
        cases = []
        for k in range(1, maxd + 1):
            lo = 0 if k == 1 else 10 ** (k - 1)
            hi = 10 ** k - 1
            c = _simp(z3.And(v >= lo, v <= hi))
            if c is False or not ex.ctx.feasible(st.pc, z3bool(c)):
                continue
            ds = [((v / (10 ** (k - 1 - j))) % 10) + 48 for j in range(k)]
            cases.append((c, ds))
        neg = _simp(v < 0)
        if neg is not False and ex.ctx.feasible(st.pc, z3bool(neg)):
            raise ExecError("Display of a possibly negative symbolic integer")
        return cases

    def fmt_one(ex, st, a, flags, width, prec):
        """-> [(cond, [chars])]"""
        if not isinstance(a, FmtArg):
            raise ExecError("format argument %r" % (a,))
        v = deref_all(ex, st, a.ref)
        ty = a.ty.strip("& ")
        if prec is not None:
            raise ExecError("format precision")
        if a.trait == "display" and (isinstance(v, (ConcStr, SymStr))):
            cs = list(str_chars(v))
            if width is not None and len(cs) < width:
                cs = cs + [32] * (width - len(cs))            # strings are left-aligned, space filled
            return [(True, cs)]
        if a.trait == "display" and ty == "char":
            if width is not None and width > 1:
                return [(True, [v] + [32] * (width - 1))]
            return [(True, [v])]
        if a.trait == "display" and int_bits(ty):
            out = []
            for c, ds in digits_dec(ex, st, v, ty):
                if width is not None and len(ds) < width:
                    pad = 48 if flags & SIGN_AWARE_ZERO_PAD_FLAG else 32
                    ds = [pad] * (width - len(ds)) + ds           # numbers are right-aligned
                out.append((c, ds))
            return out
        if a.trait in ("upper_hex", "lower_hex") and int_bits(ty):
            bits = int_bits(ty)
            up = a.trait == "upper_hex"
            nd = bits // 4
            if not is_sym(v):
                s = ("%X" if up else "%x") % (v & ((1 << bits) - 1))
                ds = [ord(c) for c in s]
                if width is not None and len(ds) < width:
                    pad = 48 if flags & SIGN_AWARE_ZERO_PAD_FLAG else 32
                    ds = [pad] * (width - len(ds)) + ds
                return [(True, ds)]
            # symbolic unsigned value: case split on the number of significant hex digits
            cases = []
            for k in range(1, nd + 1):
                lo = 0 if k == 1 else 16 ** (k - 1)
                hi = 16 ** k - 1
                c = _simp(z3.And(v >= lo, v <= hi))
                if c is False or not ex.ctx.feasible(st.pc, z3bool(c)):
                    continue
                ds = [hexchar((v / (16 ** (k - 1 - j))) % 16, up) for j in range(k)]
                if width is not None and k < width:
                    pad = 48 if flags & SIGN_AWARE_ZERO_PAD_FLAG else 32
                    ds = [pad] * (width - k) + ds
                cases.append((c, ds))
            return cases
        raise ExecError("format: %s of %s" % (a.trait, a.ty))

    def render(ex, st, fa):
        """-> [(cond, [chars])]"""
        if fa.template is None:
            return [(True, list(str_chars(fa.args[0])))]
        acc = [(True, [])]
        for part in parse_template(fa.template):
            if part[0] == "lit":
                acc = [(c, cs + [ord(ch) for ch in part[1]]) for c, cs in acc]
            else:
                _, idx, flags, width, prec = part
                alts = fmt_one(ex, st, fa.args[idx], flags, width, prec)
                acc = [(b_and(c, c2), cs + cs2) for c, cs in acc for c2, cs2 in alts]
        return acc

    def m_format(ex, st, args, dest_ty, fname):
        fa = args[0]
        if not isinstance(fa, FmtArgs):
            raise ExecError("format(%r)" % (fa,))
        alts = render(ex, st, fa)
        if len(alts) == 1 and alts[0][0] is True:
            return mkstr(alts[0][1])
        return [(z3bool(c), mkstr(cs)) for c, cs in alts]

    def m_write_fmt(ex, st, args, dest_ty, fname):
        """<String as fmt::Write>::write_fmt(&mut String, Arguments) -> fmt::Result (always Ok for String)"""
        r = args[0]
        while True:
            inner = ex.deref(r, st)
            if isinstance(inner, tuple) and inner and inner[0] in ("ref", "refval"):
                r = inner
                continue
            break
        cur = ex.deref(r, st)
        fa = args[1]
        alts = render(ex, st, fa)
        if len(alts) == 1 and alts[0][0] is True:
            ex.write_ref(st, r, mkstr(list(str_chars(cur)) + alts[0][1]))
            return enum("Ok", UNIT)
        cases = []
        for c, cs in alts:
            st2 = State(st.frame, st.func, dict(st.locals), ex.copy_heap(st.heap), st.pc)
            ex.write_ref(st2, r, mkstr(list(str_chars(cur)) + cs))
            h = dict(st2.heap)
            h[st2.frame] = dict(st2.locals)
            cases.append((z3bool(c), enum("Ok", UNIT), h))
        return ("__with_heap__", cases)

    def m_identity(ex, st, args, dest_ty, fname):
        return args[0]

    # ---- strings as byte sequences ------------------------------------------------------------------------------
    def utf8_bytes_cases(ex, st, chars):
        """UTF-8 bytes of a char sequence; a symbolic char forks on its encoded length. -> [(cond, [bytes])]"""
        acc = [(True, [])]
        for c in chars:
            if not is_sym(c):
                bs = list(chr(c).encode("utf-8"))
                acc = [(k, xs + bs) for k, xs in acc]
                continue
            alts = []
            for cond, mk in ((c < 0x80, lambda c: [c]),
                             (z3.And(c >= 0x80, c < 0x800), lambda c: [0xC0 + c / 64, 0x80 + c % 64]),
                             (z3.And(c >= 0x800, c < 0x10000), lambda c: [0xE0 + c / 4096, 0x80 + (c / 64) % 64, 0x80 + c % 64]),
                             (c >= 0x10000, lambda c: [0xF0 + c / 262144, 0x80 + (c / 4096) % 64, 0x80 + (c / 64) % 64, 0x80 + c % 64])):
                cond = _simp(cond)
                if cond is False:
                    continue
                alts.append((cond, mk(c)))
            nxt = []
            for k, xs in acc:
                for cond, bs in alts:
                    kk = _simp(b_and(k, cond))
                    if kk is False or not ex.ctx.feasible(st.pc, z3bool(kk) if kk is not True else True):
                        continue
                    nxt.append((kk, xs + bs))
            acc = nxt
        return acc

    def m_str_bytes(ex, st, args, dest_ty, fname):
        s = deref_all(ex, st, args[0])
        alts = utf8_bytes_cases(ex, st, str_chars(s))
        if len(alts) == 1 and alts[0][0] is True:
            return BytesIt(tuple(alts[0][1]))
        return [(z3bool(c), BytesIt(tuple(bs))) for c, bs in alts]

    def m_bytes_next(ex, st, args, dest_ty, fname):
        r = args[0]
        it = ex.deref(r, st)
        if not isinstance(it, BytesIt):
            raise ExecError("Bytes::next on %r" % (it,))
        if it.pos >= len(it.items):
            return NONE
        ex.write_ref(st, r, replace(it, pos=it.pos + 1))
        return some(it.items[it.pos])

    def m_bytes_any(ex, st, args, dest_ty, fname):
        """<Bytes as Iterator>::any(f): f is a closure or a fn item named in the call"""
        r = args[0]
        it = ex.deref(r, st) if isinstance(r, tuple) and r and r[0] in ("ref", "refval") else r
        if not isinstance(it, BytesIt):
            raise ExecError("Bytes::any on %r" % (it,))
        m = re.search(r"\{(\w+)\}>$", fname)
        clos = args[1]
        if m:
            f = ex.ctx.find_func(m.group(1))
            if f is None or isinstance(f, tuple):
                raise ExecError("no MIR body for fn item " + m.group(1))
            mkargs = lambda b: [b]
        else:
            f = ex.closure_function(clos[1])
            mkargs = lambda b: [clos, b]
        acc = False
        for b in it.items[it.pos:]:
            val, pan = ex.call_value(st, f, mkargs(b))
            if pan is not False:
                raise ExecError("Bytes::any: predicate may panic")
            acc = b_or(acc, val)
        if isinstance(r, tuple) and r and r[0] == "ref":
            ex.write_ref(st, r, replace(it, pos=len(it.items)))
        return z3.simplify(acc) if is_sym(acc) else acc

    def m_str_len_bytes(ex, st, args, dest_ty, fname):
        s = deref_all(ex, st, args[0])
        from .models import utf8_len
        n = 0
        for c in str_chars(s):
            n = n + utf8_len(c)
        return z3.simplify(n) if is_sym(n) else n

    def m_slice_contains(ex, st, args, dest_ty, fname):
        hay = deref_all(ex, st, args[0])
        if isinstance(hay, (ConcStr, SymStr)):
            items = list(str_chars(hay))
        else:
            items = list(ex.elements(hay))
        x = deref_all(ex, st, args[1])
        r = False
        for h in items:
            r = b_or(r, _simp(h == x) if (is_sym(h) or is_sym(x)) else (h == x))
        return _simp(r) if is_sym(r) else r

    def m_string_add_assign(ex, st, args, dest_ty, fname):
        r = args[0]
        while True:
            inner = ex.deref(r, st)
            if isinstance(inner, tuple) and inner and inner[0] in ("ref", "refval"):
                r = inner
                continue
            break
        cur = ex.deref(r, st)
        add = deref_all(ex, st, args[1])
        ex.write_ref(st, r, mkstr(list(str_chars(cur)) + list(str_chars(add))))
        return UNIT

    def m_string_push(ex, st, args, dest_ty, fname):
        r = args[0]
        while True:
            inner = ex.deref(r, st)
            if isinstance(inner, tuple) and inner and inner[0] in ("ref", "refval"):
                r = inner
                continue
            break
        cur = ex.deref(r, st)
        ex.write_ref(st, r, mkstr(list(str_chars(cur)) + [args[1]]))
        return UNIT

    def m_chars_next(ex, st, args, dest_ty, fname):
        from .models import CharsIt
        r = args[0]
        it = ex.deref(r, st)
        if not isinstance(it, CharsIt):
            raise ExecError("Chars::next on %r" % (it,))
        cs = str_chars(it.s)
        if it.pos >= len(cs):
            return NONE
        ex.write_ref(st, r, replace(it, pos=it.pos + 1))
        return some(cs[it.pos])

    def m_u8_from_str_radix(ex, st, args, dest_ty, fname):
        from .models_json import hexdigit, hexval, _eq
        cs = str_chars(deref_all(ex, st, args[0]))
        if args[1] != 16:
            raise ExecError("from_str_radix with radix %r" % (args[1],))
        n = len(cs)
        err = enum("Err", ("opaque", "ParseIntError"))
        if n == 0:
            return err
        def allhex(xs):
            r = True
            for c in xs:
                r = b_and(r, hexdigit(c))
            return r
        def val(xs):
            v = 0
            for c in xs:
                v = v * 16 + hexval(c)
            return v
        # std: optional leading '+' (a lone sign is an error; '-' is not accepted for unsigned types), then >= 1 digits, value fits u8
        plain, v_plain = allhex(cs), val(cs)
        plus = b_and(_eq(cs[0], 43), n > 1)
        rest, v_rest = (allhex(cs[1:]), val(cs[1:])) if n > 1 else (False, 0)
        fits = lambda v: (v <= 255)
        a1 = _simp(b_and(plain, fits(v_plain)))
        a2 = _simp(b_and(b_and(plus, rest), fits(v_rest)))
        cases = []
        if a1 is not False:
            cases.append((a1, enum("Ok", v_plain)))
        if a2 is not False:
            cases.append((a2, enum("Ok", v_rest)))
        restc = _simp(b_not(b_or(a1, a2)))
        if restc is not False:
            cases.append((restc, err))
        if len(cases) == 1 and cases[0][0] is True:
            return cases[0][1]
        return [(z3bool(c), v) for c, v in cases]

    def m_as_ref_same(ex, st, args, dest_ty, fname):
        v = ex.deref(args[0], st)
        if isinstance(v, tuple) and v and v[0] in ("ref", "refval"):
            return v
        return args[0]

    def m_slice_into_iter(ex, st, args, dest_ty, fname):
        from .models_sha import SliceIter
        return SliceIter(args[0], 0)

    def m_slice_iter_next(ex, st, args, dest_ty, fname):
        from .models_sha import SliceIter
        r = args[0]
        it = ex.deref(r, st)
        base = deref_all(ex, st, it.base)
        items = list(str_chars(base)) if isinstance(base, (ConcStr, SymStr)) else list(ex.elements(base))
        if it.pos >= len(items):
            return NONE
        ex.write_ref(st, r, replace(it, pos=it.pos + 1))
        return some(("refval", items[it.pos]))

    return [
        M(r"^core::fmt::rt::Argument::<'_>::new_display::<", m_arg_new("display")),
        M(r"^core::fmt::rt::Argument::<'_>::new_upper_hex::<", m_arg_new("upper_hex")),
        M(r"^core::fmt::rt::Argument::<'_>::new_lower_hex::<", m_arg_new("lower_hex")),
        M(r"^Arguments::<'_>::new::<\d+, \d+>$", m_arguments_new),
        M(r"^Arguments::<'_>::from_str(_nonconst)?$", m_arguments_from_str),
        M(r"^(std::fmt::|alloc::fmt::)?format$", m_format),
        M(r"^<String as (std::fmt::)?Write>::write_fmt$", m_write_fmt),
        M(r"^must_use::<", m_identity),
        M(r"^core::str::<impl str>::bytes$", m_str_bytes),
        M(r"^<std::str::Bytes<'_> as Iterator>::next$", m_bytes_next),
        M(r"^<std::str::Bytes<'_> as Iterator>::any::<", m_bytes_any),
        M(r"^core::slice::<impl \[u8\]>::contains$", m_slice_contains),
        M(r"^<String as AddAssign<&str>>::add_assign$", m_string_add_assign),
        M(r"^String::push_str$", m_string_add_assign),
        M(r"^String::push$", m_string_push),
        M(r"^<Chars<'_> as Iterator>::next$", m_chars_next),
        M(r"^<Chars<'_> as IntoIterator>::into_iter$", m_identity),
        M(r"^core::num::<impl u8>::from_str_radix$", m_u8_from_str_radix),
        M(r"^<T as AsRef<(str|\[u8\])>>::as_ref$", m_as_ref_same),
        M(r"^<&\[u8\] as IntoIterator>::into_iter$", m_slice_into_iter),
        M(r"^<std::slice::Iter<'_, u8> as Iterator>::next$", m_slice_iter_next),
    ]
