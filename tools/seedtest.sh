#!/bin/bash
# seedtest.sh <patch.diff> <Cxx> [tier] : apply a seeded change to /repo, run the check, undo it.
set -u
P=$1; C=$2; T=${3:-quick}
cd /repo
if [ -n "$(git status --porcelain -uno)" ]; then echo "/repo is dirty"; exit 2; fi
git apply $P || { echo "patch does not apply"; exit 2; }
cd /verif
mkdir -p /scratch; cp evidence/$C.json /scratch/seedtest_evidence_$C.json 2>/dev/null
./check $C --tier $T > /scratch/seedtest_$C.log 2>&1; RC=$?
git -C /repo checkout -- .
echo "exit=$RC"; grep -E "VIOLATION|KNOWN-FINDING|MACHINERY|UNDISCHARGED|^==|reproduced|natively" /scratch/seedtest_$C.log | head -12
rm -f /verif/replays/*
cp /scratch/seedtest_evidence_$C.json /verif/evidence/$C.json 2>/dev/null   # only the evidence file of the check that ran is put back
