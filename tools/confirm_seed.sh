#!/bin/bash
# confirm_seed.sh <seed dir with patch.diff + demo.diff> : confirm in a scratch worktree that
#  (a) demo passes on pristine HEAD, (b) with the patch the workspace builds and the existing suite still passes,
#  (c) the demo fails with the patch.   Prints a summary; removes the worktree.
set -u
D=$1
NAME=$(basename $D)
WT=/tmp/confirm_$NAME
git -C /repo worktree remove --force $WT 2>/dev/null
git -C /repo worktree add -q $WT HEAD || exit 2
cd $WT
export CARGO_NET_OFFLINE=true
suite() { cargo test --workspace --no-fail-fast --offline 2>&1 | grep -E "^test result|^test .* FAILED|error(\[|:)" ; }
git apply $D/demo.diff || { echo "DEMO DOES NOT APPLY"; exit 2; }
echo "--- demo on pristine:"; suite | tr '\n' ';'; echo
git checkout -q -- . ; git clean -qfd
git apply $D/patch.diff || { echo "PATCH DOES NOT APPLY"; exit 2; }
echo "--- existing suite with patch:"; suite | tr '\n' ';'; echo
git apply $D/demo.diff
echo "--- demo with patch:"; suite | tr '\n' ';'; echo
cd /; git -C /repo worktree remove --force $WT
