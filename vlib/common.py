"""Shared helpers: paths, evidence writer, known-findings file, result classes."""
import json, os, re, time, subprocess, sys

VERIF = os.path.dirname(os.path.dirname(os.path.abspath(__file__)))
REPO = os.environ.get("VERIF_REPO", "/repo")
KANI_CRATE = os.path.join(VERIF, "kani")
EVIDENCE_DIR = os.path.join(VERIF, "evidence")
REPLAY_DIR = os.path.join(VERIF, "replays")
KNOWN_FILE = os.path.join(VERIF, "known_findings.txt")
WORK = os.path.join(VERIF, ".work")          # build output / logs (git-ignored, not under /tmp)

def seed():
    try:
        return int(os.environ.get("VERIF_SEED", "0"))
    except ValueError:
        return 0

def log(*a):
    print(*a, flush=True)

def load_known():
    """known_findings.txt lines:
       finding: property=C18 key=<key> <text>
       fixed:   property=C05 <commit> <text>
    Only `finding:` lines suppress; `fixed:` lines are documentation."""
    out = {}
    if not os.path.exists(KNOWN_FILE):
        return out
    for line in open(KNOWN_FILE):
        line = line.strip()
        m = re.match(r"finding:\s+property=(\S+)\s+key=(\S+)\s+(.*)$", line)
        if m:
            out[(m.group(1), m.group(2))] = m.group(3)
    return out

def git_head(path):
    try:
        return subprocess.run(["git", "-C", path, "rev-parse", "--short", "HEAD"], capture_output=True, text=True).stdout.strip()
    except Exception:
        return "?"

def repo_dirty():
    try:
        return subprocess.run(["git", "-C", REPO, "status", "--porcelain", "-uno"], capture_output=True, text=True).stdout.strip() != ""
    except Exception:
        return False

def write_evidence(pid, tier, cov, assumptions, wall, violations, extra=None):
    os.makedirs(EVIDENCE_DIR, exist_ok=True)
    ev = {
        "property_id": pid,
        "tier": tier,
        "seed": seed(),
        "level": "model_checking",
        "coverage": cov,
        "assumptions": assumptions,
        "wall_s": round(wall, 2),
        "violations": violations,
    }
    if extra:
        ev.update(extra)
    p = os.path.join(EVIDENCE_DIR, pid + ".json")
    tmp = p + ".tmp"
    with open(tmp, "w") as f:
        json.dump(ev, f, indent=1)
        f.write("\n")
    os.replace(tmp, p)
    return p
