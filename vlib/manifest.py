"""Regenerate /verif/MANIFEST.json from the property modules:  python3 -m vlib.manifest"""
import importlib, json, os
from .common import VERIF

CLAIMED = ["c02", "c03", "c04", "c05", "c07", "c09", "c10", "c11", "c13", "c14", "c15", "c16", "c17", "c18", "c19"]

LEVEL_TEXT_EXTRA = {
    "C03": ("The five parsers (the configuration parser only through C15's kernel). WebSocket frame decoder (Kani/CBMC): every byte string of 0..16 bytes (every header, every claimed length up to 2^64-1) returns a value or an error, never panics, overflows or exceeds its loop bounds, and never requests more payload memory than 64 KiB beyond the input (allocation recorder under Kani, tracking allocator natively); Base64 decoder on every ASCII string of 0..9 symbols and with a 2-byte character never panics. HTTP request parser (symbolic execution of the MIR of Request::from_stream, z3): for malformed-request templates — arbitrary ASCII garbage of 1..4 bytes at the start line, inside and after header lines, multi-byte UTF-8 characters at every slicing position, invalid UTF-8, Content-Length claims with symbolic digits and huge values, end of stream anywhere — every path returns a value or an error without panicking and every vec![0; n] stays within 64 KiB + 16 x the bytes supplied. HTTP response parser (same construction over Response::from_stream / parse_chunk): status-line, header-line and chunk-size garbage, lines without a colon, multi-byte characters at slicing positions, Content-Length and chunk-size claims — no panic, bounded allocation. JSON parser: no panic on every Unicode string of 0..4 characters (thorough: 5). NOT decided: message assembly beyond C11, the configuration parser beyond C15's kernel, stack depth and wall-clock time.",
            "Trusted: Kani/CBMC; reference models refs/ws.rs and refs/b64.rs; the from_elem recorder stub."),
    "C13": ("Symbolic execution of the MIR of the recursive-descent JSON parser (Value::parse and every Parser method, recursion inlined) on inputs of 0..5 characters (thorough: 6) over ALL Unicode scalar values: z3 shows that the parser never panics and that it accepts a string if and only if it is an RFC 8259 JSON text (recogniser written as formulas over the same characters); the depth-limit logic is checked through parse_max_depth with limits 0 and 1. The executor is validated on every run against the natively compiled parser on 281 documents; counterexamples are replayed natively and judged by an independent reference parser. NOT decided: documents longer than the bound (two-member objects, \\u escapes), the value tree and member order, numeric values, the serialiser and the round trip.",
            "Trusted: the MIR executor and its std models (f64::from_str as its documented grammar, u16::from_str_radix, char::from_u32, decode_utf16, Peekable<Chars>, String/Vec), z3, the RFC 8259 recogniser in vlib/props/c13.py."),
    "C14": ("Bounded model checking over a fixed family of programs compiled from the current macro and derive sources: six json! literals with null in every position, nested arrays/objects and a trailing comma equal the hand-built values for all leaf values; derive(FromJson, IntoJson) on a named struct (rename, Option, nested struct), a unit-variant enum (rename), a tuple struct, and json_map! produce the documented shapes and round-trip for all field values; u8..u32/i8..i32 survive the f64 representation for every value, u64/i64 up to 2^53 (beyond: recorded finding). The quantifier over generated programs is not reachable (macro expansion is compile time).",
            "Trusted: Kani/CBMC incl. its floating-point model; the hand-built expected values in kani/src/c14.rs."),
    "C15": ("Symbolic execution of the MIR of config::tree::parse_size (the K/M/G size kernel of the configuration loader): for every value token of 1..6 characters plus 11, 12 and 20 characters (thorough: 1..21) over ALL Unicode scalar values that can occur in a token, z3 shows no panic (string slicing on a char boundary, no arithmetic overflow), acceptance exactly for <integer>[KMG] whose product fits i64, and value = integer * 1024^j. Counterexamples are embedded in a configuration file and replayed through the public parse_conf in debug and release builds. Everything else in C15 (sections, hosts, routes, includes, defaults, layout independence, Config::from_tree) is NOT decided.",
            "Trusted: the MIR executor and its std models (i64::from_str as its documented grammar, str slicing with char-boundary checks), z3; the caller's precondition that i64 literals never reach parse_size."),
    "C19": ("Bounded model checking of the real file/directory/redirect/proxy handlers and of the connection condition with a directly constructed request: for every origin address that is on a blacklist of 1-2 symbolic IPv4 (or IPv6 ::a:b) entries, in either mode and with the cache on or off, the response is 403 with the fixed body and neither the cache, the file system nor the upstream is reached (they are replaced by markers that fail the proof when reachable); an unlisted origin on a redirect route is served; verify_connection refuses exactly the listed peers in block mode. Socket-level behaviour, X-Forwarded-For derivation and the 'served normally' direction for file/proxy routes are outside.",
            "Trusted: Kani/CBMC; marker stubs for Cache::get, File::open, try_find_path, proxy_request; format! stub; peer_addr stub."),
}

NOT_APPLICABLE = {
    "C01": "needs client_handler together with Request::from_stream (Kani cannot finish symbolic execution of the parser even on a concrete request: io::Error/dyn Error drop glue, BufReader, String building), the response serialiser (format!, header sort) and a scripted socket; a loop-logic-only version would stub 7+ functions including parser and serialiser, leaving little of the real code under check, and was not built (DESIGN §6); the tokio twin is not encodable",
    "C06": "file-system confinement: the property is about what metadata/canonicalize/File::open return (FFI, symlinks, OS path semantics); the only solver-sized kernel sits behind percent_decode and format! which Kani cannot symbolically execute within reach (DESIGN §2, §6)",
    "C08": "quantifies over interleavings of OS threads, mpsc channels, Mutex poisoning and unwinding panics; Kani rejects thread::spawn and has no unwinding; an SMT model of the protocol would not be the real code (DESIGN §6)",
    "C12": "one 160-line run loop over real sockets, HashMap<SocketAddr,_>, sleep/Instant, two channels and a thread pool; exactly-once/ordering under timing is not a bounded computation over values and no smaller unit exists to drive (DESIGN §6)",
    "C20": "liveness across the accept thread, the signalling thread, the pool and the kernel's listen queue; not encodable as a bounded symbolic computation (DESIGN §6)",
}
PENDING = "check not built yet (work in progress; plan in DESIGN.md §5)"

LEVEL_TEXT = {
    "C02": ("Header table (Kani/CBMC): every known header name parses to the same variant under EVERY upper/lower-case spelling and prints its canonical name; two arbitrary short names denote the same header iff equal ignoring ASCII case; Headers::get returns the first value, get_all all values in insertion order, remove exactly the same-named fields and leaves the others in order (<= 4 entries). Request parser (symbolic execution of the MIR of Request::from_stream, z3): for well-formed request TEMPLATES — all five methods, HTTP/1.0/1.1, symbolic path/query/header values (optional leading SP/HT, inner whitespace and ':')/custom header names/Content-Length body bytes, repeated and mixed-case names — the parser returns exactly the method, uri, query, version, typed header list in order, and body that the bytes denote, consumes exactly the request, and never panics, for every value of the symbolic holes. NOT decided: cookies, X-Forwarded-For, independence of read segmentation (BufReader is a model; only sampled natively), non-ASCII values, the serialise/parse round trip (format!), the tokio twin.",
            "Trusted: Kani/CBMC; the canonical-name table in kani/src/c02.rs; the MIR executor with its std models (listed in the evidence) and the BufReader model; z3."),
    "C04": ("Bounded model checking of the real get_handler / call_websocket_handler with the wildcard matcher replaced by an uninterpreted predicate (one symbolic truth value per registered pattern): for every possible matcher outcome over 0..2 host sub-apps x 0..2 routes + 0..2 default routes (thorough: 0..3 each), with and without a Host header, the selected handler is the first matching route of the first matching host, else the first matching default route, else none; websocket dispatch likewise, and without a match the stream is dropped and no handler runs.",
            "Trusted: Kani/CBMC; the stub contract (the matcher is a pure predicate of pattern and text — C05 decides what it computes); allocator-model diagnostics of Kani are not verdicts (DESIGN §3.1)."),
    "C05": ("Symbolic execution of wildcard_match's MIR (dumped from the current tree) with pattern/text as sequences of symbolic Unicode scalar values; for every pattern length <= 7 and text length <= 10 (thorough: 12 x 18) z3 shows that the function cannot panic and returns exactly what the glob recurrence ('*' = any sequence, every other character only itself) prescribes. The executor is validated on every run against the natively compiled function on the repository's own test pairs plus 200 seeded pairs incl. 2- and 4-byte characters, and one exported query is cross-checked with cvc5.",
            "Trusted: the MIR executor and its std models (str::chars/Peekable/Option, listed in the evidence), z3; UTF-8 decoding is modelled at the level of chars."),
    "C07": ("Bounded model checking (Kani->CBMC->cadical) of the real status-code tables for every u16: exactly the modelled codes are accepted, code<->variant conversions are mutually inverse and every reason phrase is a registered one. Only this table clause of C07 is claimed; serialisation layout, response parser, chunked decoding and client are outside (not encodable, see DESIGN §5 C07). Response parser (symbolic execution of the MIR of Response::from_stream / parse_chunk, z3): conforming-response templates with symbolic status digits, header values, bodies and chunk bytes are parsed into exactly the version, status, typed headers in order and payload sent, for Content-Length framing and chunked coding (reported as a plain body with its length); NOT decided there: read segmentation (sampled natively), trailers/extensions, the client and redirect following.",
            "Trusted: Kani/CBMC, the phrase table in kani/src/c07.rs."),
    "C09": ("Bounded model checking of LoadBalancer::select_target as an inductive step for 1..4 targets: round-robin returns targets[index] and advances index modulo N from any index < N; random mode returns a member of the set from any seed < 2^33 with no arithmetic overflow and keeps seed < modulus. Only the target-selection clause of C09 is claimed; everything on the network is outside.",
            "Trusted: Kani/CBMC; Rust's &mut exclusivity for the 'concurrent requests' part (select_target is only reachable through a Mutex); clock stub for Lcg::new."),
    "C10": ("Bounded model checking (Kani 0.68 -> CBMC 6.11 -> cadical) of the compiled real encoder/decoder against an RFC 6455 5.2 reference: header layout for every u64 length and every flag/opcode/key; decode of fully symbolic byte strings up to 16 bytes (every claimed length) and of frames with symbolic contents under whole/byte-wise/single-split read plans; encode->decode round trips. Holds for every value inside the listed shapes; nothing is claimed outside them. Long payloads (symbolic execution of the MIR, z3 bit-vectors): complete frames of 125..300 and 65537 bytes (thorough: 65534..65537, 70 KiB, 128 KiB+1) with symbolic FIN/RSV/opcode/key/payload decode to exactly the frame sent through the 64 KiB chunk loop, every truncation is a read error, and encoding gives the RFC layout with the shortest length form and masked payload.",
            "Trusted: Kani/CBMC semantics of Rust+std, the reference model kani/src/refs/ws.rs, harness code; read plans are concrete per harness (enumerated), payload sizes >= 126 bytes only via their headers."),
    "C11": ("Bounded model checking of the real WebsocketStream/Message/Frame code over a scripted connection (TcpStream read/write stubbed): Close frames are reported as ConnectionClosed and answered by exactly one well-formed Close frame (nothing more on drop); a Ping is answered by one Pong with the same payload; send()/ping() write exactly one well-formed unmasked frame each; non-blocking receive reports `nothing yet` only when no byte arrived and handles a header split across two reads like blocking receive. Symbolic keys/payloads (<= 2-3 bytes), whole / byte-wise / single-split delivery. Message assembly (CBMC runs out of memory there) is decided by symbolic execution of the MIR of recv / recv_nonblocking / Drop (and Message::from_stream*, Frame::from_stream*, From<Frame> for Vec<u8>) on client scripts of 1..4 frames (thorough: 5) with concrete shape (payload lengths 0..126 (300) incl. 125/126, all three length forms, mask bit, truncation, bytes delivered before a non-blocking call) and symbolic FIN/RSV/opcode, keys and payload bytes: for every RFC-valid control sequence compatible with a path (enumerated by z3) the delivered payload is the unmasked fragments in order, the text flag is the first fragment's, Pings are answered by Pongs and a Close by a Close as well-formed unmasked frames echoing the payload, the bytes consumed are exactly the frames delivered, blocking and non-blocking agree, `nothing yet` only when no frame has started, and drop sends one Close unless the peer closed; invalid scripts only get `no panic`. NOT decided: the opening handshake.",
            "Trusted: Kani/CBMC, the five network stubs listed in the evidence (scripted read plan, capture buffer), refs/ws.rs; allocator-model diagnostics are not verdicts."),
    "C16": ("Symbolic execution of the MIR of Cache::set and Cache::get (current tree) as an inductive step: from EVERY pre-state with 0..3 entries (thorough: 4) that satisfies the representation invariant (distinct keys, size bookkeeping = sum of lengths <= limit, times not after the clock), set(k, v) with len(v) <= limit never panics, keeps the invariant, leaves only unmodified old entries with other keys in their old order plus the new entry last, and get(k) at any later instant within the time limit returns exactly the stored item; get returns only an entry with the requested key that is not older than the time limit, and does return a matching fresh one. Counterexample pre-states are rebuilt natively through the verif hook and judged at property level.",
            "Trusted: the MIR executor and its models (VecDeque as a bounded sequence, strings by identity, Vec<u8> as length+tag, clock as non-decreasing integers), z3; Rust's &mut/RwLock exclusivity for the multi-thread clause; handler level (files on disk) is outside."),
    "C17": ("Bounded model checking of one AuthProvider operation from an arbitrary valid pre-state (inductive step) over the crate's own Vec<User> database: a token authenticates exactly the user it was issued to iff now < expiry; refresh only extends a live token and rejects expired/unknown ones without changing anything; invalidate_session / invalidate_user_session / remove_user end authentication; create_session gives at most one live session with expiry = now + lifetime (lifetime 0 never authenticates). 1-2 users, symbolic expiries and clock. Passwords (Argon2), token randomness and the cookie route are outside.",
            "Trusted: Kani/CBMC; stubs for the clock (constant within an operation), OsRng and format!; token freshness is an assumption; allocator-model diagnostics are not verdicts."),
    "C18": ("Bounded model checking of the real Base64 encoder/decoder against an RFC 4648 reference: every input of 0..3 bytes (thorough: ..5) and later groups with symbolic tails encode exactly; every ASCII string of 0..5 symbols (thorough: ..9) decodes iff it is RFC 4648 text, to the right bytes, never panicking; decode(encode(b)) = b. Dates: the MIR of DateTime::from is cut at three program points and z3 shows the Gregorian specification for every timestamp 1970..9999. SHA-1: the MIR of hash() is cut at its five loop heads; padding/IV for every length <= 130 bytes (thorough: 1100), one schedule step and one round from arbitrary states, hash update and output are each shown equal to RFC 3174 (bit-vectors). Percent-encoding and DateTime::to_string are outside the claim (format!-based).",
            "Trusted: Kani/CBMC, kani/src/refs/b64.rs; decode inputs are ASCII; non-canonical padding bits may be accepted or rejected."),
}


def build():
    props = [json.loads(l)["id"] for l in open(os.path.join(VERIF, "properties.jsonl"))]
    checks, served = [], {}
    for name in CLAIMED:
        m = importlib.import_module("vlib.props." + name)
        pid = m.ID
        text, note = LEVEL_TEXT.get(pid) or LEVEL_TEXT_EXTRA[pid]
        eng = getattr(m, "ENGINE", "K")
        served.setdefault(eng, []).append(pid)
        checks.append({
            "property_id": pid,
            "quick_cmd": "./check %s --tier quick" % pid,
            "thorough_cmd": "./check %s --tier thorough" % pid,
            "evidence_file": "/verif/evidence/%s.json" % pid,
            "replay_cmd_template": "./check %s --replay {path}" % pid,
            "engine": eng,
            "level_claimed": {"category": "model_checking", "text": text, "design_ref": "DESIGN.md §5 " + pid},
            "level_note": note,
            "technique": getattr(m, "TECHNIQUE", "solver-based bounded model checking of the real code (Kani harness -> CBMC -> SAT), counterexamples replayed natively before reporting"),
        })
    claimed_ids = {c["property_id"] for c in checks}
    na = []
    for p in props:
        if p in claimed_ids:
            continue
        na.append({"property_id": p, "reason": NOT_APPLICABLE.get(p, PENDING)})
    engines = [{"name": "K", "path": "/verif/kani + /verif/vlib/kengine.py", "serves_properties": sorted(served.get("K", [])),
                "kind_free_text": "Kani proof harnesses over the real crates (path deps on /repo, feature verif); CBMC/cadical decides; counterexamples are replayed natively (dev+release)"}]
    if served.get("M"):
        engines.append({"name": "M", "path": "/verif/mirsym", "serves_properties": sorted(served["M"]),
                        "kind_free_text": "own symbolic executor over rustc MIR dumps of the current tree -> z3; cut points; counterexamples replayed natively"})
    man = {
        "version": 1,
        "setup_cmd": "true",
        "hooks": {"guard": "cargo feature `verif` (humphrey, humphrey_ws, humphrey_server)",
                  "enable": "the harness crate /verif/kani depends on the /repo crates by path with features=[\"verif\"]",
                  "baseline_off_cmd": "cd /repo && cargo test --workspace --no-fail-fast --offline",
                  "source_commits": ["76493fa", "9401876", "a144de1", "0871fde"], "add_only": True},
        "engines": engines,
        "checks": checks,
        "not_applicable": na,
        "notes": "See DESIGN.md. Exit codes: 0 = held on everything explored (undischarged obligations are printed and listed in the evidence); 1 = VIOLATION (reproduced natively); 2 = machinery error (never a violation claim).",
    }
    with open(os.path.join(VERIF, "MANIFEST.json"), "w") as f:
        json.dump(man, f, indent=1)
        f.write("\n")


if __name__ == "__main__":
    build()
