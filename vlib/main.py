"""./check <Cxx> [--tier quick|thorough] [--replay <file>] [--gen] [--only <substr>]"""
import importlib, json, os, sys, time, argparse

from .common import *
from . import kengine
from .kengine import H

K_PROPS = ["c02", "c03", "c04", "c07", "c09", "c10", "c11", "c14", "c17", "c18", "c19"]          # modules under vlib/props driven by engine K (extended as properties are built)


def load_props():
    mods = {}
    for name in K_PROPS:
        mods[name] = importlib.import_module("vlib.props." + name)
    return mods


def all_lists(mods):
    lists = {}
    for name, m in mods.items():
        lists.setdefault(m.MODULE, []).extend(m.harnesses())
    kengine.ALL_MODULES = sorted(lists.keys())
    return lists


def fmt_sample(r):
    return {
        "harness": r.h.name,
        "obligation": r.h.desc,
        "unwind": r.h.unwind,
        "verdict": r.status,
        "checks": r.n_checks,
        "vccs": r.vccs,
        "sat_vars": r.vars,
        "sat_clauses": r.clauses,
        "solver_s": r.solver_s,
        "reachability_witness_bytes": r.cover_witness[:64],
    }


def run_k_property(mod, tier, only=None, write=True):
    pid = mod.ID
    t0 = time.time()
    known = load_known()
    mods = load_props()
    lists = all_lists(mods)
    hs_all = lists[mod.MODULE]
    hs_all = [h for h in hs_all if getattr(h, "prop", pid) == pid]
    hs = kengine.select(hs_all, tier)
    if only:
        hs = [h for h in hs_all if only in h.name]
    kengine.setup_workdir(pid)
    kengine.write_lists({mod.MODULE: hs})
    log("== %s tier=%s seed=%d: %d obligations (of %d defined); /repo HEAD %s%s" % (
        pid, tier, seed(), len(hs), len(hs_all), git_head(REPO), " +uncommitted changes" if repo_dirty() else ""))
    ok, bt = kengine.kani_build()
    if not ok:
        cov = {"evaluations": 0, "distinct_nontrivial": 0, "rule": "build failed", "samples": [], "explanation": "harness crate failed to compile against /repo"}
        write_evidence(pid, tier, cov, [], time.time() - t0, 0)
        return 2 if write else {"rc": 2, "cov": cov, "assumptions": [], "violations": 0, "t0": t0}
    log("   built harness crate from /repo working tree in %.1fs" % bt)
    results = kengine.run_all(hs, jobs=int(os.environ.get("VERIF_JOBS", "12")))

    violations, known_hits, machinery, undischarged, memdiag = [], [], [], [], []
    for r in results:
        if r.status == "fail":
            repro = kengine.replay_failures(r)
            if r.h.only:
                # twin restricted to a known-finding region: expected to fail while the finding stands
                if repro:
                    if (pid, r.h.only) in known:
                        known_hits.append((r, repro[0]))
                    else:
                        violations.append((r, repro[0]))
                else:
                    machinery.append(r)
            elif repro:
                violations.append((r, repro[0]))
            elif r.memdiag:
                # Kani's allocator model reported frees of invalid/dead objects in this (safe-Rust) run: the model state is an
                # artefact from there on (DESIGN §9), so a functional failure that does NOT reproduce natively is not believed either way.
                r.status, r.reason = "undischarged", "failed only inside Kani's model after allocator-model artefacts (%s); not reproducible natively" % (
                    "; ".join(sorted(set(f[2] for f in r.failed)))[:160])
                undischarged.append(r)
            else:
                machinery.append(r)
        elif r.status in ("undischarged", "vacuous", "error"):
            # No verdict from the solver (out of memory / timeout / bound). The harness body is an ordinary deterministic test of the
            # real code, so a few fixed + seeded input vectors are run natively as well: a run that fails is a real failure and is
            # reported (clearly labelled: found by native probe, not by the solver); a clean probe proves nothing and changes nothing.
            if r.status == "undischarged" and not r.h.only:
                r.failed = r.failed or [("probe", "assertion", "undischarged obligation (no solver verdict)", "")]
                r.playbacks = []
                repro = kengine.replay_failures(r)
                if repro:
                    repro[0]["check"] = "native probe of an obligation the solver could not decide (%s): %s" % (r.reason[:60], repro[0].get("panic", ""))
                    violations.append((r, repro[0]))
                    continue
            undischarged.append(r)
        if r.memdiag:
            memdiag.append(r)

    rc = 0
    for r, rep in known_hits:
        log("KNOWN-FINDING: property=%s key=%s %s [harness %s, check \"%s\", input %s]" % (
            pid, r.h.only, known[(pid, r.h.only)], r.h.name, rep["check"], rep["hex"]))
    os.makedirs(REPLAY_DIR, exist_ok=True)
    for r, rep in violations:
        path = os.path.join(REPLAY_DIR, "%s-%s.json" % (pid, r.h.name))
        with open(path, "w") as f:
            json.dump({"property": pid, "engine": "K", "harness": r.h.name, "obligation": r.h.desc, "hex": rep["hex"],
                       "failed_check": rep["check"], "native": {"dev": rep["dev"], "release": rep["release"]},
                       "panic": rep.get("panic", ""),
                       "how": "./check %s --replay %s" % (pid, path)}, f, indent=1)
        log("VIOLATION property=%s replay=%s" % (pid, path))
        log("   harness %s: \"%s\" — reproduced natively (dev=%s release=%s) %s" % (r.h.name, rep["check"], rep["dev"], rep["release"], rep.get("panic", "")))
        rc = 1
    for r in machinery:
        log("MACHINERY-ERROR: %s failed under Kani (%s) but no counterexample reproduced natively — encoding/stub problem, not reported as a violation" % (
            r.h.name, "; ".join(sorted(set(f[2] for f in r.failed)))[:300]))
        if rc == 0:
            rc = 2
    for r in undischarged:
        log("UNDISCHARGED: %s — %s" % (r.h.name, r.reason))
    for r in memdiag:
        log("MEMORY-MODEL-DIAGNOSTIC (not a verdict): %s — %s" % (r.h.name, "; ".join(sorted(set(f[2] for f in r.memdiag)))[:200]))

    passed = [r for r in results if r.status == "pass"]
    nontrivial = [r for r in passed if r.cover_total >= 1 and r.cover_sat == r.cover_total]
    meta = dict(mod.META)
    cov = {
        "evaluations": len(results),
        "distinct_nontrivial": len(set(r.h.name for r in nontrivial)),
        "rule": "one evaluation = one solver-decided obligation (Kani harness over symbolic inputs, CBMC+cadical); it counts as non-trivial "
                "only if its verdict is SUCCESSFUL *and* its reachability witness (kani::cover at the final assertion) is SATISFIED, "
                "i.e. the assertions are reachable under the harness assumptions; harness names are distinct shapes",
        "samples": [fmt_sample(r) for r in (passed[:3] + [x[0] for x in violations][:2] + undischarged[:2])] or [fmt_sample(r) for r in results[:2]],
        "obligations": len(results),
        "discharged": len(passed),
        # explicit-state vocabulary mapped onto bounded model checking (defined here, measured per run):
        "states": max(1, sum(r.steps for r in results)),          # SSA steps of the unrolled programs handed to the solver ("size of program expression")
        "transitions": max(1, sum(r.vccs for r in results)),      # verification conditions generated from them
        "traces_validated_against_impl": len([rep for r in results for rep in r.replays]),   # solver counterexample traces replayed against the natively compiled code
        "states_transitions_note": "states = sum of CBMC SSA steps over the obligations of this run; transitions = sum of generated VCCs; traces_validated = counterexamples replayed natively",
        "undischarged": [{"harness": r.h.name, "why": r.reason} for r in undischarged],
        "machinery_errors": [r.h.name for r in machinery],
        "memory_model_diagnostics": [{"harness": r.h.name, "checks": sorted(set(f[2] for f in r.memdiag))[:5]} for r in memdiag],
        "violations_reproduced": [{"harness": r.h.name, "check": rep["check"], "hex": rep["hex"], "dev": rep["dev"], "release": rep["release"]} for r, rep in violations],
        "known_findings_seen": [{"key": r.h.only, "harness": r.h.name, "hex": rep["hex"]} for r, rep in known_hits],
        "replays": [dict(rep, harness=r.h.name) for r in results for rep in r.replays],
        "queries": [{"harness": r.h.name, "verdict": r.status, "wall_s": round(r.time_s, 1), "solver_s": r.solver_s, "symex_s": r.symex_s,
                     "checks": r.n_checks, "vccs": r.vccs, "vars": r.vars, "clauses": r.clauses, "rss_mb": r.rss_mb, "unwind": r.h.unwind} for r in results],
        "solver_time_s": round(sum(r.solver_s for r in results), 2),
        "cpu_wall_sum_s": round(sum(r.time_s for r in results), 1),
        "bounds": {"shapes": [r.h.desc for r in results], "unwinding_assertions": "on (a too-small bound is reported as undischarged, never as success)"},
        "engines": {"kani": "0.68.0", "cbmc": "6.11.0", "sat": "cadical (Kani default)"},
        "repo_head": git_head(REPO),
        "repo_dirty": repo_dirty(),
        "exhaustive": False,
        "explanation": "bounded model checking of the compiled real code: each obligation holds for EVERY value of its symbolic inputs within the stated shape/unwind bound; nothing is claimed outside the listed shapes",
    }
    cov.update({k: v for k, v in meta.items()})
    assumptions = list(meta.get("assumes", [])) + ["stub: " + s for s in meta.get("stubs", [])] + [
        "Kani/CBMC model of Rust semantics and the compiled std (dev profile: overflow checks on)",
        "trusted: reference models in kani/src/refs, the harness code, Kani 0.68 / CBMC 6.11 / cadical",
    ]
    if not write:
        return {"rc": rc, "cov": cov, "assumptions": assumptions, "violations": len(violations), "t0": t0}
    write_evidence(pid, tier, cov, assumptions, time.time() - t0, len(violations))
    log("== %s: %d/%d obligations discharged, %d violation(s), %d known finding(s), %d undischarged, %d machinery error(s); %.0fs wall, solver %.0fs" % (
        pid, len(passed), len(results), len(violations), len(known_hits), len(undischarged), len(machinery), time.time() - t0, cov["solver_time_s"]))
    return rc


def do_replay(pid, path):
    d = json.load(open(path))
    if d.get("engine") == "K":
        mods = load_props()
        lists = all_lists(mods)
        kengine.setup_workdir(pid)
        m = importlib.import_module("vlib.props." + pid.lower())
        kengine.write_lists({m.MODULE: [h for h in lists[m.MODULE] if h.name == d["harness"]]})
        dev, o1 = kengine.native_replay(d["harness"], d["hex"], "debug")
        rel, o2 = kengine.native_replay(d["harness"], d["hex"], "release")
        log(o1[-1500:])
        log("replay %s: dev=%s release=%s" % (d["harness"], dev, rel))
        if dev == "reproduced" or rel == "reproduced":
            log("VIOLATION property=%s replay=%s" % (pid, path))
            return 1
        return 0
    from . import mengine
    return mengine.do_replay(pid, d, path)


def main():
    ap = argparse.ArgumentParser()
    ap.add_argument("prop", nargs="?")
    ap.add_argument("--tier", default=os.environ.get("VERIF_TIER", "quick"))
    ap.add_argument("--replay")
    ap.add_argument("--gen", action="store_true")
    ap.add_argument("--only")
    a = ap.parse_args()
    if a.gen:
        # development convenience: write every list into /verif/kani/src/gen so `cargo build` works there
        kengine.write_lists(all_lists(load_props()))
        return 0
    if not a.prop:
        ap.error("property id required")
    pid = a.prop.upper()
    if a.replay:
        return do_replay(pid, a.replay)
    name = pid.lower()
    mod = importlib.import_module("vlib.props." + name)
    if getattr(mod, "ENGINE", "K") == "K":
        return run_k_property(mod, a.tier, a.only)
    if getattr(mod, "ENGINE", "K") == "KM":
        return mod.run(a.tier, lambda: run_k_property(mod, a.tier, a.only, write=False))
    all_lists(load_props())
    return mod.run(a.tier)


if __name__ == "__main__":
    sys.exit(main())
