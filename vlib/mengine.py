"""Engine M helpers: MIR dump of the current tree, native evaluation tool, parallel obligation runner."""
import json, multiprocessing as mp, os, subprocess, sys, time

from .common import *
from . import kengine

sys.path.insert(0, VERIF)


def setup(pid):
    kengine.setup_workdir(pid)
    kengine.ALL_MODULES = kengine.ALL_MODULES or []
    return os.path.join(WORK, pid)


def write_empty_lists(modules):
    kengine.ALL_MODULES = modules
    kengine.write_lists({})


def build_mtool(profile="debug"):
    cmd = ["cargo", "build", "--offline", "--target-dir", kengine.NATIVE_TARGET, "--bin", "mtool"]
    if profile == "release":
        cmd.append("--release")
    with kengine.Lock("native-build"):
        p = subprocess.run(cmd, cwd=kengine.CRATE, env=kengine.ENV, capture_output=True, text=True)
    if p.returncode != 0:
        raise RuntimeError("mtool build failed (%s):\n%s" % (profile, (p.stdout + p.stderr)[-3000:]))
    return os.path.join(kengine.NATIVE_TARGET, profile, "mtool")


def native_eval(exe, lines, timeout=120):
    try:
        p = subprocess.run([exe], input="\n".join(lines) + "\n", capture_output=True, text=True, timeout=timeout)
    except subprocess.TimeoutExpired:
        # some request does not terminate natively: evaluate one by one, each under its own limit ('HANG' for those)
        return [native_eval_guarded(exe, l, timeout=10) for l in lines]
    out = p.stdout.strip().split("\n") if p.stdout.strip() else []
    if len(out) != len(lines):
        raise RuntimeError("mtool returned %d lines for %d requests (rc=%d): %s" % (len(out), len(lines), p.returncode, p.stderr[-500:]))
    return out


def native_eval_guarded(exe, line, timeout=10):
    """One request in its own process under a time limit: -> output line | 'HANG' (no answer within the limit)"""
    try:
        p = subprocess.run([exe], input=line + "\n", capture_output=True, text=True, timeout=timeout)
    except subprocess.TimeoutExpired:
        return "HANG"
    out = p.stdout.strip().split("\n")
    return out[0] if out and out[0] else "NO-OUTPUT rc=%d" % p.returncode


def hexs(s):
    b = s.encode("utf-8")
    return b.hex() if b else "-"


def pmap(fn, items, jobs=None):
    jobs = jobs or int(os.environ.get("VERIF_JOBS", "12"))
    if jobs <= 1 or len(items) <= 1:
        return [fn(x) for x in items]
    with mp.get_context("fork").Pool(min(jobs, len(items))) as pool:
        return pool.map(fn, items, chunksize=1)


def do_replay(pid, d, path):
    import importlib
    mod = importlib.import_module("vlib.props." + pid.lower())
    return mod.replay(d, path)
