"""C11 (message assembly) — WebsocketStream::recv / recv_nonblocking and the drop-time Close, engine M in bit-vector mode.

The connection is a value (`NetStream`: the peer's bytes, a read position, everything written), so the real
`Message::from_stream{,_nonblocking}` -> `Frame::from_stream{,_nonblocking,_inner}` -> `From<Frame> for Vec<u8>` MIR of the
current tree is executed on a client script whose *shape* (number of frames, per-frame payload length, length encoding,
mask bit, bytes delivered so far) is concrete and whose *content* (first header byte = FIN/RSV/opcode, masking keys, every
payload byte) is symbolic. Every return path is compared with an RFC 6455 receiver written here (fragments concatenated,
text/binary from the first fragment, control frames between fragments answered, Close answered and reported, Drop sends a
Close): for every control sequence (opcode, FIN per frame) compatible with the path condition — enumerated with the solver,
blocking each one after it is checked — the result, the bytes written, the bytes consumed and the `closed` flag must equal the
reference for ALL keys and payload bytes.  Control sequences that are not RFC-valid scripts (unknown opcode, continuation
first, a new data opcode inside a fragmented message, a fragmented control frame, non-zero RSV) are outside the claim: only
`no panic` is asserted for them.
"""
import itertools, json, os, random, time

from ..common import *
from .. import mengine

_G = {}
HEAPF = -7
OPN = {0: "Continuation", 1: "Text", 2: "Binary", 8: "Close", 9: "Ping", 10: "Pong"}


# ---------------------------------------------------------------------------------------------------------------------
def enc_len(mask, ln, enc):
    if enc == 7:
        return [(mask << 7) | ln]
    if enc == 16:
        return [(mask << 7) | 126, ln >> 8, ln & 255]
    return [(mask << 7) | 127] + [(ln >> (56 - 8 * j)) & 255 for j in range(8)]


def out_frame(b0, payload):
    n = len(payload)
    if n < 126:
        return [b0, n] + list(payload)
    if n < 65536:
        return [b0, 126, n >> 8, n & 255] + list(payload)
    return [b0, 127] + [(n >> (56 - 8 * j)) & 255 for j in range(8)] + list(payload)


def reference(frames, ctrl, nb_arrived=None, total=None, eof=True):
    """RFC 6455 receiver for one recv call followed by drop.
    frames: [(start, end, unmasked payload list)] for the frames completely present in the script;
    ctrl:   [(opcode, fin)] for those frames (concrete); the script may continue with a truncated frame.
    nb_arrived: None for the blocking call, else the number of script bytes delivered when the call starts.
    -> (kind, text, payload, out, consumed, closed)   kind in msg|closed|eof|none|outside"""
    out = []
    data = []
    text = None
    pos = 0
    first = True                      # non-blocking: the next header is polled, not awaited
    for (start, end, pay), (op, fin) in zip(frames, ctrl):
        if nb_arrived is not None and first and nb_arrived <= start:
            if start >= total and eof:
                return ("eof-or-none", None, None, out, start, False)
            return ("none", None, None, out, start, False)
        if op not in OPN:
            return ("outside", None, None, out, None, None)
        if op >= 8 and not fin:
            return ("outside", None, None, out, None, None)
        pos = end
        if nb_arrived is not None and end > nb_arrived:
            nb_arrived = total          # a blocking read waited: the rest of the script has been delivered
        if op == 9:
            out += out_frame(0x8A, pay)
            continue
        if op == 10:
            continue
        if op == 8:
            out += out_frame(0x88, pay)
            return ("closed", None, None, out, end, True)
        if text is None:
            if op == 0:
                return ("outside", None, None, out, None, None)
            text = (op == 1)
        elif op != 0:
            return ("outside", None, None, out, None, None)
        data += pay
        first = False
        if fin:
            return ("msg", text, data, out, end, False)
    # the script ends (or is truncated) before the message is complete
    if nb_arrived is not None and first and nb_arrived <= pos:
        if pos >= total and eof:
            return ("eof-or-none", None, None, out, pos, False)
        return ("none", None, None, out, pos, False)
    return ("eof", None, None, out, total, False)


# ---------------------------------------------------------------------------------------------------------------------
def _setup():
    import z3
    from mirsym.mir import parse_mir
    from mirsym.exec import Ctx, Exec
    from mirsym.models import COMMON
    from mirsym.models_ws import make_models
    if "funcs" not in _G:
        _G["funcs"] = parse_mir(_G["mir"])
    funcs = _G["funcs"]
    def fn(suffix, must):
        c = [v for n, v in funcs.items() if not isinstance(v, tuple) and n.endswith(suffix) and must in n]
        if len(c) != 1:
            raise RuntimeError("cannot locate %s (%s) in the MIR dump: %d candidates" % (suffix, must, len(c)))
        return c[0]
    F = {"recv": fn("::recv", "stream.rs"), "recv_nb": fn("::recv_nonblocking", "stream.rs")}
    drops = [v for n, v in funcs.items() if not isinstance(v, tuple) and n.endswith("::drop") and "stream.rs" in n]
    if len(drops) != 1:
        raise RuntimeError("cannot locate <WebsocketStream as Drop>::drop")
    F["drop"] = drops[0]
    def mk():
        ctx = Ctx(funcs, make_models() + COMMON, mode="bv", loop_bound=80, time_budget=_G.get("budget", 900))
        ctx.frame_ids = itertools.count(9000)
        if "enums" not in _G:
            from mirsym.models_ws import load_enum_decls
            _G["enums"] = load_enum_decls(os.path.join(REPO, "humphrey-ws", "src"))
        ctx.enum_decls = _G["enums"]
        return ctx, Exec(ctx)
    return z3, F, mk


def build_script(z3, shape, cut, concrete=None):
    """shape: [(len, mask, enc)]; cut: bytes removed from the end. -> (input bytes, frames meta)
    concrete: optional list of (b0, key4, payload) ints to build a concrete script."""
    inp = []
    meta = []
    for i, sh in enumerate(shape):
        ln, mask, enc = sh[:3]
        start = len(inp)
        if concrete is None:
            b0 = sh[3] if len(sh) > 3 else z3.BitVec("f%d_b0" % i, 8)
            key = [z3.BitVec("f%d_k%d" % (i, j), 8) for j in range(4)] if mask else []
            pay = [z3.BitVec("f%d_p%d" % (i, j), 8) for j in range(ln)]
        else:
            b0, key, pay = concrete[i]
            key = list(key) if mask else []
        inp += [b0] + enc_len(mask, ln, enc) + key + pay
        un = [(p ^ key[j % 4]) if mask else p for j, p in enumerate(pay)]
        meta.append({"start": start, "end": len(inp), "b0": b0, "key": key, "pay": pay, "unmasked": un, "len": ln})
    total = len(inp) - cut
    return inp[:total], meta, total


def fmt_result(ex, v):
    """Engine result value -> the string printed by `mtool wsmsg` (concrete values only)."""
    import z3
    def cint(x):
        if isinstance(x, bool):
            return int(x)
        if isinstance(x, int):
            return x
        x = z3.simplify(x)
        if z3.is_true(x):
            return 1
        if z3.is_false(x):
            return 0
        return x.as_long()
    name = v[1]
    if name in ("Ok", "Restion::Ok"):
        msg = v[2][0]
        pay = [cint(b) for b in ex.elements(msg[1][0])]
        return "OK %d %s" % (cint(msg[1][1]), bytes(pay).hex() if pay else "-")
    if name in ("Err", "Restion::Err"):
        return "ERR " + v[2][0][1].split("::")[-1]
    if name == "Restion::None":
        return "NONE"
    raise RuntimeError("unexpected result value %r" % (v,))


def run_call(ex, F, which, inp, arrived, eof):
    from mirsym.models_ws import NetStream
    ws = ("agg", (NetStream(tuple(inp), 0, (), arrived, eof), False, ("opaque", "Instant0")))
    out = ex.run_function(F[which], [("ref", ("local", HEAPF, 0, ()))], heap={HEAPF: {0: ws}})
    return out


def after_drop(ex, F, heap_ws):
    """Run <WebsocketStream as Drop>::drop on the post-state; -> list of (cond, NetStream, closed)."""
    out = ex.run_function(F["drop"], [("ref", ("local", HEAPF, 0, ()))], heap={HEAPF: {0: heap_ws}})
    if out.panics:
        raise RuntimeError("Drop panics: " + str(out.panics[0][1])[:100])
    res = []
    for c, v, locs, heap in out.rets:
        w = heap[HEAPF][0]
        res.append((c, w[1][0], w[1][1]))
    return res


# ---------------------------------------------------------------------------------------------------------------------
def _job(job):
    """job = (which, shape, cut, arrived, eof)"""
    which, shape, cut, arrived, eof = job
    t0 = time.time()
    res = {"job": [which, [list(s) for s in shape], cut, arrived, eof], "verdict": "unsat", "fails": [], "n_checks": 0, "paths": 0,
           "ctrl_sequences": 0, "outside_sequences": 0}
    try:
        z3, F, mk = _setup()
        from mirsym.exec import z3bool
        from mirsym.models_sha import _bv
        ctx, ex = mk()
        inp, meta, total = build_script(z3, shape, cut)
        nb = which == "recv_nb"
        out = run_call(ex, F, which, inp, arrived if nb else None, eof)
        res["paths"] = len(out.rets)
        t_sym = time.time() - t0
        present = [m for m in meta if m["start"] < total]             # first header byte delivered
        complete = [m for m in meta if m["end"] <= total]
        rsv0 = [z3.Extract(6, 4, m["b0"]) == 0 for m in present if not isinstance(m["b0"], int)]
        def b0val(model, fm):
            return fm["b0"] if isinstance(fm["b0"], int) else model.eval(fm["b0"], model_completion=True).as_long()
        def pin(fm, lo_hi, v):
            if isinstance(fm["b0"], int):
                return z3.BoolVal(((fm["b0"] >> lo_hi[1]) & ((1 << (lo_hi[0] - lo_hi[1] + 1)) - 1)) == v)
            return z3.Extract(lo_hi[0], lo_hi[1], fm["b0"]) == v
        solver_s = 0.0
        def check(s, what):
            nonlocal solver_s
            t = time.time()
            r = s.check()
            solver_s += time.time() - t
            res["n_checks"] += 1
            return r
        for (pc, pm) in [(p[0], p[1]) for p in out.panics]:
            s = z3.Solver(); s.set("timeout", 60000)
            if pc is not True:
                s.add(z3bool(pc))
            r = check(s, "panic")
            if r != z3.unsat:
                res["fails"].append({"what": "no panic: " + str(pm)[:120], "model": _model_bytes(z3, s.model() if r == z3.sat else None, inp), "status": str(r)})
        for pi, (pc, val, locs, heap) in enumerate(out.rets):
            w = heap[HEAPF][0]
            ns, closed = w[1][0], w[1][1]
            dr = after_drop(ex, F, w)
            s = z3.Solver(); s.set("timeout", 120000)
            if pc is not True:
                s.add(z3bool(pc))
            s.add(*rsv0)
            while True:
                r = check(s, "enumerate")
                if r == z3.unsat:
                    break
                if r != z3.sat:
                    res["fails"].append({"what": "control-sequence enumeration on path %d: solver answered %s" % (pi, r), "model": None, "status": str(r)})
                    break
                m = s.model()
                ctrl = []
                for fm in complete:
                    b = b0val(m, fm)
                    ctrl.append((b & 15, (b >> 7) & 1))
                frames = [(fm["start"], fm["end"], fm["unmasked"]) for fm in complete]
                # a truncated frame whose first byte is present: its opcode decides InvalidOpcode vs ReadError
                trunc = [fm for fm in present if fm["end"] > total]
                ref = reference(frames, ctrl, arrived if nb else None, total, eof)
                # frames the reference looked at: constrain exactly those (opcode and FIN)
                used = _used(frames, ctrl, ref)
                A = []
                for fm, (op, fin) in list(zip(complete, ctrl))[:used]:
                    A.append(pin(fm, (3, 0), op))
                    A.append(pin(fm, (7, 7), fin))
                if ref[0] == "eof" and trunc:
                    tb = b0val(m, trunc[0]) & 15
                    A.append(pin(trunc[0], (3, 0), tb))
                    if tb not in OPN:
                        ref = ("outside",) + ref[1:]
                res["ctrl_sequences"] += 1
                res.setdefault("kinds", {})
                res["kinds"][ref[0]] = res["kinds"].get(ref[0], 0) + 1
                if ref[0] == "outside":
                    res["outside_sequences"] += 1
                else:
                    bad = _compare(z3, ex, ref, val, ns, closed, dr, nb)
                    for what, pairs in bad:
                        if pairs is None:
                            res["fails"].append({"what": what, "model": _model_bytes(z3, m, inp), "status": "sat", "ctrl": ctrl})
                            continue
                        s2 = z3.Solver(); s2.set("timeout", 120000)
                        if pc is not True:
                            s2.add(z3bool(pc))
                        s2.add(*rsv0)
                        s2.add(*A)
                        s2.add(z3.Not(z3.And(*[_bv(a, 8) == _bv(b, 8) for a, b in pairs])))
                        r2 = check(s2, what)
                        if r2 != z3.unsat:
                            res["fails"].append({"what": what, "model": _model_bytes(z3, s2.model() if r2 == z3.sat else None, inp), "status": str(r2), "ctrl": ctrl})
                s.add(z3.Not(z3.And(*A)) if A else z3.BoolVal(False))
        res["symex_s"] = round(t_sym, 2)
        res["solver_s"] = round(solver_s, 2)
        res["blocks"] = ctx.blocks_executed
        res["feasibility_queries"] = getattr(ctx, "queries", 0)
        if res["fails"]:
            res["verdict"] = "sat" if any(f["status"] == "sat" for f in res["fails"]) else "unknown"
    except Exception as e:
        import traceback
        res["verdict"] = "error"
        res["why"] = (str(e) + " | " + traceback.format_exc().strip().split("\n")[-3].strip())[:400]
    res["wall_s"] = round(time.time() - t0, 2)
    return res


def _used(frames, ctrl, ref):
    """How many complete frames the reference consumed or inspected."""
    kind, consumed = ref[0], ref[4]
    if kind == "outside":
        # up to and including the offending frame: recompute
        text = None
        for i, (op, fin) in enumerate(ctrl):
            if op not in OPN or (op >= 8 and not fin):
                return i + 1
            if op >= 8:
                continue
            if text is None:
                if op == 0:
                    return i + 1
                text = True
            elif op != 0:
                return i + 1
        return len(ctrl)
    if kind in ("none", "eof-or-none"):
        return sum(1 for f in frames if f[1] <= consumed)
    if kind == "eof":
        return len(ctrl)
    return sum(1 for f in frames if f[1] <= consumed)


def _compare(z3, ex, ref, val, ns, closed, dr, nb):
    """-> list of (what, pairs|None): structural mismatches (pairs None) and byte equalities left to the solver."""
    kind, text, payload, out, consumed, rclosed = ref
    bad = []
    name = val[1].split("::")[-1]
    def err_is(v, e):
        return v[1].split("::")[-1] == "Err" and v[2][0][1].split("::")[-1] == e
    if kind == "msg":
        if name != "Ok":
            bad.append(("a complete message is delivered (got %s)" % _short(val), None))
        else:
            msg = val[2][0]
            got = list(ex.elements(msg[1][0]))
            if len(got) != len(payload):
                bad.append(("message payload has %d bytes, the fragments sent have %d" % (len(got), len(payload)), None))
            else:
                bad.append(("message payload = fragments concatenated in order (unmasked)", list(zip(got, payload))))
            t = msg[1][1]
            t = z3.simplify(t) if hasattr(t, "sort") else t
            tv = bool(t) if isinstance(t, (bool, int)) else (True if z3.is_true(t) else False if z3.is_false(t) else None)
            if tv is None:
                bad.append(("text flag is decided by the first fragment's opcode (got symbolic %s)" % t, None))
            elif tv != text:
                bad.append(("text flag %s, the first fragment says %s" % (tv, text), None))
    elif kind == "closed":
        if not err_is(val, "ConnectionClosed"):
            bad.append(("a Close frame is reported as ConnectionClosed (got %s)" % _short(val), None))
    elif kind == "eof":
        if not err_is(val, "ReadError"):
            bad.append(("a script that ends inside a message is a ReadError (got %s)" % _short(val), None))
    elif kind == "none":
        if name != "None":
            bad.append(("nothing has started to arrive: `nothing yet` (got %s)" % _short(val), None))
    elif kind == "eof-or-none":
        if not (name == "None" or err_is(val, "ReadError")):
            bad.append(("peer closed with nothing pending: `nothing yet` or ReadError (got %s)" % _short(val), None))
    if kind in ("msg", "closed", "none"):
        if ns.pos != consumed:
            bad.append(("consumed %d bytes of the client stream, the frames delivered occupy %d" % (ns.pos, consumed), None))
    cv = closed if isinstance(closed, bool) else (True if z3.is_true(z3.simplify(closed)) else False if z3.is_false(z3.simplify(closed)) else None)
    if cv is None or cv != bool(rclosed):
        bad.append(("closed flag after the call is %s, expected %s" % (closed, rclosed), None))
    exp_out = list(out) + ([] if rclosed else [0x88, 0x00])
    if len(dr) != 1:
        bad.append(("Drop has a single outcome", None))
    else:
        got = list(dr[0][1].out)
        if len(got) != len(exp_out):
            bad.append(("the server wrote %d bytes (incl. the drop-time Close), well-formed replies need %d: got %s" % (len(got), len(exp_out), _short(got)), None))
        elif got:
            bad.append(("bytes written = Pong/Close replies as unmasked frames echoing the payload, then the drop-time Close", list(zip(got, exp_out))))
    # drop trivially-true pair lists
    res = []
    for what, pairs in bad:
        if pairs is not None:
            pairs = [(a, b) for a, b in pairs if not _same(z3, a, b)]
            if not pairs:
                continue
        res.append((what, pairs))
    return res


def _same(z3, a, b):
    if isinstance(a, int) and isinstance(b, int):
        return a == b
    from mirsym.models_sha import _bv
    return z3.is_true(z3.simplify(_bv(a, 8) == _bv(b, 8)))


def _short(v):
    s = str(v)
    return s if len(s) < 160 else s[:157] + "..."


def _model_bytes(z3, m, inp):
    if m is None:
        return None
    out = []
    for b in inp:
        if isinstance(b, int):
            out.append(b)
        else:
            out.append(m.eval(b, model_completion=True).as_long())
    return bytes(out).hex()


# ---------------------------------------------------------------------------------------------------------------------
def shapes(tier):
    """(which, shape, cut, arrived, eof) jobs. Lengths cover 0, 1, non-multiples of 4 (mask index), the three length encodings
    (incl. non-minimal ones) and the 125/126 boundary for data and control payloads."""
    rnd = random.Random(seed())
    F = lambda ln, m=1, e=7: (ln, m, e)
    base = [
        [F(0)], [F(1)], [F(5)], [F(3, 0)], [F(126, 1, 16)], [F(2, 1, 64)],
        [F(0), F(0)], [F(2), F(3)], [F(5, 0), F(1)], [F(1), F(126, 1, 16)], [F(125), F(2)],
        [F(1), F(2), F(3)], [F(0, 0), F(4), F(1, 1, 16)], [F(2), F(0), F(5, 1, 64)],
    ]
    jobs = []
    # one payload longer than the decoder's 64 KiB allocation step (the chunk loop runs, 64-bit length form); put first: it is the longest job
    # (quick: first header byte fixed to FIN|Text so that the 65537 unmask steps are executed on one path only)
    jobs.append(("recv", [(65537, 1, 64, 0x81)], 0, None, True))
    jobs.append(("recv", [(65537, 1, 64, 0x82)], 1, None, True))          # ... and the same cut one byte short (abrupt disconnect inside the second chunk)
    if tier == "thorough":
        jobs.append(("recv", [F(65537, 1, 64)], 0, None, True))
        jobs.append(("recv", [F(70 * 1024, 1, 64)], 0, None, True))
        jobs.append(("recv", [F(65536, 0, 64), F(1)], 0, None, True))
        jobs.append(("recv", [F(65535, 1, 16)], 0, None, True))
        jobs.append(("recv", [F(65537, 1, 64)], 1, None, True))
        jobs.append(("recv_nb", [F(65537, 1, 64)], 0, 1, False))
    for sh in base:
        jobs.append(("recv", sh, 0, None, True))
    # truncated scripts (abrupt disconnect): inside header, ext length, key, payload
    for sh, cut in [([F(3)], 1), ([F(3)], 4), ([F(3)], 8), ([F(2, 1, 16)], 7), ([F(1), F(4)], 2), ([F(1), F(4)], 9), ([F(2), F(2), F(2)], 3)]:
        jobs.append(("recv", sh, cut, None, True))
    # non-blocking: bytes delivered when the call starts
    for sh in [[F(2)], [F(1), F(3)], [F(0), F(1), F(2)], [F(126, 1, 16)]]:
        total = sum(1 + len(enc_len(x[1], x[0], x[2])) + 4 * x[1] + x[0] for x in sh)
        first_end = 1 + len(enc_len(sh[0][1], sh[0][0], sh[0][2])) + 4 * sh[0][1] + sh[0][0]
        for arrived in sorted({0, 1, 2, 3, first_end, first_end + 1, total}):
            if arrived <= total:
                jobs.append(("recv_nb", sh, 0, arrived, arrived >= total))
        jobs.append(("recv_nb", sh, 0, total, False))
    extra = []
    k4 = [[F(rnd.choice([0, 1, 2, 3, 5, 7]), rnd.choice([0, 1]), rnd.choice([7, 7, 16, 64])) for _ in range(n)] for n in (2, 3, 3, 4)]
    for sh in k4:
        extra.append(("recv", sh, 0, None, True))
        total = sum(1 + len(enc_len(m, ln, e)) + 4 * m + ln for ln, m, e in sh)
        extra.append(("recv_nb", sh, 0, rnd.randrange(0, total + 1), True))
        extra.append(("recv", sh, rnd.randrange(1, 6), None, True))
    if tier == "thorough":
        jobs += extra
        big = [[F(1), F(2), F(3), F(4)], [F(0), F(1, 0), F(2), F(3, 0), F(1)], [F(127, 1, 16), F(130, 0, 16)], [F(200, 1, 64)], [F(300, 1, 16), F(1)]]
        for sh in big:
            jobs.append(("recv", sh, 0, None, True))
            jobs.append(("recv_nb", sh, 0, 2, False))
        for _ in range(12):
            n = rnd.choice([1, 2, 3, 4])
            sh = [F(rnd.choice([0, 1, 2, 3, 4, 6, 9, 17]), rnd.choice([0, 1]), rnd.choice([7, 7, 16, 64])) for _ in range(n)]
            total = sum(1 + len(enc_len(m, ln, e)) + 4 * m + ln for ln, m, e in sh)
            jobs.append(("recv", sh, 0, None, True))
            jobs.append(("recv", sh, rnd.randrange(1, min(total, 12)), None, True))
            jobs.append(("recv_nb", sh, 0, rnd.randrange(0, total + 1), rnd.choice([True, False])))
    else:
        jobs += extra[:3 * 2]
    return jobs


def concrete_scripts(rnd, n):
    """Concrete scripts for translator validation: (which, shape, cut, arrived, eof, concrete content)."""
    res = []
    ops = [0, 1, 2, 8, 9, 10, 1, 2, 9, 3, 11]
    for i in range(n):
        k = rnd.choice([1, 1, 2, 2, 3, 4])
        shape, conc = [], []
        for j in range(k):
            ln = rnd.choice([0, 1, 2, 3, 5, 8, 125, 126, 130]) if rnd.random() < 0.8 else rnd.randrange(0, 300)
            mask = rnd.choice([1, 1, 0])
            enc = 7 if ln < 126 and rnd.random() < 0.7 else rnd.choice([16, 64]) if ln < 65536 else 64
            if ln >= 126 and enc == 7:
                enc = 16
            op = rnd.choice(ops)
            fin = rnd.choice([1, 1, 0])
            rsv = rnd.choice([0, 0, 0, 1, 4])
            b0 = (fin << 7) | (rsv << 4) | op
            shape.append((ln, mask, enc))
            conc.append((b0, [rnd.randrange(256) for _ in range(4)], [rnd.randrange(256) for _ in range(ln)]))
        total = sum(1 + len(enc_len(m, ln, e)) + 4 * m + ln for ln, m, e in shape)
        cut = rnd.choice([0, 0, 0, rnd.randrange(0, min(total, 8))])
        which = rnd.choice(["recv", "recv_nb"])
        arrived = rnd.choice([0, 1, 2, total - cut, rnd.randrange(0, total - cut + 1)]) if which == "recv_nb" else None
        eof = rnd.choice([True, True, False]) if which == "recv_nb" and arrived is not None and arrived >= total - cut else True
        res.append((which, shape, cut, arrived, eof, conc))
    return res


def engine_concrete(item):
    which, shape, cut, arrived, eof, conc = item
    z3, F, mk = _setup()
    ctx, ex = mk()
    inp, meta, total = build_script(z3, shape, cut, conc)
    out = run_call(ex, F, which, inp, arrived if which == "recv_nb" else None, eof)
    if out.panics and not out.rets:
        return "PANIC ; ?"
    if len(out.rets) != 1:
        raise RuntimeError("concrete script has %d outcomes" % len(out.rets))
    c, val, locs, heap = out.rets[0]
    dr = after_drop(ex, F, heap[HEAPF][0])
    o = [b if isinstance(b, int) else z3.simplify(b).as_long() for b in dr[0][1].out]
    return "%s ; %s" % (fmt_result(ex, val), bytes(o).hex() if o else "-")


def native_line(which, inp_hex, arrived, eof, total):
    if which == "recv":
        return "wsmsg b %d 1 %s" % (total, inp_hex or "-")
    return "wsmsg n %d %d %s" % (arrived, 1 if eof else 0, inp_hex or "-")


def _validate_one(item):
    try:
        return engine_concrete(item)
    except Exception as e:
        return "ENGINE-ERROR " + str(e)[:200]


def run_part(tier, work, mir):
    import z3
    _G["mir"] = open(mir).read() if os.path.exists(mir) else mir
    _G["budget"] = 900 if tier == "quick" else 3000
    # enum declarations (discriminants of enums without explicit values) from the current sources
    res = {"results": [], "violations": [], "machinery": [], "undischarged": [], "validation": {}}
    exe = mengine.build_mtool("debug")
    exe_rel = mengine.build_mtool("release")
    # ---- translator validation
    rnd = random.Random(seed() * 7919 + 11)
    items = concrete_scripts(rnd, 40 if tier == "quick" else 160)
    big = 65536 + rnd.randrange(1, 900)
    items.insert(0, ("recv", [(big, 1, 64)], 0, None, True, [(0x80 | rnd.choice([1, 2, 9]), [rnd.randrange(256) for _ in range(4)], [rnd.randrange(256) for _ in range(big)])]))
    eng = mengine.pmap(_validate_one, items)
    lines = []
    for (which, shape, cut, arrived, eof, conc) in items:
        inp, meta, total = build_script(z3, shape, cut, conc)
        lines.append(native_line(which, bytes(inp).hex(), arrived, eof, total))
    nat = _native_many(exe, lines)
    mism = []
    cannot = [e for e in eng if e.startswith("ENGINE-ERROR")]
    for it, e, n, l in zip(items, eng, nat, lines):
        if e.startswith("ENGINE-ERROR"):
            continue
        if not _agree(e, n):
            # the native side is a real socket with real pauses: rule out a scheduling hiccup before calling it a disagreement
            again = [_native_many(exe, [l])[0] for _ in range(2)]
            if any(_agree(e, a) for a in again):
                continue
            mism.append({"request": l[:200], "engine": e[:200], "native": n[:200]})
    res["validation"] = {"inputs": len(items), "mismatches": len(mism), "examples": mism[:3],
                         "how": "random concrete client scripts (valid and invalid opcodes, RSV bits, all length encodings, truncations, partial delivery) run through the engine's interpretation of the MIR and through the real recv/recv_nonblocking + Drop on a loopback socket (mtool wsmsg, dev profile)"}
    if mism:
        res["machinery"].append("translator validation: engine and native disagree on %d/%d concrete scripts, e.g. %s" % (len(mism), len(items), json.dumps(mism[0])[:400]))
        return res
    # ---- obligations
    jobs = shapes(tier)
    rs = mengine.pmap(_job, jobs)
    res["results"] = rs
    if cannot:
        res["undischarged"].append({"job": ["recv", [[3, 1, 7], [2, 1, 7]], 0, None, True], "why": "the executor cannot run %d of the %d validation scripts on this tree: %s" % (len(cannot), len(items), cannot[0][:200])})
        # the validation scripts themselves are a native probe against the reference
        for (which, shape, cut, arrived, eof, conc), n, l in zip(items, nat, lines):
            inp, meta, total = build_script(z3, shape, cut, conc)
            exp = _expected_concrete(which, shape, cut, arrived, eof, bytes(inp))
            if exp is not None and not _matches_expected(n, exp) and not _matches_expected(_native_many(exe, [l])[0], exp):
                res["violations"].append({"job": [which, [list(x) for x in shape], cut, arrived, eof], "replay": {"request": l, "native_dev": n, "native_release": _native_many(exe_rel, [l])[0], "expected": exp,
                                                                                                                     "failed": "native probe (validation script the executor cannot run on this tree)", "job": "probe"}})
                return res
    for r in rs:
        if r["verdict"] == "unsat":
            continue
        if r["verdict"] == "sat":
            done = False
            for f in r["fails"]:
                if f["status"] != "sat" or not f.get("model"):
                    continue
                which, shape, cut, arrived, eof = r["job"]
                total = len(f["model"]) // 2
                line = native_line(which, f["model"], arrived if arrived is not None else 0, eof, total)
                nd = _native_many(exe, [line])[0]
                nr = _native_many(exe_rel, [line])[0]
                exp = _expected_concrete(which, [tuple(s) for s in shape], cut, arrived, eof, bytes.fromhex(f["model"]))
                rep = {"request": line, "native_dev": nd, "native_release": nr, "expected": exp, "failed": f["what"], "job": r["job"]}
                deviates = exp is not None and (not _matches_expected(nd, exp) or not _matches_expected(nr, exp))
                if deviates:
                    # real sockets, real pauses: the deviation must be stable
                    for _ in range(2):
                        nd2 = _native_many(exe, [line])[0]
                        nr2 = _native_many(exe_rel, [line])[0]
                        deviates = deviates and (not _matches_expected(nd2, exp) or not _matches_expected(nr2, exp))
                if deviates:
                    res["violations"].append({"job": r["job"], "replay": rep})
                    done = True
                    break
                else:
                    res["machinery"].append("counterexample for %s does not reproduce natively (%s): native %s, expected %s" % (r["job"], f["what"][:100], nd[:100], exp))
                    done = True
                    break
            if not done:
                res["undischarged"].append({"job": r["job"], "why": "; ".join(f["what"] for f in r["fails"])[:300]})
        else:
            res["undischarged"].append({"job": r["job"], "why": r.get("why") or "; ".join(f["what"] + " -> " + f["status"] for f in r["fails"])[:300]})
    # ---- obligations the engine could not decide (a construct without a model, solver `unknown`): native probe of the same shapes with
    #      concrete RFC-valid scripts against the reference receiver. This is sampling, reported as such; it never discharges anything.
    if res["undischarged"] and not res["violations"]:
        prnd = random.Random(seed() * 31 + 5)
        probes = []
        for u in res["undischarged"][:24]:
            which, shape, cut, arrived, eof = u["job"]
            for _ in range(6):
                conc = valid_content(prnd, [tuple(x) for x in shape])
                inp, meta, total = build_script(z3, [tuple(x) for x in shape], cut, conc)
                line = native_line(which, bytes(inp).hex(), arrived if arrived is not None else 0, eof, total)
                exp = _expected_concrete(which, [tuple(x) for x in shape], cut, arrived, eof, bytes(inp))
                if exp is not None:
                    probes.append((u["job"], line, exp))
        nd = _native_many(exe, [p[1] for p in probes])
        res["probes"] = len(probes)
        for (job, line, exp), got in zip(probes, nd):
            if not _matches_expected(got, exp) and not _matches_expected(_native_many(exe, [line])[0], exp):
                nr = _native_many(exe_rel, [line])[0]
                res["violations"].append({"job": job, "replay": {"request": line, "native_dev": got, "native_release": nr, "expected": exp,
                                                                 "failed": "native probe of an obligation the engine could not decide", "job": job}})
                break
    return res


def valid_content(rnd, shape):
    """Random content for a shape whose control sequence is an RFC-valid script."""
    conc = []
    in_msg = False
    for sh_ in shape:
        ln, mask, enc = sh_[:3]
        if len(sh_) > 3:
            op, fin = sh_[3] & 15, sh_[3] >> 7
            if op < 8:
                in_msg = not fin
            conc.append((sh_[3], [rnd.randrange(256) for _ in range(4)], [rnd.randrange(256) for _ in range(ln)]))
            continue
        if in_msg:
            op, fin = rnd.choice([(0, 1), (0, 0), (0, 1), (9, 1), (10, 1), (8, 1)])
        else:
            op, fin = rnd.choice([(1, 1), (2, 1), (1, 0), (2, 0), (9, 1), (10, 1), (8, 1), (9, 1)])
        if op < 8:
            in_msg = not fin
        conc.append(((fin << 7) | op, [rnd.randrange(256) for _ in range(4)], [rnd.randrange(256) for _ in range(ln)]))
    return conc


def _native_many(exe, lines):
    # each request takes 40..350 ms of wall time (socket pauses): run them through several mtool processes
    if not lines:
        return []
    n = min(12, len(lines))
    chunks = [lines[i::n] for i in range(n)]
    import concurrent.futures as cf
    with cf.ThreadPoolExecutor(n) as tp:
        outs = list(tp.map(lambda c: mengine.native_eval(exe, c, timeout=600), chunks))
    res = [None] * len(lines)
    for i, o in enumerate(outs):
        for j, x in enumerate(o):
            res[i + j * n] = x
    return res


def _agree(engine, native):
    if engine == native:
        return True
    # a peer that has closed with nothing pending: read() -> Ok(0) -> NONE; the model reports the same
    return False


def _expected_concrete(which, shape, cut, arrived, eof, data):
    """Reference outcome for a concrete script -> dict or None when the script is outside the claim."""
    pos = 0
    frames, ctrl = [], []
    total = len(data)
    for sh_ in shape:
        ln, mask, enc = sh_[:3]
        start = pos
        hdr = 1 + len(enc_len(mask, ln, enc))
        end = start + hdr + 4 * mask + ln
        if end > total:
            if start < total and (data[start] & 15) not in OPN:
                return None
            break
        b0 = data[start]
        if b0 & 0x70:
            return None
        key = data[start + hdr:start + hdr + 4] if mask else b""
        pay = data[start + hdr + 4 * mask:end]
        un = [(p ^ key[j % 4]) if mask else p for j, p in enumerate(pay)]
        frames.append((start, end, un))
        ctrl.append((b0 & 15, b0 >> 7))
        pos = end
    ref = reference(frames, ctrl, arrived if which == "recv_nb" else None, total, eof)
    if ref[0] == "outside":
        return None
    kind, text, payload, out, consumed, closed = ref
    exp_out = bytes(list(out) + ([] if closed else [0x88, 0])).hex() or "-"
    if kind == "msg":
        r = ["OK %d %s" % (int(text), bytes(payload).hex() if payload else "-")]
    elif kind == "closed":
        r = ["ERR ConnectionClosed"]
    elif kind == "eof":
        r = ["ERR ReadError"]
    elif kind == "none":
        r = ["NONE"]
    else:
        r = ["NONE", "ERR ReadError"]
    return {"results": r, "written": exp_out}


def _matches_expected(native, exp):
    try:
        r, o = native.split(" ; ")
    except ValueError:
        return False
    return r in exp["results"] and o == exp["written"]


def replay(d, path):
    exe = mengine.build_mtool("debug")
    exe_rel = mengine.build_mtool("release")
    r = d["replay"] if "replay" in d else d
    nd = _native_many(exe, [r["request"]])[0]
    nr = _native_many(exe_rel, [r["request"]])[0]
    exp = r["expected"]
    log("replay %s" % r["request"][:200])
    log("   native (dev)     : %s" % nd)
    log("   native (release) : %s" % nr)
    log("   RFC 6455 receiver: %s ; %s" % (" or ".join(exp["results"]), exp["written"]))
    dev = not _matches_expected(nd, exp) or not _matches_expected(nr, exp)
    if dev:
        nd2 = _native_many(exe, [r["request"]])[0]
        nr2 = _native_many(exe_rel, [r["request"]])[0]
        dev = not _matches_expected(nd2, exp) or not _matches_expected(nr2, exp)
    if dev:
        log("VIOLATION property=C11 replay=%s" % path)
        return 1
    log("not reproduced on the current tree")
    return 0
