"""C07 / C03 (HTTP response parser) — Response::from_stream and parse_chunk, engine M in integer mode.

ok-templates (C07): a conforming response with concrete structure and symbolic holes (status digits, header values, body and chunk
bytes) is parsed into exactly the version, status, typed header list and payload it denotes; chunked coding is reported as a plain
body with its Content-Length and without Transfer-Encoding.
np-templates (C03): malformed responses (arbitrary ASCII garbage in the status line, in header lines, in chunk-size lines,
multi-byte UTF-8 at the slicing positions, claimed Content-Length / chunk sizes) never panic and never allocate more than
64 KiB + 16 x the bytes supplied.
"""
import itertools, json, os, random, re, time

from ..common import *
from .. import mengine
from . import c02_req
from .c02_req import L, Hh, KNOWN, flat

_G = {}
HEAPF = -7
CLASSES = dict(c02_req.CLASSES)
CLASSES.update({"any": [(0x00, 0x7F)], "digit": [(0x30, 0x39)], "d15": [(0x31, 0x35)], "hex": [(0x30, 0x39), (0x41, 0x46), (0x61, 0x66)], "reason": [(0x20, 0x7E)]})
c02_req.CLASSES.update(CLASSES)


def A(name, k):
    return ("hole", name, k, "any")


def ok_templates(tier):
    T = {}
    def add(name, segs, version, status, headers, body):
        T[name] = {"segs": segs, "version": version, "status": status, "headers": headers, "body": body}
    add("status_any", [L("HTTP/1.1 "), Hh("s", 1, "d15"), Hh("t", 2, "digit"), L(" "), Hh("r", 2, "reason"), L("\r\n\r\n")], [L("HTTP/1.1")], ("digits", ["s", "t"]), [], [])
    add("cl_body", [L("HTTP/1.1 200 OK\r\nContent-Length: 3\r\n\r\n"), Hh("x", 3, "byte")], [L("HTTP/1.1")], 200, [("Content-Length", [L("3")])], ["x"])
    add("cl_zero", [L("HTTP/1.0 404 Not Found\r\ncontent-length: 0\r\n\r\n")], [L("HTTP/1.0")], 404, [("Content-Length", [L("0")])], [])
    add("no_body", [L("HTTP/1.1 204 No Content\r\nServer: "), Hh("a", 1, "hval1"), Hh("b", 2, "hval"), Hh("z", 1, "hval1"), L("\r\n\r\n")], [L("HTTP/1.1")], 204, [("Server", ["a", "b", "z"])], [])
    add("hdr_no_space", [L("HTTP/1.1 200 OK\r\nContent-Length:2\r\nX-K:"), Hh("a", 1, "hval1"), L("\r\n\r\n"), Hh("x", 2, "byte")], [L("HTTP/1.1")], 200,
        [("Content-Length", [L("2")]), ("x-k", ["a"])], ["x"])
    add("hdr_tab", [L("HTTP/1.1 200 OK\r\nServer:\t"), Hh("a", 1, "hval1"), L("\r\nSet-Cookie: "), Hh("b", 1, "hval1"), L("\r\nset-cookie: "), Hh("c", 1, "hval1"), L("\r\n\r\n")], [L("HTTP/1.1")], 200,
        [("Server", ["a"]), ("Set-Cookie", ["b"]), ("Set-Cookie", ["c"])], [])
    add("chunked_2", [L("HTTP/1.1 200 OK\r\nTransfer-Encoding: chunked\r\n\r\n2\r\n"), Hh("x", 2, "byte"), L("\r\n3\r\n"), Hh("y", 3, "byte"), L("\r\n0\r\n\r\n")], [L("HTTP/1.1")], 200,
        [("Content-Length", [L("5")])], ["x", "y"])
    add("chunked_hex", [L("HTTP/1.1 200 OK\r\nDate: d\r\nTransfer-Encoding: chunked\r\n\r\nA\r\n"), Hh("x", 10, "byte"), L("\r\n0\r\n\r\n")], [L("HTTP/1.1")], 200,
        [("Date", [L("d")]), ("Content-Length", [L("10")])], ["x"])
    add("chunked_empty", [L("HTTP/1.1 200 OK\r\nTransfer-Encoding: chunked\r\n\r\n0\r\n\r\n")], [L("HTTP/1.1")], 200, [("Content-Length", [L("0")])], [])
    add("empty_reason", [L("HTTP/1.1 200 \r\nServer:\r\nDate: \r\n\r\n")], [L("HTTP/1.1")], 200, [("Server", []), ("Date", [])], [])
    add("reason_spaces", [L("HTTP/1.0 500 Internal  Server Error \r\nContent-Length: 1\r\n\r\n"), Hh("x", 1, "byte")], [L("HTTP/1.0")], 500, [("Content-Length", [L("1")])], ["x"])
    add("value_colon", [L("HTTP/1.1 302 Found\r\nLocation: http://"), Hh("a", 2, "hval1"), L(":80/\r\n\r\n")], [L("HTTP/1.1")], 302, [("Location", [L("http://"), "a", L(":80/")])], [])
    add("chunk_crlf_bytes", [L("HTTP/1.1 200 OK\r\nTransfer-Encoding: chunked\r\n\r\n4\r\n\r\n"), Hh("x", 1, "byte"), L("\n\r\n0\r\n\r\n")], [L("HTTP/1.1")], 200,
        [("Content-Length", [L("4")])], [L("\r\n"), "x", L("\n")])
    add("cl_then_more", [L("HTTP/1.1 200 OK\r\nContent-Length: 2\r\n\r\n"), Hh("x", 2, "byte"), L("HTTP/1.1 404 Not Found\r\n\r\n")], [L("HTTP/1.1")], 200, [("Content-Length", [L("2")])], ["x"])
    if tier == "thorough":
        add("chunked_3", [L("HTTP/1.1 200 OK\r\nTransfer-Encoding: chunked\r\n\r\n1\r\n"), Hh("x", 1, "byte"), L("\r\n1\r\n"), Hh("y", 1, "byte"), L("\r\n1f\r\n"), Hh("z", 31, "byte"), L("\r\n0\r\n\r\n")],
            [L("HTTP/1.1")], 200, [("Content-Length", [L("33")])], ["x", "y", "z"])
        add("cl_body64", [L("HTTP/1.1 200 OK\r\nContent-Length: 64\r\n\r\n"), Hh("x", 64, "byte")], [L("HTTP/1.1")], 200, [("Content-Length", [L("64")])], ["x"])
        add("long_value", [L("HTTP/1.1 301 Moved Permanently\r\nLocation: "), Hh("a", 1, "hval1"), Hh("b", 16, "hval"), Hh("z", 1, "hval1"), L("\r\n\r\n")], [L("HTTP/1.1")], 301, [("Location", ["a", "b", "z"])], [])
    return T


START = "HTTP/1.1 200 OK\r\n"


def np_templates(tier):
    T = {}
    for k in (1, 2, 3) + ((4,) if tier == "thorough" else ()):
        T["status_%d" % k] = [A("a", k)]
    T["status_sp"] = [L("HTTP/1.1 "), A("a", 3), L(" "), A("b", 1)]
    T["status_code"] = [L("HTTP/1.1 "), A("a", 3), L(" OK\r\n\r\n")]
    for k in (1, 2, 3):
        T["hdr_%d" % k] = [L(START), A("a", k)]
    T["hdr_nocolon"] = [L(START), A("a", 2), L("\r\n\r\n")]
    T["hdr_second"] = [L(START + "Server: s\r\n"), A("a", 2)]
    for nm, ch in (("u2", "\u00e9"), ("u3", "\u20ac"), ("u4", "\U0001d11e")):
        T["hdr_%s_end" % nm] = [L(START), A("a", 1), L(ch + "\n")]
        T["hdr_%s_colon" % nm] = [L(START + "A:" + ch), A("a", 1), L("\n")]
    T["status_u2"] = [L("HTTP/1.1 200 \u00e9\n\r\n")]
    T["bad_utf8"] = [L(START), ("raw", [0x41, 0x3A, 0xFF, 0x0A])]
    T["cl_digits6"] = [L(START + "Content-Length: "), ("hole", "d", 6, "digit"), L("\r\n\r\n")]
    T["cl_any2"] = [L(START + "Content-Length:"), A("d", 2), L("\r\n\r\nab")]
    T["cl_gib"] = [L(START + "Content-Length: 1073741824\r\n\r\nxyz")]
    T["cl_huge"] = [L(START + "Content-Length: 18446744073709551615\r\n\r\n")]
    T["chunk_size_any"] = [L(START + "Transfer-Encoding: chunked\r\n\r\n"), A("a", 2), L("\r\nab")]
    T["chunk_size_hex6"] = [L(START + "Transfer-Encoding: chunked\r\n\r\n"), ("hole", "h", 6, "hex"), L("\r\nab\r\n0\r\n\r\n")]
    T["chunk_gib"] = [L(START + "Transfer-Encoding: chunked\r\n\r\n40000000\r\nxyz")]
    T["chunk_huge"] = [L(START + "Transfer-Encoding: chunked\r\n\r\nffffffffffffffff\r\n")]
    T["chunk_trunc"] = [L(START + "Transfer-Encoding: chunked\r\n\r\n3\r\nab")]
    T["chunk_u2"] = [L(START + "Transfer-Encoding: chunked\r\n\r\n\u00e9\r\n")]
    return T


def _setup():
    c02_req._G.update({"mir": _G["mir"], "tier": _G["tier"], "budget": _G.get("budget", 600)})
    z3, _f, mk = c02_req._setup()
    funcs = c02_req._G["funcs"]
    c = [v for n, v in funcs.items() if not isinstance(v, tuple) and n.endswith("::from_stream") and "response.rs" in n]
    into = [v for n, v in funcs.items() if not isinstance(v, tuple) and "status.rs" in n and n.endswith("::from") and v.args and v.args[0][1].strip().endswith("StatusCode") and v.ret_type.strip() == "u16"]
    if len(c) != 1:
        raise RuntimeError("cannot locate Response::from_stream (%d candidates)" % len(c))
    return z3, c[0], (into[0] if into else None), mk


def run_parser(ex, f, inp, cuts=()):
    from mirsym.models_ws import NetStream
    return ex.run_function(f, [("ref", ("local", HEAPF, 0, ()))], heap={HEAPF: {0: NetStream(tuple(inp), cuts=tuple(cuts))}})


def _job(job):
    kind, name = job
    name, plan = c02_req.split_plan(name)
    t0 = time.time()
    res = {"template": name, "plan": plan, "kind": kind, "verdict": "unsat", "fails": [], "n_checks": 0, "paths": 0}
    try:
        z3, f, finto, mk = _setup()
        from mirsym.exec import z3bool
        from mirsym.models import str_chars
        if kind == "np":
            from .c03_req import instantiate as inst
            segs = np_templates(_G["tier"])[name]
            old = dict(__import__("vlib.props.c03_req", fromlist=["x"]).CLASSES)
            __import__("vlib.props.c03_req", fromlist=["x"]).CLASSES.update(CLASSES)
            inp, assume = inst(z3, segs)
            holes = {}
        else:
            tpl = ok_templates(_G["tier"])[name]
            inp, holes, assume = c02_req.instantiate(z3, tpl)
        ctx, ex = mk(assume)
        out = run_parser(ex, f, inp, c02_req.cuts_for(plan, len(inp)))
        res["paths"] = len(out.rets) + len(out.panics)
        solver_s = 0.0
        def valid(pc, goal, what, kindf="value"):
            nonlocal solver_s
            s = z3.Solver(); s.set("timeout", 60000)
            s.add(*assume)
            if pc is not True:
                s.add(z3bool(pc))
            s.add(z3.Not(goal) if goal is not None else z3.BoolVal(True))
            t = time.time(); r = s.check(); solver_s += time.time() - t
            res["n_checks"] += 1
            if r != z3.unsat:
                m = s.model() if r == z3.sat else None
                res["fails"].append({"what": what, "kind": kindf, "status": str(r), "input": c02_req._model_bytes(z3, m, inp) if m is not None else None})
        for pc, msg in out.panics:
            valid(pc, None, str(msg)[:160], "alloc" if str(msg).startswith("ALLOC") else "panic")
        cover = [z3bool(pc) if pc is not True else z3.BoolVal(True) for pc, *_ in out.rets] + [z3bool(pc) if pc is not True else z3.BoolVal(True) for pc, _ in out.panics]
        valid(True, z3.Or(*cover) if cover else z3.BoolVal(False), "the explored paths cover every value of the holes", "cover")
        if kind == "ok":
            def eq_chars(got, want):
                if len(got) != len(want):
                    return None
                cs = [g == w for g, w in zip(got, want) if not (isinstance(g, int) and isinstance(w, int) and g == w)]
                if any(c is False for c in cs):
                    return z3.BoolVal(False)
                cs = [c for c in cs if c is not True]
                return z3.And(*cs) if cs else z3.BoolVal(True)
            consumed = len(inp) - (len("HTTP/1.1 404 Not Found\r\n\r\n") if name == "cl_then_more" else 0)
            for pc, val, locs, heap in out.rets:
                if val[1] != "Ok":
                    if isinstance(tpl["status"], tuple):
                        continue            # a status number Humphrey does not model is rejected: checked below through the Ok paths' cover
                    valid(pc, None, "a conforming response is parsed (got %s)" % str(val)[:80])
                    continue
                version, status, headers, body = val[2][0][1]
                g = eq_chars(list(str_chars(version)), flat(tpl["version"], holes))
                valid(pc, g if g is not None else z3.BoolVal(False), "version equals the text sent")
                if finto is not None:
                    num, _p = ex.call_value(type("S", (), {"frame": -1, "locals": {}, "heap": {}, "pc": True, "func": finto})(), finto, [status]) if False else (None, None)
                code = _status_number(ex, finto, status)
                if isinstance(tpl["status"], tuple):
                    ds = flat(tpl["status"][1], holes)
                    valid(pc, (ds[0] - 48) * 100 + (ds[1] - 48) * 10 + (ds[2] - 48) == code, "status is the number in the status line")
                elif code != tpl["status"]:
                    valid(pc, None, "status is %d (got %s)" % (tpl["status"], status[1]))
                hs = list(ex.elements(headers[1][0]))
                if len(hs) != len(tpl["headers"]):
                    valid(pc, None, "%d header fields, %d expected (chunked: Transfer-Encoding replaced by Content-Length)" % (len(hs), len(tpl["headers"])))
                else:
                    for i, (h, (ename, evalue)) in enumerate(zip(hs, tpl["headers"])):
                        hname, hvalue = h[1]
                        g = eq_chars(list(str_chars(hvalue)), flat(evalue, holes))
                        valid(pc, g if g is not None else z3.BoolVal(False), "value of header %d equals the text sent" % i)
                        variant = hname[1].split("::")[-1]
                        want_variant = KNOWN.get(ename.lower())
                        if want_variant is not None:
                            if variant != want_variant:
                                valid(pc, None, "header %d is typed %s (got %s)" % (i, want_variant, variant))
                        elif variant != "Custom" or list(str_chars(hname[2][0])) != [ord(c) for c in ename.lower()]:
                            valid(pc, None, "header %d is Custom(%s)" % (i, ename.lower()))
                got = list(ex.elements(body))
                g = eq_chars(got, flat(tpl["body"], holes))
                valid(pc, g if g is not None else z3.BoolVal(False), "payload equals the %d bytes sent" % len(flat(tpl["body"], holes)))
                if heap[HEAPF][0].pos != consumed:
                    valid(pc, None, "consumed %d bytes of %d" % (heap[HEAPF][0].pos, consumed))
            if isinstance(tpl["status"], tuple):
                # every status number Humphrey models is accepted: the Err paths only hold numbers outside the table
                errs = [z3bool(pc) if pc is not True else z3.BoolVal(True) for pc, val, *_ in out.rets if val[1] != "Ok"]
                ds = flat(tpl["status"][1], holes)
                num = (ds[0] - 48) * 100 + (ds[1] - 48) * 10 + (ds[2] - 48)
                codes = _G.get("codes") or []
                if codes and errs:
                    valid(z3.Or(*errs), z3.And(*[num != c for c in codes]), "a status number that Humphrey models is never rejected")
        res["solver_s"] = round(solver_s, 2)
        res["blocks"] = ctx.blocks_executed
        if res["fails"]:
            res["verdict"] = "sat" if any(x["status"] == "sat" for x in res["fails"]) else "unknown"
    except Exception as e:
        import traceback
        res["verdict"] = "error"
        res["why"] = (str(e) + " | " + traceback.format_exc().strip().split("\n")[-3].strip())[:400]
    res["wall_s"] = round(time.time() - t0, 2)
    return res


def _status_number(ex, finto, status):
    if finto is None:
        raise RuntimeError("From<StatusCode> for u16 not found in the MIR")
    out = ex.run_function(finto, [status])
    return out.rets[0][1]


def status_codes():
    """The status numbers of the current sources (`NNN => Ok(StatusCode::X)` arms of TryFrom<u16>)."""
    txt = open(os.path.join(REPO, "humphrey", "src", "http", "status.rs")).read()
    return sorted(set(int(x) for x in re.findall(r"^\s*(\d{3}) => Ok\(StatusCode::", txt, re.M)))


def fmt_engine(ex, finto, val):
    import z3
    from mirsym.models import str_chars
    def ci(x):
        return int(x) if isinstance(x, int) else z3.simplify(x).as_long()
    def sb(s):
        return "".join(chr(ci(c)) for c in str_chars(s)).encode("utf-8")
    if val[1] != "Ok":
        return "ERR " + val[2][0][1].split("::")[-1]
    version, status, headers, body = val[2][0][1]
    hs = []
    for h in ex.elements(headers[1][0]):
        n, v = h[1]
        variant = n[1].split("::")[-1]
        hs.append((variant if variant != "Custom" else 'Custom("%s")' % c02_req.rust_debug_escape(sb(n[2][0]).decode("utf-8", "replace")), sb(v)))
    def esc(b):
        return c02_req.rust_debug_escape(b.decode("utf-8", "replace"))
    hx = lambda b: b.hex() if b else "-"
    return "OK %s|%d|Headers([%s])|%s" % (hx(sb(version)), ci(_status_number(ex, finto, status)), ", ".join('Header { name: %s, value: "%s" }' % (n, esc(v)) for n, v in hs), hx(bytes(ci(c) for c in ex.elements(body))))


def _concrete(data):
    try:
        z3, f, finto, mk = _setup()
        ctx, ex = mk()
        out = run_parser(ex, f, list(data))
        if out.panics and not out.rets:
            m0 = str(out.panics[0][1])
            return "ALLOC" if m0.startswith("ALLOC") else "HANG" if m0.startswith("DIVERGES") else "PANIC"
        if len(out.rets) != 1:
            return "ENGINE-ERROR %d outcomes" % len(out.rets)
        return fmt_engine(ex, finto, out.rets[0][1])
    except Exception as e:
        return "ENGINE-ERROR " + str(e)[:200]


def native_check(exe, data, kind):
    if kind == "alloc":
        out = mengine.native_eval(exe, ["respalloc " + (data.hex() or "-")])[0]
        m = re.search(r"alloc=(\d+)", out)
        return (m is not None and int(m.group(1)) > 65536 + 16 * len(data)) or out.startswith("PANIC"), out
    out = mengine.native_eval_guarded(exe, "resp 0 " + (data.hex() or "-"), timeout=10)
    return out in ("PANIC", "HANG"), out


def concretise_alloc(data):
    data = re.sub(rb"(?i)(content-length:[ \t]*)\+?[0-9]{10,}", rb"\g<1>1073741824", data)
    return re.sub(rb"(\r\n\r\n)[0-9a-fA-F]{9,}(\r\n)", rb"\g<1>40000000\g<2>", data)


def role(data, kind, what):
    if kind == "alloc":
        return "response:chunk-size-allocation" if b"chunked" in data.lower() else "response:content-length-allocation"
    if "index out of bounds" in what:
        return "response:header-line-without-colon"
    if what.startswith("DIVERGES") or "HANG" in what:
        return "response:endless-loop"
    try:
        data.decode("ascii")
        return "response:panic-ascii"
    except UnicodeDecodeError:
        return "response:header-line-slice-inside-multibyte-char"


def run_part(tier, work, mir, which):
    """which: 'ok' (C07) or 'np' (C03)"""
    import z3
    pid = "C07" if which == "ok" else "C03"
    _G.update({"mir": mir, "tier": tier, "budget": 600 if tier == "quick" else 1800, "codes": status_codes()})
    known = load_known()
    res = {"results": [], "violations": [], "known_hits": [], "machinery": [], "undischarged": [], "validation": {}}
    exe = mengine.build_mtool("debug")
    exe_rel = mengine.build_mtool("release")
    rnd = random.Random(seed() * 59 + (1 if which == "ok" else 2))
    # ---- translator validation on concrete instances (well-formed and malformed)
    from . import c03_req
    c03_req.CLASSES.update(CLASSES)
    reqs = []
    OT, NT = ok_templates(tier), np_templates(tier)
    def pick(cls):
        a, b = rnd.choice(CLASSES[cls])
        return rnd.randint(a, b)
    for i in range(40 if tier == "quick" else 160):
        if i % 2 == 0:
            tpl = OT[sorted(OT)[(i // 2) % len(OT)]]
            conc = {seg[1]: [pick(seg[3]) if seg[3] != "byte" else rnd.randrange(0, 128) for _ in range(seg[2])] for seg in tpl["segs"] if seg[0] == "hole"}
            inp, _, _ = c02_req.instantiate(z3, tpl, conc)
        else:
            segs = NT[sorted(NT)[(i // 2) % len(NT)]]
            conc = {seg[1]: [rnd.choice([rnd.randrange(0, 128), 0x0A, 0x0D, 0x3A, 0x20, 0x30 + rnd.randrange(10)]) if seg[3] == "any" else pick(seg[3]) for _ in range(seg[2])] for seg in segs if seg[0] == "hole"}
            inp, _ = c03_req.instantiate(z3, segs, conc)
        reqs.append(bytes(inp))
    eng = mengine.pmap(_concrete, reqs)
    keep = [(d, e) for d, e in zip(reqs, eng) if e != "ALLOC"]          # huge claimed sizes are exercised natively by the replay only
    plans = [rnd.choice([0, 1, 7, rnd.randrange(2, 90)]) for _ in keep]
    nat = mengine.native_eval(exe, ["resp %d %s" % (p_, d.hex() or "-") for (d, e), p_ in zip(keep, plans)])
    cannot = [e for d, e in keep if e.startswith("ENGINE-ERROR")]
    mism = [{"request": d.hex()[:120], "engine": e[:160], "native": n[:160]} for (d, e), n in zip(keep, nat) if not e.startswith("ENGINE-ERROR") and e != n]
    res["validation"] = {"inputs": len(keep), "mismatches": len(mism), "engine_cannot_run": len(cannot), "examples": mism[:3], "native_panics_seen": sum(1 for n in nat if n == "PANIC")}
    if mism:
        for (d, e), p_, n in zip(keep, plans, nat):
            if e != n and not e.startswith("ENGINE-ERROR") and p_ != 0:
                n0 = mengine.native_eval(exe, ["resp 0 " + (d.hex() or "-")])[0]
                if n0 == e and n0 != n:
                    res["violations"].append({"template": "read segmentation", "replay": {"request_hex": d.hex(), "text": d.decode("latin-1")[:200], "kind": "segmentation", "plan": p_, "native_dev": n[:300],
                                                                                          "native_release": mengine.native_eval(exe_rel, ["resp %d %s" % (p_, d.hex() or "-")])[0][:300], "expected": n0[:300],
                                                                                          "failed": "the result depends on how the bytes are split across reads (read plan %d vs all-at-once)" % p_, "template": "segmentation", "key": "response:segmentation"}})
                    return res
        res["machinery"].append("translator validation: engine and native response parser disagree on %d/%d inputs, e.g. %s" % (len(mism), len(keep), json.dumps(mism[0])[:400]))
        return res
    if cannot:
        res["undischarged"].append({"template": "all", "why": cannot[0][:300]})
        if which == "ok":
            # native probe (sampling; discharges nothing): concrete instances of the conforming templates against what they denote
            for name in sorted(OT):
                tpl = OT[name]
                for _ in range(4):
                    conc = {seg[1]: [pick(seg[3]) if seg[3] != "byte" else rnd.randrange(0, 256) for _ in range(seg[2])] for seg in tpl["segs"] if seg[0] == "hole"}
                    inp, _, _ = c02_req.instantiate(z3, tpl, conc)
                    data = bytes(inp)
                    exp = _expected_concrete(name, data, tier)
                    pl = rnd.choice([0, 1, 1, rnd.randrange(2, max(3, len(data)))])
                    nd = mengine.native_eval(exe, ["resp %d %s" % (pl, data.hex() or "-")])[0]
                    if exp is not None and nd != exp:
                        nr = mengine.native_eval(exe_rel, ["resp %d %s" % (pl, data.hex() or "-")])[0]
                        res["violations"].append({"template": name, "replay": {"request_hex": data.hex(), "text": data.decode("latin-1")[:200], "kind": "value", "plan": pl, "failed": "native probe of a conforming response under read plan %d (the engine cannot run this tree)" % pl,
                                                                                 "native_dev": nd[:300], "native_release": nr[:300], "expected": exp[:300], "template": name, "key": "response:value"}})
                        return res
        if which == "np":
            for (d, e), n in zip(keep, nat):
                if n in ("PANIC", "HANG"):
                    _classify(res, known, pid, {"template": "native probe", "input": d, "kind": "panic", "what": "native probe: panic", "native_dev": n, "native_release": mengine.native_eval(exe_rel, ["resp 0 " + (d.hex() or "-")])[0]})
                    break
        return res
    if which == "ok":
        jobs = []
        for n in sorted(OT):
            nb = len(c02_req.instantiate(z3, OT[n])[0])
            jobs += [("ok", n if p_ is None else "%s@%s" % (n, p_)) for p_ in c02_req.plans_for(nb, tier, n + " body")]
    else:
        jobs = [("np", n) for n in sorted(NT)]
    rs = mengine.pmap(_job, jobs)
    res["results"] = rs
    for r in rs:
        if r["verdict"] == "unsat":
            continue
        if not any(f["status"] == "sat" for f in r["fails"]):
            res["undischarged"].append({"template": r["template"], "why": r.get("why") or "; ".join(f["what"] + " -> " + f["status"] for f in r["fails"])[:300]})
            continue
        seen = set()
        for f in r["fails"]:
            if f["status"] != "sat" or not f.get("input"):
                continue
            data = bytes.fromhex(f["input"])
            if f["kind"] in ("panic", "alloc"):
                if which == "ok":
                    # C07 is about values; crashes on conforming input are still violations of "returns exactly ..."
                    pass
                rl = role(data, f["kind"], f["what"])
                if rl in seen:
                    continue
                seen.add(rl)
                rdata = concretise_alloc(data) if f["kind"] == "alloc" else data
                dd, od = native_check(exe, rdata, f["kind"])
                dr, orr = native_check(exe_rel, rdata, f["kind"])
                if dd or dr:
                    _classify(res, known, pid, {"template": r["template"], "input": rdata, "kind": f["kind"], "what": f["what"], "native_dev": od, "native_release": orr})
                else:
                    res["machinery"].append("counterexample for template %s (%s) does not reproduce natively: %s" % (r["template"], f["what"][:100], od))
            else:
                if "value" in seen:
                    continue
                seen.add("value")
                # value mismatch on a conforming response: the native parser must differ from the engine's own reference reading, i.e. from what
                # the template denotes; replay = native output vs the expectation rebuilt from the concrete bytes
                exp = _expected_concrete(r["template"], data, tier)
                npl = c02_req.native_plan(r.get("plan"))
                nd = mengine.native_eval(exe, ["resp %d %s" % (npl, data.hex() or "-")])[0]
                nr = mengine.native_eval(exe_rel, ["resp %d %s" % (npl, data.hex() or "-")])[0]
                if exp is not None and (nd != exp or nr != exp):
                    res["violations"].append({"template": r["template"], "replay": {"request_hex": data.hex(), "text": data.decode("latin-1")[:200], "kind": "value", "plan": npl, "failed": f["what"] + ("" if not npl else " [read plan %d]" % npl), "native_dev": nd[:300], "native_release": nr[:300],
                                                                                  "expected": exp[:300], "template": r["template"], "key": "response:value"}})
                else:
                    res["machinery"].append("value counterexample for template %s (%s) does not reproduce natively: %s" % (r["template"], f["what"][:100], nd[:120]))
    return res


def _expected_concrete(name, data, tier):
    """What a concrete instance of an ok-template denotes, in mtool's output format (None if the bytes do not fit the template)."""
    tpl = ok_templates(tier).get(name)
    if tpl is None:
        return None
    pos, holes = 0, {}
    for seg in tpl["segs"]:
        if seg[0] == "lit":
            b = seg[1].encode("latin-1")
            if data[pos:pos + len(b)] != b:
                return None
            pos += len(b)
        else:
            holes[seg[1]] = list(data[pos:pos + seg[2]])
            pos += seg[2]
    if isinstance(tpl["status"], tuple):
        ds = flat(tpl["status"][1], holes)
        code = (ds[0] - 48) * 100 + (ds[1] - 48) * 10 + (ds[2] - 48)
        if code not in status_codes():
            return "ERR Response"
    else:
        code = tpl["status"]
    def esc(b):
        return c02_req.rust_debug_escape(bytes(b).decode("latin-1"))
    hs = []
    for ename, evalue in tpl["headers"]:
        v = KNOWN.get(ename.lower())
        hs.append('Header { name: %s, value: "%s" }' % (v if v else 'Custom("%s")' % ename.lower(), esc(flat(evalue, holes))))
    hx = lambda b: bytes(b).hex() if b else "-"
    return "OK %s|%d|Headers([%s])|%s" % (hx(flat(tpl["version"], holes)), code, ", ".join(hs), hx(flat(tpl["body"], holes)))


def _classify(res, known, pid, item):
    data = item["input"]
    key = role(data, item["kind"], item["what"])
    rep = {"request_hex": data.hex(), "text": data.decode("latin-1")[:200], "kind": item["kind"], "failed": item["what"], "native_dev": item["native_dev"], "native_release": item["native_release"],
           "template": item["template"], "key": key}
    if (pid, key) in known:
        if key not in [k["key"] for k in res["known_hits"]]:
            res["known_hits"].append(rep)
    elif key not in [v["replay"]["key"] for v in res["violations"]]:
        res["violations"].append({"template": item["template"], "replay": rep})


def replay(d, path, pid):
    exe = mengine.build_mtool("debug")
    exe_rel = mengine.build_mtool("release")
    r = d["replay"]
    data = bytes.fromhex(r["request_hex"])
    log("replay %r (%s)" % (r["text"][:160], r["kind"]))
    if r["kind"] in ("value", "segmentation"):
        pl = r.get("plan", 0)
        nd = mengine.native_eval(exe, ["resp %d %s" % (pl, data.hex() or "-")])[0]
        nr = mengine.native_eval(exe_rel, ["resp %d %s" % (pl, data.hex() or "-")])[0]
        log("   native (dev / release): %s / %s" % (nd[:200], nr[:200]))
        log("   the bytes denote      : %s" % r["expected"][:200])
        bad = nd != r["expected"] or nr != r["expected"]
    else:
        dd, od = native_check(exe, data, r["kind"])
        dr, orr = native_check(exe_rel, data, r["kind"])
        log("   native (dev / release): %s / %s" % (od[:200], orr[:200]))
        bad = dd or dr
    if bad:
        log("VIOLATION property=%s replay=%s" % (pid, path))
        return 1
    log("not reproduced on the current tree")
    return 0
