"""C14 — typed JSON mapping and json! (claimed: inputs over a fixed family of programs)."""
from ..kengine import H

ID = "C14"
MODULE = "c14"
ENGINE = "K"

META = {
    "functions_encoded": [
        "humphrey-json/src/macros.rs: json!, json_array_internal!, json_object_internal!, json_map! (expanded at compile time from the current sources into the harness crate)",
        "humphrey-json-derive: derive(FromJson, IntoJson) for a named struct (rename, Option, nested), a unit-variant enum (rename) and a tuple struct (expansions compiled into the harness crate)",
        "humphrey-json/src/traits.rs: IntoJson/FromJson for bool, integers, Option<T>, &T; humphrey-json/src/indexing.rs: Value::get",
    ],
    "reference_model": "hand-built Value trees in kani/src/c14.rs",
    "stubs": [],
    "assumes": ["the family of programs is fixed (kani/src/c14.rs): a change to the macros/derive changes the compiled expansion and is seen; program shapes outside the family are not"],
    "outside_bounds": ["the quantifier over generated programs (macro expansion is compile time)", "String / Vec<T> / f64 fields, rename strings with JSON-special characters", "json! literals other than the listed templates; parsing the equivalent JSON text (C13)"],
}


UW = [("src/c14.rs", "", 8), ("src/lib.rs", "key_eq", 20), ("src/lib.rs", "bytes", 6), ("@raw", "memcmp.0", 12), ("slice/iter/macros.rs", "", 6), ("iter/", "", 6), ("vec/", "", 6), ("ptr/mod.rs", "", 6)]


def harnesses():
    hs = [
        H("c14_macro_lit_0", "macro_lit::<_, 0>", 2, "quick", "json!([null, x]) with symbolic x: bool, y: u8 == the hand-built value", timeout=1200, mem_gb=14),
        H("c14_macro_lit_1", "macro_lit::<_, 1>", 2, "quick", "json!([x, null, y]) with symbolic x: bool, y: u8 == the hand-built value", timeout=1200, mem_gb=14),
        H("c14_macro_lit_2", "macro_lit::<_, 2>", 2, "quick", "json!([null, null, x,]) with symbolic x: bool, y: u8 == the hand-built value", timeout=1200, mem_gb=14),
        H("c14_macro_lit_3", "macro_lit::<_, 3>", 2, "quick", "json!({\"a\": null, \"b\": x}) with symbolic x: bool, y: u8 == the hand-built value", timeout=1200, mem_gb=14),
        H("c14_macro_lit_4", "macro_lit::<_, 4>", 2, "quick", "json!({\"k\": [y, null], \"n\": null}) with symbolic x: bool, y: u8 == the hand-built value", timeout=1200, mem_gb=14),
        H("c14_macro_lit_5", "macro_lit::<_, 5>", 2, "quick", "json!([[null, x], {\"z\": y}]) with symbolic x: bool, y: u8 == the hand-built value", timeout=1200, mem_gb=14),
        H("c14_derive_struct", "derive_struct", 2, "quick", "derive on a named struct (rename with a space, Option<u8>, nested struct), all field values: documented shape and round trip", timeout=1500, mem_gb=12),
        H("c14_derive_enum_tuple", "derive_enum_tuple", 2, "quick", "unit enum with rename, tuple struct, json_map!: shapes and round trips for all values", timeout=1500, mem_gb=12),
        H("c14_prim_roundtrip", "prim_roundtrip", 4, "quick", "u32/i32/u16/i8 -> JSON number -> back, every value", timeout=1200, mem_gb=8),
        H("c14_prim64_roundtrip", "prim64_roundtrip", 4, "quick", "u64/i64 round trip for every value up to 2^53 (beyond: known-finding region)", timeout=1200, mem_gb=8),
        H("c14_prim64_beyond_2_53", "prim64_roundtrip", 4, "quick", "u64/i64 beyond 2^53 (region of the known finding: expected to fail while the finding stands)", only="int64-beyond-2^53", timeout=1200, mem_gb=8),
    ]
    for h in hs:
        h.module = MODULE
        if h.unwind == 2 or "prim64" in h.name:
            h.unwindset = list(UW)
            h.timeout = 900
    return hs
