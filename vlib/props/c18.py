"""C18 — home-grown SHA-1, Base64, percent-encoding and HTTP dates (Base64: engine K)."""
from ..kengine import H

ID = "C18"
MODULE = "c18"
ENGINE = "KM"
TECHNIQUE = "Base64: Kani/CBMC bounded model checking of the compiled code; dates, SHA-1, percent-encoding: symbolic execution of the MIR (cut-point invariants; bit-vectors for SHA-1; format! through a model of the fmt::Arguments template) -> z3; counterexamples replayed natively"

META = {
    "functions_encoded": [
        "humphrey-ws/src/util/base64.rs: <T as Base64Encode>::encode (T = [u8; L])",
        "humphrey-ws/src/util/base64.rs: <T as Base64Decode>::decode (T = &str / String)",
    ],
    "reference_model": "kani/src/refs/b64.rs (RFC 4648 §4 table and padding rules; strict classifier)",
    "stubs": [],
    "assumes": ["decode inputs are ASCII (< 0x80), plus templates with one symbolic 2-byte UTF-8 character (3-/4-byte characters are outside the bound)"],
    "outside_bounds": [
        "Base64 inputs longer than the listed shapes (encode > 7 bytes, decode > 8 symbols)",
        "non-canonical final groups (non-zero discarded bits): either outcome accepted, RFC 4648 §3.5",
        "SHA-1 messages longer than 130 bytes (thorough: 1100) for the padding piece; the per-round/per-step pieces hold for arbitrary states", "percent-encoding beyond the listed lengths",
    ],
}


def enc_len(n):
    return ((n + 2) // 3) * 4


def harnesses():
    hs = []
    A = hs.append
    for L in range(0, 6):
        A(H("c18_b64_enc_%d" % L, "b64_enc::<_, %d>" % L, enc_len(L) + 2, "quick" if L in (0, 1, 2, 3) else "thorough",
            "Base64 encode of %d symbolic bytes (all 2^%d inputs) == RFC 4648" % (L, 8 * L), timeout=1800, mem_gb=16 if L > 3 else 8))
    for L, C in ((4, 3), (5, 3), (6, 3), (7, 6), (8, 6), (9, 6)):
        A(H("c18_b64_enc_tail_%d_%d" % (L, C), "b64_enc_tail::<_, %d, %d>" % (L, C), enc_len(L) + 2, "quick" if L in (4, 5, 6) else "thorough",
            "Base64 encode of %d bytes: first %d concrete, last %d symbolic == RFC 4648 (later group + padding)" % (L, C, L - C), timeout=1200, mem_gb=8))
    for N in range(0, 10):
        A(H("c18_b64_dec_%d" % N, "b64_dec::<_, %d>" % N, N + 2, "quick" if N <= 5 else "thorough",
            "Base64 decode of %d symbolic ASCII bytes: Ok(bytes) iff RFC 4648 text, never panics" % N, timeout=1200))
    for N, POS in ((4, 0), (4, 1), (4, 2), (8, 3), (8, 6), (2, 0)):
        A(H("c18_b64_dec_mb_%d_%d" % (N, POS), "b64_dec_mb::<_, %d, %d>" % (N, POS), N + 2, "quick" if (N, POS) in ((4, 0), (4, 2), (8, 3)) else "thorough",
            "Base64 decode of %d bytes with a symbolic 2-byte UTF-8 character at offset %d: rejected, no panic" % (N, POS), timeout=1200))
    for N in (4, 8):
        A(H("c18_b64_dec_alpha_%d" % N, "b64_dec_alpha::<_, %d>" % N, N + 2, "quick" if N == 4 else "thorough",
            "Base64 decode of %d symbols from the alphabet/'=' (every group incl. all padding placements)" % N, timeout=1200))
    for L in range(0, 7):
        A(H("c18_b64_rt_%d" % L, "b64_rt::<_, %d, %d>" % (L, enc_len(L)), enc_len(L) + 2, "quick" if L in (1, 2) else "thorough",
            "decode(encode(b)) == b for %d symbolic bytes" % L, timeout=1800, mem_gb=20 if L >= 3 else 8))
    for h in hs:
        h.module = MODULE
    return hs


def run(tier, run_k):
    """Base64 by engine K, dates by engine M; one evidence file."""
    import json, os, time
    from ..common import log, write_evidence, REPLAY_DIR, git_head, REPO, repo_dirty, WORK, load_known
    from .. import mengine, kengine
    from . import c18_date
    k = run_k()
    t0 = k["t0"]
    rc = k["rc"]
    cov = k["cov"]
    assumptions = k["assumptions"]
    nviol = k["violations"]
    # ---- dates (engine M) in the same work dir
    from mirsym.dump import dump_mir
    work = os.path.join(WORK, ID)
    try:
        mir, dt = dump_mir("humphrey", work)
        d = c18_date.run_part(tier, work, mir)
    except Exception as e:
        log("UNDISCHARGED: dates — %s" % str(e)[:500])
        d = {"results": [], "violations": [], "machinery": [], "undischarged": [{"segment": "all", "why": str(e)[:300]}], "validation": {}}
    for r in d["violations"]:
        path = os.path.join(REPLAY_DIR, "C18-date.json")
        os.makedirs(REPLAY_DIR, exist_ok=True)
        with open(path, "w") as f:
            json.dump({"property": ID, "engine": "M", "kind": "date", "ts": r["replay"]["ts"], "native_dev": r["replay"]["native_dev"], "native_release": r["replay"]["native_release"],
                       "expected": r["replay"]["expected"], "failed": r["cex"]["check"], "how": "./check C18 --replay " + path}, f, indent=1)
        log("VIOLATION property=%s replay=%s" % (ID, path))
        log("   DateTime::from(%d) = [%s] natively, the Gregorian calendar says [%s] (segment %s: %s)" % (r["replay"]["ts"], r["replay"]["native_dev"], r["replay"]["expected"], r["segment"], r["cex"]["check"]))
        rc = 1
        nviol += 1
        break
    for m in d["machinery"]:
        log("MACHINERY-ERROR: dates — " + m)
        rc = rc or 2
    for r in d["undischarged"]:
        log("UNDISCHARGED: date segment %s — %s" % (r.get("segment"), r.get("why", r.get("verdict"))))
    okd = [r for r in d["results"] if r["verdict"] == "unsat"]
    log("   dates: %d/4 cut-point segments discharged (%s), %d z3 checks, translator validation on %s inputs" % (
        len(okd), ", ".join("%s %.1fs" % (r["segment"], r["wall_s"]) for r in d["results"]), sum(r.get("n_checks", 0) for r in d["results"]), d["validation"].get("inputs")))
    cov["evaluations"] += len(d["results"])
    cov["distinct_nontrivial"] += len(okd)
    cov["obligations"] = cov.get("obligations", 0) + len(d["results"])
    cov["discharged"] = cov.get("discharged", 0) + len(okd)
    cov["states"] = cov.get("states", 0) + sum(r.get("blocks", 0) for r in d["results"])
    cov["transitions"] = cov.get("transitions", 0) + sum(r.get("feasibility_queries", 0) + r.get("n_checks", 0) for r in d["results"])
    cov["traces_validated_against_impl"] = cov.get("traces_validated_against_impl", 0) + (d["validation"].get("inputs") or 0)
    cov["dates"] = {
        "function_encoded": "humphrey/src/http/date.rs: <DateTime as From<i64>>::from (MIR of the current working tree)",
        "range": "every timestamp 0..=253402300799 (1970-01-01 .. 9999-12-31T23:59:59Z)",
        "segments": [{k: r.get(k) for k in ("segment", "verdict", "paths", "n_checks", "symex_s", "solver_s", "cuts", "why")} for r in d["results"]],
        "cut_points": "cut1 = join after the first two writes to `days`; cut2 = join after the first two writes to `remaining_days`; cut3 = head of the month loop — located by post-dominator analysis of the current MIR",
        "invariants": "I1: days*86400+rs = ts-951868800, 0<=rs<86400; I2: days = y400*146097+rd, 0<=rd<146097, weekday = (ts div 86400 + 4) mod 7; I3: rd = 365e + e/4 - e/100 + rd2 with e = year-2000-400*y400 in 0..399, 0 <= rd2 <= 364+leap(e+1); final: days_from_civil(Y,M,D)*86400+h*3600+m*60+s = ts, valid ranges, no arithmetic panic, no truncating cast",
        "translator_validation": d["validation"],
        "violations": [r["replay"] for r in d["violations"]],
        "outside": "DateTime::to_string (format!-based IMF-fixdate layout, DAYS/MONTHS name tables), timestamps outside 1970..9999",
    }
    # ---- SHA-1 (engine M, bit-vector mode, cut points at the loop heads)
    from . import c18_sha
    try:
        mir_ws, dt2 = dump_mir("humphrey-ws", work, features="verif")
        sh = c18_sha.run_part(tier, work, mir_ws)
    except Exception as e:
        log("UNDISCHARGED: SHA-1 — %s" % str(e)[:500])
        sh = {"results": [], "violations": [], "machinery": [], "undischarged": [{"job": ["all"], "why": str(e)[:300]}], "validation": {}}
    for v in sh["violations"][:1]:
        path = os.path.join(REPLAY_DIR, "C18-sha1.json")
        os.makedirs(REPLAY_DIR, exist_ok=True)
        with open(path, "w") as f:
            json.dump({"property": ID, "engine": "M", "kind": "sha1", "message_hex": v["message_hex"], "native": v["native"], "expected": v["expected"],
                       "failed_pieces": v["failed_pieces"], "how": "./check C18 --replay " + path}, f, indent=1)
        log("VIOLATION property=%s replay=%s" % (ID, path))
        log("   SHA-1 of message %s... is %s natively, RFC 3174 gives %s (failed pieces: %s)" % (v["message_hex"][:40], v["native"], v["expected"], str(v["failed_pieces"])[:300]))
        rc = 1
        nviol += 1
    for m in sh["machinery"]:
        log("MACHINERY-ERROR: SHA-1 — " + m)
        rc = rc or 2
    for r in sh["undischarged"][:5]:
        log("UNDISCHARGED: SHA-1 piece %s — %s" % (r.get("job"), r.get("why", r.get("verdict"))))
    oks = [r for r in sh["results"] if r["verdict"] == "unsat"]
    kinds = {}
    for r in sh["results"]:
        kinds.setdefault(r["job"][0], [0, 0])
        kinds[r["job"][0]][0] += 1
        kinds[r["job"][0]][1] += (r["verdict"] == "unsat")
    log("   SHA-1: %d/%d cut-point pieces discharged (%s), translator validation on %s messages" % (
        len(oks), len(sh["results"]), ", ".join("%s %d/%d" % (k, v[1], v[0]) for k, v in sorted(kinds.items())), sh["validation"].get("inputs")))
    cov["evaluations"] += len(sh["results"])
    cov["distinct_nontrivial"] += len(oks)
    cov["obligations"] += len(sh["results"])
    cov["discharged"] += len(oks)
    cov["states"] = cov.get("states", 0) + sum(r.get("blocks", 0) for r in sh["results"])
    cov["transitions"] = cov.get("transitions", 0) + sum(r.get("solver_queries", 0) + 1 for r in sh["results"])
    cov["traces_validated_against_impl"] = cov.get("traces_validated_against_impl", 0) + (sh["validation"].get("inputs") or 0)
    cov["sha1"] = {
        "function_encoded": "humphrey-ws/src/util/sha1.rs: <T as SHA1Hash>::hash and its flat_map closure (MIR of the current working tree, bit-vector mode)",
        "pieces": {k: "%d/%d" % (v[1], v[0]) for k, v in sorted(kinds.items())},
        "decomposition": "P[L] padding+IV for every message length L in the bound (symbolic contents); LD block loading; E[t] one schedule step from arbitrary W (t=16..79); EX; R[t] one round from an arbitrary state (t=0..79); RX hash update; F big-endian output. Cut points = the five loop heads of the current MIR. By induction: RFC 3174 method 1.",
        "message_lengths": "0..%d bytes" % (1100 if tier == "thorough" else 130),
        "std_models_trusted": sorted(set(m for r in sh["results"] for m in r.get("models", []))),
        "translator_validation": sh["validation"],
        "violations": sh["violations"],
        "undischarged": [{"job": r.get("job"), "why": r.get("why")} for r in sh["undischarged"]],
    }
    # ---- percent-encoding (engine M; `format!` through the fmt::Arguments template model)
    from . import c18_pct
    try:
        pc = c18_pct.run_part(tier, work, mir)
    except Exception as e:
        log("UNDISCHARGED: percent-encoding — %s" % str(e)[:500])
        pc = {"results": [], "violations": [], "known_hits": [], "machinery": [], "undischarged": [{"job": "all", "why": str(e)[:300]}], "validation": {}}
    for v in pc["known_hits"]:
        log("KNOWN-FINDING: property=%s key=%s %s [%s(%r): natively %s, RFC 3986 %s]" % (ID, v["key"], load_known()[(ID, v["key"])], v["kind"], v["input"], v["native_dev"], v["expected"]))
    for v in pc["violations"][:1]:
        path = os.path.join(REPLAY_DIR, "C18-percent.json")
        os.makedirs(REPLAY_DIR, exist_ok=True)
        with open(path, "w") as f:
            json.dump(dict(v, property=ID, engine="M", how="./check C18 --replay " + path), f, indent=1)
        log("VIOLATION property=%s replay=%s" % (ID, path))
        log("   %s(%r) = %s natively (release %s), RFC 3986 gives %s (%s)" % (v["kind"], v["input"], v["native_dev"], v["native_release"], v["expected"], v["failed"]))
        rc = 1
        nviol += 1
    for m in pc["machinery"]:
        log("MACHINERY-ERROR: " + m)
        rc = rc or 2
    for r in pc["undischarged"][:5]:
        log("UNDISCHARGED: percent-encoding %s — %s" % (r.get("job"), r.get("why")))
    okp = [r for r in pc["results"] if r["verdict"] == "unsat"]
    log("   percent-encoding: %d/%d obligations discharged (decode: every string of the listed character classes; encode: every byte string), translator validation on %s inputs" % (
        len(okp), len(pc["results"]), pc["validation"].get("inputs")))
    cov["evaluations"] += len(pc["results"])
    cov["distinct_nontrivial"] += len([r for r in pc["results"] if r["verdict"] in ("unsat", "sat") and r["n"] >= 1])
    cov["obligations"] += len(pc["results"])
    cov["discharged"] += len(okp) + len([r for r in pc["results"] if r["verdict"] == "sat" and not pc["violations"] and not pc["machinery"]])
    cov["states"] = cov.get("states", 0) + sum(r.get("blocks", 0) for r in pc["results"])
    cov["transitions"] = cov.get("transitions", 0) + sum(r.get("feasibility_queries", 0) + r.get("n_checks", 0) for r in pc["results"])
    cov["traces_validated_against_impl"] = cov.get("traces_validated_against_impl", 0) + (pc["validation"].get("inputs") or 0)
    decs = [r for r in pc["results"] if r["kind"] == "dec"]
    encs = [r for r in pc["results"] if r["kind"] == "enc"]
    cov["percent"] = {
        "functions_encoded": ["humphrey/src/percent.rs: <T as PercentDecode>::percent_decode (T: AsRef<str>; generic MIR)", "humphrey/src/percent.rs: <T as PercentEncode>::percent_encode (T: AsRef<[u8]>; generic MIR)"],
        "bounds": {"decode": "strings of 0..%d characters: every UTF-8 length-class vector up to 2 (3) characters, ASCII-only and one-2-byte-character vectors beyond; %d obligations" % (max([r["n"] for r in decs] + [0]), len(decs)),
                   "encode": "byte strings of 0..%d arbitrary bytes" % max([r["n"] for r in encs] + [0])},
        "specification": "RFC 3986 2.1/2.3 as parse shapes over the same symbolic bytes (vlib/props/c18_pct.py); Python reference judges native replays",
        "std_models_trusted": sorted(set(m for r in pc["results"] for m in r.get("models", []))),
        "translator_validation": pc["validation"],
        "violations": pc["violations"], "known_findings_seen": pc["known_hits"],
        "undischarged": pc["undischarged"],
        "outside": "longer inputs; decode(encode(b)) == b only through the two equalities with the reference",
    }
    cov["functions_encoded"] = list(cov.get("functions_encoded", [])) + cov["percent"]["functions_encoded"]
    cov["solver_time_s"] = round(cov.get("solver_time_s", 0) + sum(r.get("solver_s", 0) for r in pc["results"]), 2)
    cov["functions_encoded"] = list(cov.get("functions_encoded", [])) + [cov["sha1"]["function_encoded"]]
    cov["solver_time_s"] = round(cov.get("solver_time_s", 0) + sum(r.get("solver_s", 0) for r in d["results"]), 2)
    cov["functions_encoded"] = list(cov.get("functions_encoded", [])) + [cov["dates"]["function_encoded"]]
    cov["engines"]["mirsym"] = "own MIR symbolic executor (/verif/mirsym) + z3 5.1.0"
    assumptions = assumptions + ["dates: Hinnant's days_from_civil is the calendar specification; z3's integer arithmetic is sound; MIR text printed by rustc nightly reflects the compiled function"]
    write_evidence(ID, tier, cov, assumptions, time.time() - t0, nviol)
    log("== %s: %d/%d obligations discharged (Base64 K + dates M + SHA-1 M), %d violation(s); %.0fs wall" % (ID, cov["discharged"], cov["obligations"], nviol, time.time() - t0))
    return rc


def replay(d, path):
    from ..common import log
    from .. import mengine, kengine
    from . import c18_date
    mengine.setup(ID)
    kengine.write_lists({})
    exe = mengine.build_mtool("debug")
    if d.get("kind") in ("pctdec", "pctenc"):
        from . import c18_pct
        if c18_pct.replay(d):
            log("VIOLATION property=%s replay=%s" % (ID, path))
            return 1
        return 0
    if d.get("kind") == "sha1":
        import hashlib
        got = mengine.native_eval(exe, ["sha1 %s" % (d["message_hex"] or "-")])[0]
        want = hashlib.sha1(bytes.fromhex(d["message_hex"])).hexdigest()
        log("sha1(%s) = %s, RFC 3174: %s" % (d["message_hex"][:60], got, want))
        if got != want:
            log("VIOLATION property=%s replay=%s" % (ID, path))
            return 1
        return 0
    got = mengine.native_eval(exe, ["date %d" % d["ts"]])[0]
    want = c18_date.py_ref(d["ts"])
    log("DateTime::from(%d) = [%s], calendar [%s]" % (d["ts"], got, want))
    if got != want:
        log("VIOLATION property=%s replay=%s" % (ID, path))
        return 1
    return 0
