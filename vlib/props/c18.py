"""C18 — home-grown SHA-1, Base64, percent-encoding and HTTP dates (Base64: engine K)."""
from ..kengine import H

ID = "C18"
MODULE = "c18"
ENGINE = "K"

META = {
    "functions_encoded": [
        "humphrey-ws/src/util/base64.rs: <T as Base64Encode>::encode (T = [u8; L])",
        "humphrey-ws/src/util/base64.rs: <T as Base64Decode>::decode (T = &str / String)",
    ],
    "reference_model": "kani/src/refs/b64.rs (RFC 4648 §4 table and padding rules; strict classifier)",
    "stubs": [],
    "assumes": ["decode inputs are ASCII (< 0x80) so that they are valid &str; non-ASCII text is outside the bound"],
    "outside_bounds": [
        "Base64 inputs longer than the listed shapes (encode > 7 bytes, decode > 8 symbols)",
        "non-canonical final groups (non-zero discarded bits): either outcome accepted, RFC 4648 §3.5",
        "percent-encoding: not encodable (format!-based), see DESIGN §5 C18",
    ],
}


def enc_len(n):
    return ((n + 2) // 3) * 4


def harnesses():
    hs = []
    A = hs.append
    for L in range(0, 6):
        A(H("c18_b64_enc_%d" % L, "b64_enc::<_, %d>" % L, enc_len(L) + 2, "quick" if L in (0, 1, 2, 3) else "thorough",
            "Base64 encode of %d symbolic bytes (all 2^%d inputs) == RFC 4648" % (L, 8 * L), timeout=1800, mem_gb=16 if L > 3 else 8))
    for L, C in ((4, 3), (5, 3), (6, 3), (7, 6), (8, 6), (9, 6)):
        A(H("c18_b64_enc_tail_%d_%d" % (L, C), "b64_enc_tail::<_, %d, %d>" % (L, C), enc_len(L) + 2, "quick" if L in (4, 5, 6) else "thorough",
            "Base64 encode of %d bytes: first %d concrete, last %d symbolic == RFC 4648 (later group + padding)" % (L, C, L - C), timeout=1200, mem_gb=8))
    for N in range(0, 10):
        A(H("c18_b64_dec_%d" % N, "b64_dec::<_, %d>" % N, N + 2, "quick" if N <= 5 else "thorough",
            "Base64 decode of %d symbolic ASCII bytes: Ok(bytes) iff RFC 4648 text, never panics" % N, timeout=1200))
    for N in (4, 8):
        A(H("c18_b64_dec_alpha_%d" % N, "b64_dec_alpha::<_, %d>" % N, N + 2, "quick" if N == 4 else "thorough",
            "Base64 decode of %d symbols from the alphabet/'=' (every group incl. all padding placements)" % N, timeout=1200))
    for L in range(0, 7):
        A(H("c18_b64_rt_%d" % L, "b64_rt::<_, %d, %d>" % (L, enc_len(L)), enc_len(L) + 2, "quick" if L in (1, 2) else "thorough",
            "decode(encode(b)) == b for %d symbolic bytes" % L, timeout=1800, mem_gb=20 if L >= 3 else 8))
    for h in hs:
        h.module = MODULE
    return hs
