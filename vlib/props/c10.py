"""C10 — WebSocket frames encode to the RFC 6455 §5.2 layout and decode back under any split."""
from ..kengine import H

ID = "C10"
MODULE = "c10"
ENGINE = "KM"
TECHNIQUE = "Kani/CBMC bounded model checking of the compiled encoder/decoder (headers for every u64 length, short payloads, read plans); long payloads (126..70 KiB, the 64 KiB chunk loop, truncation) by symbolic execution of the MIR of Frame::from_stream and From<Frame> for Vec<u8> -> z3 bit-vectors; counterexamples replayed natively against an RFC 6455 5.2 reference"

META = {
    "functions_encoded": [
        "humphrey-ws/src/frame.rs: <Vec<u8> as From<Frame>>::from",
        "humphrey-ws/src/frame.rs: Frame::from_stream / Frame::from_stream_inner (instantiated for vk::rd::Rd and &[u8])",
        "humphrey-ws/src/frame.rs: <Opcode as TryFrom<u8>>::try_from",
        "std: Read::read_exact (default impl), Vec<u8> alloc/extend (compiled std, not stubbed)",
    ],
    "reference_model": "kani/src/refs/ws.rs (RFC 6455 §5.2 layout, written from the figure)",
    "stubs": [],
    "assumes": ["opcode index < 6 when constructing a frame (the 6 defined opcodes)"],
    "outside_bounds": [
        "engine K: payloads of 126..2^64 bytes only through their HEADERS (enc_header over all u64 lengths with an empty payload vector; dec_std/dec_ext over all claimed lengths with truncated input); engine M (`long_payloads`) decides complete frames of 125..300 and 65537 bytes (thorough: 65534..65537, 70 KiB, 128 KiB+1) with symbolic first byte/key/payload, and their truncations; lengths in between and above 128 KiB+1 are not covered",
        "read segmentations are concrete per harness (whole, byte-wise, single split point K): enumerated, not solver-quantified",
        "dec_c/dec_ext fix header byte 1 (and the extended length) to constants per harness; every other byte is symbolic",
        "real sockets, TLS streams (only the Read trait contract is exercised)",
    ],
}


def harnesses():
    hs = []
    A = hs.append
    A(H("c10_enc_header", "enc_header", 16, "quick", "encode: fin/rsv/opcode/mask/key symbolic, EVERY u64 length, header bytes == RFC layout, shortest form"))
    A(H("c10_opcode_table", "opcode_table", 2, "quick", "Opcode::try_from over all 256 byte values"))
    for L in (0, 1, 5):
        A(H("c10_enc_payload_%d" % L, "enc_payload::<_, %d>" % L, L + 10, "quick", "encode: %d symbolic payload bytes placed after the header (masked when MASK)" % L))
    for L in (2, 9):
        A(H("c10_enc_payload_%d" % L, "enc_payload::<_, %d>" % L, L + 10, "thorough", "encode: %d symbolic payload bytes" % L))
    # decode, concrete second header byte
    PL = {0: "whole", 1: "bytewise"}
    def decc(N, M, C, plan, K, tier):
        nm = "c10_dec_c_n%d_m%d_l%d_%s" % (N, M, C, PL.get(plan, "split%d" % K))
        A(H(nm, "dec_c::<_, %d, %d, %d, %d, %d>" % (N, M, C, plan, K), N + 4, tier,
            "decode: %d bytes, MASK=%d len7=%d concrete, all other bytes symbolic, plan %s" % (N, M, C, PL.get(plan, "split@%d" % K))))
    for M in (0, 1):
        for C in range(0, 13):
            full = 2 + 4 * M + C
            for N, what in ((full + 1, "complete+1"), (full - 1, "short")):
                if N < 2:
                    continue
                for plan in (0, 1):
                    tier = "quick" if C in (0, 1, 3) or (C == 5 and plan == 0) else "thorough"
                    decc(N, M, C, plan, 0, tier)
            # every single split point of the complete frame
            for K in range(1, full):
                tier = "rot" if C <= 4 else "thorough"
                if C > 6:
                    continue
                decc(full, M, C, 2, K, tier)
    # truncated headers
    A(H("c10_dec_n0", "dec::<_, 0, 0, 0>", 4, "quick", "decode: empty input -> ReadError"))
    A(H("c10_dec_n1", "dec::<_, 1, 1, 0>", 4, "quick", "decode: 1 byte -> ReadError"))
    # extended forms with concrete value
    def dece(N, M, EXT, V, plan, K, tier):
        nm = "c10_dec_e%d_n%d_m%d_v%d_%s" % (EXT * 8, N, M, V, PL.get(plan, "split%d" % K))
        A(H(nm, "dec_ext::<_, %d, %d, %d, %d, %d, %d>" % (N, M, EXT, V, plan, K), N + 4, tier,
            "decode: %d-bit extended length = %d (concrete), MASK=%d, %d bytes, plan %s" % (EXT * 8, V, M, N, PL.get(plan, "split@%d" % K))))
    for EXT in (2, 8):
        for M in (0, 1):
            hdr = 2 + EXT + 4 * M
            for V in (0, 2):
                dece(hdr + V + 1, M, EXT, V, 0, 0, "quick" if V == 2 else "thorough")
                dece(hdr + V, M, EXT, V, 1, 0, "thorough")
                for K in range(1, hdr + V):
                    dece(hdr + V, M, EXT, V, 2, K, "rot" if V == 0 else "thorough")
            # truncated: header cut inside the extended length / key; payload short
            dece(hdr - 1, M, EXT, 3, 0, 0, "thorough")
            dece(hdr + 2, M, EXT, 3, 1, 0, "quick" if (EXT == 2 and M == 1) else "thorough")
    # fully symbolic bytes, all claimed lengths, std slice reader
    for N in range(2, 17):
        tier = "quick" if N in (2, 6, 10, 14) else "thorough"
        A(H("c10_dec_std_n%d" % N, "dec_std::<_, %d>" % N, N + 4, tier,
            "decode: %d FULLY symbolic bytes (all 2^%d inputs, every claimed length incl. 2^64-1) via impl Read for &[u8]" % (N, 8 * N), timeout=1500, mem_gb=10,
            unwindset=[("humphrey-ws/src/frame.rs", "from_stream_inner", 2)]))
    # round trips
    def rt(L, M, plan, K, tier):
        T = 2 + 4 * M + L
        nm = "c10_rt_l%d_m%d_%s" % (L, M, PL.get(plan, "split%d" % K))
        A(H(nm, "roundtrip::<_, %d, %d, %d, %d, %d>" % (L, M, T, plan, K), T + 4, tier,
            "decode(encode(f)) == f: payload %d symbolic bytes, MASK=%d, symbolic fin/rsv/opcode/key, plan %s" % (L, M, PL.get(plan, "split@%d" % K))))
    for M in (0, 1):
        for L in (0, 1, 2, 5, 9):
            rt(L, M, 0, 0, "quick" if L in (0, 2) else "thorough")
            rt(L, M, 1, 0, "quick" if L == 1 else "thorough")
        for K in range(1, 2 + 4 * M + 3):
            rt(3, M, 2, K, "rot")
    for h in hs:
        h.module = MODULE
    return hs


def run(tier, run_k):
    import json, os, time
    from ..common import WORK, REPLAY_DIR, log, write_evidence
    from . import c10_big
    k = run_k()
    t0, rc, cov, assumptions, nviol = k["t0"], k["rc"], k["cov"], k["assumptions"], k["violations"]
    from mirsym.dump import dump_mir
    work = os.path.join(WORK, ID)
    try:
        mir, dt = dump_mir("humphrey-ws", work, features="verif")
        d = c10_big.run_part(tier, work, mir)
    except Exception as e:
        log("UNDISCHARGED: long payloads — %s" % str(e)[:500])
        d = {"results": [], "violations": [], "machinery": [], "undischarged": [{"job": "all", "why": str(e)[:300]}], "validation": {}}
    for r in d["violations"][:1]:
        path = os.path.join(REPLAY_DIR, "C10-frame.json")
        os.makedirs(REPLAY_DIR, exist_ok=True)
        with open(path, "w") as f:
            json.dump({"property": ID, "engine": "M", "kind": "frame", "replay": r["replay"], "how": "./check C10 --replay " + path}, f, indent=1)
        log("VIOLATION property=%s replay=%s" % (ID, path))
        rp = r["replay"]
        log("   %s" % rp["request"][:160])
        log("   natively (dev / release): %s / %s" % (rp["native_dev"][:160], rp["native_release"][:160]))
        log("   RFC 6455 5.2: %s   [failed: %s]" % (rp["expected"][:160], rp["failed"][:160]))
        rc = 1
        nviol += 1
    for m in d["machinery"]:
        log("MACHINERY-ERROR: long payloads — " + m[:600])
        rc = rc or 2
    for r in d["undischarged"][:6]:
        log("UNDISCHARGED: long payloads %s — %s" % (r.get("job"), r.get("why")))
    ok = [r for r in d["results"] if r["verdict"] == "unsat"]
    log("   long payloads (engine M): %d/%d frame shapes discharged, %d paths, %d z3 checks, translator validation on %s frames" % (
        len(ok), len(d["results"]), sum(r.get("paths", 0) for r in d["results"]), sum(r.get("n_checks", 0) for r in d["results"]), d["validation"].get("inputs")))
    cov["evaluations"] += len(d["results"])
    cov["distinct_nontrivial"] += len(ok)
    cov["obligations"] = cov.get("obligations", 0) + len(d["results"])
    cov["discharged"] = cov.get("discharged", 0) + len(ok)
    cov["states"] = cov.get("states", 0) + sum(r.get("blocks", 0) for r in d["results"])
    cov["transitions"] = cov.get("transitions", 0) + sum(r.get("n_checks", 0) for r in d["results"])
    cov["traces_validated_against_impl"] = cov.get("traces_validated_against_impl", 0) + (d["validation"].get("inputs") or 0)
    cov["solver_time_s"] = round(cov.get("solver_time_s", 0) + sum(r.get("solver_s", 0) for r in d["results"]), 2)
    cov["long_payloads"] = {
        "functions_encoded": ["humphrey-ws/src/frame.rs: Frame::{from_stream, from_stream_inner} and the unmask closure, <Opcode as TryFrom<u8>>::try_from, From<Frame> for Vec<u8> and its mask closure (MIR of the current tree, bit-vector mode)"],
        "shapes": [{k2: r.get(k2) for k2 in ("job", "verdict", "paths", "n_checks", "wall_s", "why")} for r in d["results"]],
        "shape_legend": "dec: (payload length, mask bit, length form 7/16/64, bytes cut from the end); enc: (payload length, mask bit, opcode); first header byte (decode) / FIN, RSV bits (encode), key and every payload byte symbolic",
        "obligation": "decode: FIN, RSV1-3, opcode, mask flag, length, key and unmasked payload exactly as sent, the whole frame consumed, reserved opcodes rejected, any truncation a read error; encode: RFC 6455 5.2 layout with the shortest length form and the payload masked with the key",
        "stream_model": "NetStream value (read_exact delivers the next n bytes or fails at the end); read segmentation is covered by engine K on short frames",
        "translator_validation": d["validation"],
        "undischarged": d["undischarged"][:10],
        "violations": [r["replay"] for r in d["violations"]][:3],
    }
    cov["functions_encoded"] = list(cov.get("functions_encoded", [])) + cov["long_payloads"]["functions_encoded"]
    cov.setdefault("engines", {})["mirsym"] = "own MIR symbolic executor (/verif/mirsym) + z3 5.1.0"
    assumptions = assumptions + ["long payloads: the NetStream model and the std models of mirsym/models_ws.py; MIR text = compiled function (validated per run on random concrete frames incl. one beyond 64 KiB against the native build)"]
    write_evidence(ID, tier, cov, assumptions, time.time() - t0, nviol)
    log("== %s: %d/%d obligations discharged (K harnesses + M long payloads), %d violation(s); %.0fs wall" % (ID, cov["discharged"], cov["obligations"], nviol, time.time() - t0))
    return rc


def replay(d, path):
    from .. import mengine, kengine
    from . import c10_big
    mengine.setup(ID)
    kengine.write_lists({})
    return c10_big.replay(d, path)
