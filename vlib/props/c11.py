"""C11 — WebSocket endpoint over a scripted connection."""
from ..kengine import H

ID = "C11"
MODULE = "c11"
ENGINE = "KM"
TECHNIQUE = "control frames / send / non-blocking header logic: Kani/CBMC bounded model checking of the compiled code over a scripted connection; message assembly: symbolic execution of the MIR of recv / recv_nonblocking / Drop on a symbolic client script -> z3 (bit-vectors), control sequences enumerated by the solver, compared with an RFC 6455 receiver; counterexamples replayed natively on a loopback socket"

NET_STUBS = [
    "kani::stub(<std::net::TcpStream as std::io::Read>::read, crate::net::stub_read)",
    "kani::stub(<std::net::TcpStream as std::io::Write>::write, crate::net::stub_write)",
    "kani::stub(std::net::TcpStream::set_nonblocking, crate::net::stub_set_nonblocking)",
    "kani::stub(std::time::Instant::now, crate::net::stub_instant_now)",
    "kani::stub(<std::os::fd::OwnedFd as std::ops::Drop>::drop, crate::net::stub_fd_drop)",
]

META = {
    "functions_encoded": [
        "humphrey-ws/src/stream.rs: WebsocketStream::{new, recv, recv_nonblocking, send, ping, send_raw, Drop::drop}",
        "humphrey-ws/src/message.rs: Message::{from_stream, from_stream_nonblocking, new, new_binary, to_frame, bytes, is_text}",
        "humphrey-ws/src/frame.rs: Frame::{from_stream, from_stream_nonblocking, from_stream_inner, new}, From<Frame> for Vec<u8>",
        "humphrey/src/stream.rs: <Stream as Read/Write>, set_nonblocking/set_blocking",
        "std: Read::read_exact, Write::write_all (default impls, compiled std)",
    ],
    "reference_model": "kani/src/refs/ws.rs (RFC 6455 §5.2) builds the client script and recognises the server's frames",
    "stubs": ["<TcpStream as Read>::read -> scripted bytes under a concrete read plan (whole / byte-wise / one split); Ok(0) or WouldBlock at the end",
              "<TcpStream as Write>::write -> capture buffer", "TcpStream::set_nonblocking -> Ok(())", "Instant::now -> fixed instant", "<OwnedFd as Drop>::drop -> counter (no close(2))"],
    "assumes": ["a TcpStream value fabricated from fd 3 (never used for a syscall)"],
    "outside_bounds": [
        "the opening handshake (Response serialisation uses format!; SHA-1/Base64 kernels are C18)",
        "engine K (these harnesses): message assembly is not reachable — Kani/CBMC runs out of memory on Message::from_stream's Vec<Frame> path (measured); control-frame handling, sending and the non-blocking header logic only; payloads <= 2 bytes per frame, scripts of <= 2 frames",
        "engine M (message assembly, see `message_assembly`): script shapes beyond the listed ones — more than 4 frames (5 in the thorough tier), payload lengths other than the listed ones (0..300 and 65535/65536/65537/70 KiB), several recv calls on one stream (each call is decided from an arbitrary script, the only state carried over is the read position)",
        "read segmentations other than whole / byte-wise / one split point; real sockets, abrupt disconnects mid-frame beyond EOF",
        "the async app (C12)",
    ],
}


def harnesses():
    hs = []
    PL = {0: "whole", 1: "bytewise"}
    def add(name, body, unwind, tier, desc, frames=1, plan=0, **kw):
        # per-loop bounds (unwinding assertions stay on, so a too-small bound is reported, not trusted):
        #   message loop: one iteration per scripted frame (+1 for the exit test); read_exact: 2 calls suffice when data arrives whole,
        #   5 byte-wise (4-byte key); the decoder's chunk loop: 1
        rx = 3 if plan == 0 else 6
        hs.append(H(name, body, unwind, tier, desc, attrs=list(NET_STUBS), timeout=kw.get("timeout", 2400), mem_gb=kw.get("mem_gb", 16),
                    unwindset=[("humphrey-ws/src/frame.rs", "from_stream_inner", 2),
                               ("humphrey-ws/src/message.rs", "Message::from_stream", frames + 1),
                               ("io/read.rs", "read_exact", rx), ("io/mod.rs", "read_exact", rx)]))
    # message-assembly templates (recv_data / recv_ping_data / recv_fragments / recv_nonblocking with data) are defined in
    # kani/src/c11.rs but NOT scheduled: CBMC runs out of memory (>16-20 GB, 15-25 min) on the Vec<Frame> / fold / extend path even
    # for one 1-byte frame with per-loop bounds (measured 2026-09-29; DESIGN §5 C11). They are listed as outside the claim.
    def add_data(name, body, tier, desc, frames, plan):
        # message-assembly templates: global unwind 2 (keeps the drop glue of Vec<Frame>/Message small), real bounds per loop
        rx = 3 if plan == 0 else 6
        hs.append(H(name, body, 2, tier, desc, attrs=list(NET_STUBS), timeout=1800, mem_gb=16,
                    unwindset=[("src/lib.rs", "bytes", 6), ("src/c11.rs", "", 9), ("humphrey-ws/src/frame.rs", "from_stream_inner", 2),
                               ("humphrey-ws/src/message.rs", "Message::from_stream", frames + 1), ("io/read.rs", "read_exact", rx), ("io/mod.rs", "read_exact", rx),
                               ("io/write.rs", "write_all", 3), ("slice/iter/macros.rs", "", 5), ("iter/adapters", "", 5), ("@raw", "memcmp.0", 8)]))
    # (not scheduled: even with global unwind 2 + per-loop bounds c11_recv_data_l1_whole needs > 16 GB: 747k SSA steps, measured)
    for LC, plan in ((0, 0), (2, 0), (2, 1), (1, 1)):
        add("c11_close_%d_%s" % (LC, PL[plan]), "recv_close::<_, %d, %d, 0>" % (LC, plan), 8, "quick" if (LC, plan) in ((2, 0), (0, 0), (2, 1)) else "thorough",
            "Close(%d bytes), %s: ConnectionClosed, one Close frame back, nothing on drop" % (LC, PL[plan]), frames=1, plan=plan)
    for K in (1, 2, 4):
        add("c11_close_2_split%d" % K, "recv_close::<_, 2, 2, %d>" % K, 8, "rot", "Close(2 bytes) split at byte %d" % K, frames=1, plan=2)
    for LP, plan in ((0, 0), (1, 0), (2, 1)):
        add("c11_ping_close_p%d_%s" % (LP, PL[plan]), "recv_ping_close::<_, %d, %d, 0>" % (LP, plan), 8, "quick" if (LP, plan) in ((1, 0), (2, 1)) else "thorough",
            "Ping(%d bytes) then Close, %s: one Pong with the same payload, one Close, ConnectionClosed" % (LP, PL[plan]), frames=2, plan=plan)
    for LC, plan, K in ((0, 0, 0), (1, 0, 0), (1, 2, 1), (1, 1, 0)):
        nm = PL.get(plan, "split%d" % K)
        add("c11_nb_close_%d_%s" % (LC, nm), "nb_close::<_, %d, %d, %d>" % (LC, plan, K), 8, "quick" if (LC, plan) in ((1, 0), (1, 2)) else "thorough",
            "recv_nonblocking, Close(%d bytes), %s: first read returns %s header byte(s); must behave like blocking receive" % (LC, nm, "one" if plan != 0 else "two"), frames=1, plan=plan)
    add("c11_nb_close_gap_1", "nb_close_gap::<_, 1>", 8, "quick", "recv_nonblocking: one header byte arrived, the rest arrives LATER (WouldBlock in between): the frame is still received, not `nothing yet`", frames=1, plan=2)
    add("c11_nb_close_gap_0", "nb_close_gap::<_, 0>", 8, "thorough", "same with an empty Close", frames=1, plan=2)
    for L in (0, 1, 3):
        add("c11_send_%d" % L, "send_frames::<_, %d>" % L, 8, "quick" if L <= 1 else "thorough", "send(binary, %d symbolic bytes) + ping(): exactly two well-formed unmasked frames" % L)
    add("c11_nonblocking_idle", "recv_nonblocking_idle", 6, "quick", "recv_nonblocking with nothing to read: `nothing yet`, nothing written")
    for x in hs:
        x.module = MODULE
    return hs


def run(tier, run_k):
    """Engine K harnesses (control frames, sending, non-blocking header logic over the compiled code) + engine M (message assembly
    over the MIR of recv / recv_nonblocking / Drop with a symbolic client script)."""
    import json, os, time
    from ..common import WORK, REPLAY_DIR, log, write_evidence
    from . import c11_msg
    k = run_k()
    t0, rc, cov, assumptions, nviol = k["t0"], k["rc"], k["cov"], k["assumptions"], k["violations"]
    from mirsym.dump import dump_mir
    work = os.path.join(WORK, ID)
    try:
        mir, dt = dump_mir("humphrey-ws", work, features="verif")
        d = c11_msg.run_part(tier, work, mir)
    except Exception as e:
        log("UNDISCHARGED: message assembly — %s" % str(e)[:500])
        d = {"results": [], "violations": [], "machinery": [], "undischarged": [{"job": "all", "why": str(e)[:300]}], "validation": {}}
    for r in d["violations"][:1]:
        path = os.path.join(REPLAY_DIR, "C11-msg.json")
        os.makedirs(REPLAY_DIR, exist_ok=True)
        with open(path, "w") as f:
            json.dump({"property": ID, "engine": "M", "kind": "msg", "replay": r["replay"], "how": "./check C11 --replay " + path}, f, indent=1)
        log("VIOLATION property=%s replay=%s" % (ID, path))
        rp = r["replay"]
        log("   %s" % rp["request"][:300])
        log("   natively (dev / release): %s / %s" % (rp["native_dev"][:200], rp["native_release"][:200]))
        log("   an RFC 6455 receiver: %s ; written %s   [failed: %s]" % (" or ".join(rp["expected"]["results"])[:200], rp["expected"]["written"][:200], rp["failed"][:200]))
        rc = 1
        nviol += 1
    for m in d["machinery"]:
        log("MACHINERY-ERROR: message assembly — " + m[:600])
        rc = rc or 2
    for r in d["undischarged"][:6]:
        log("UNDISCHARGED: message assembly %s — %s" % (r.get("job"), r.get("why")))
    ok = [r for r in d["results"] if r["verdict"] == "unsat"]
    log("   message assembly (engine M): %d/%d script shapes discharged, %d paths, %d control sequences (%d in the claim), %d z3 checks, translator validation on %s scripts" % (
        len(ok), len(d["results"]), sum(r.get("paths", 0) for r in d["results"]), sum(r.get("ctrl_sequences", 0) for r in d["results"]),
        sum(r.get("ctrl_sequences", 0) - r.get("outside_sequences", 0) for r in d["results"]), sum(r.get("n_checks", 0) for r in d["results"]), d["validation"].get("inputs")))
    cov["evaluations"] += len(d["results"])
    cov["distinct_nontrivial"] += len(ok)
    cov["obligations"] = cov.get("obligations", 0) + len(d["results"])
    cov["discharged"] = cov.get("discharged", 0) + len(ok)
    cov["states"] = cov.get("states", 0) + sum(r.get("blocks", 0) for r in d["results"])
    cov["transitions"] = cov.get("transitions", 0) + sum(r.get("n_checks", 0) for r in d["results"])
    cov["traces_validated_against_impl"] = cov.get("traces_validated_against_impl", 0) + (d["validation"].get("inputs") or 0)
    cov["solver_time_s"] = round(cov.get("solver_time_s", 0) + sum(r.get("solver_s", 0) for r in d["results"]), 2)
    cov["message_assembly"] = {
        "functions_encoded": ["humphrey-ws/src/stream.rs: WebsocketStream::{recv, recv_nonblocking}, <WebsocketStream as Drop>::drop",
                              "humphrey-ws/src/message.rs: Message::{from_stream, from_stream_nonblocking} and their closures",
                              "humphrey-ws/src/frame.rs: Frame::{from_stream, from_stream_nonblocking, from_stream_inner, new}, <Opcode as TryFrom<u8>>::try_from, From<Frame> for Vec<u8>, derived PartialEq of Opcode",
                              "humphrey-ws/src/util/restion.rs: From<Result<T, E>> for Restion<T, E>   (all from the MIR of the current working tree, bit-vector mode)"],
        "bounds": "per obligation one script SHAPE is concrete (1..4 frames quick / 1..5 thorough; payload length 0..126 quick / ..300 thorough incl. the 125/126 boundary, plus one payload of 65537 bytes (thorough: also 65535, 65536, 70 KiB) through the decoder's 64 KiB chunk loop; 7/16/64-bit length forms incl. non-minimal; mask bit; bytes cut from the end 0..9 (abrupt disconnect); bytes delivered before a non-blocking call) and the CONTENT is symbolic: first header byte (FIN, RSV, opcode) of every frame, masking keys, every payload byte",
        "method": "symbolic execution forks on the opcode/FIN tests; per return path the solver enumerates the control sequences (opcode, FIN per frame) compatible with the path condition; for each RFC-valid sequence: result, payload bytes, text flag, bytes consumed, closed flag and all bytes written (incl. the drop-time Close) are proved equal to an RFC 6455 receiver for all keys/payload bytes; invalid sequences (unknown opcode, continuation first, new data opcode inside a message, fragmented control frame, RSV != 0) only get `no panic`",
        "shapes": len(d["results"]), "discharged": len(ok),
        "paths": sum(r.get("paths", 0) for r in d["results"]),
        "control_sequences": sum(r.get("ctrl_sequences", 0) for r in d["results"]),
        "control_sequences_in_claim": sum(r.get("ctrl_sequences", 0) - r.get("outside_sequences", 0) for r in d["results"]),
        "z3_checks": sum(r.get("n_checks", 0) for r in d["results"]),
        "symex_s": round(sum(r.get("symex_s", 0) for r in d["results"]), 1), "solver_s": round(sum(r.get("solver_s", 0) for r in d["results"]), 1),
        "stream_model": "NetStream value: read_exact/read/write_all/set_(non)blocking of humphrey::stream::Stream are modelled (not executed): read_exact delivers the next n script bytes or fails at the end; a non-blocking read returns min(2, delivered - position) bytes, WouldBlock when nothing is pending, Ok(0) after the peer's shutdown; once a blocking read has to wait the rest of the script counts as delivered",
        "std_models_trusted": "Vec<u8>/Vec<Frame> new/push/append/extend/from_elem/len/index, slice iter/iter_mut/enumerate/for_each/fold/first/last, Option::map/unwrap_or, Result::map_err/ok/is_err, u16/u64 from_be_bytes/to_be_bytes, u64::min, io::Error::kind, Instant::now (opaque)",
        "translator_validation": d["validation"],
        "samples": [{k2: r.get(k2) for k2 in ("job", "verdict", "paths", "ctrl_sequences", "outside_sequences", "n_checks", "wall_s")} for r in d["results"][:12]],
        "undischarged": d["undischarged"][:10],
        "violations": [r["replay"] for r in d["violations"]][:3],
    }
    cov["functions_encoded"] = list(cov.get("functions_encoded", [])) + cov["message_assembly"]["functions_encoded"]
    cov.setdefault("engines", {})["mirsym"] = "own MIR symbolic executor (/verif/mirsym) + z3 5.1.0"
    assumptions = assumptions + ["message assembly: the NetStream model of the connection and the listed std models; the MIR text printed by rustc nightly reflects the compiled functions (checked per run on random concrete scripts against the native build on a loopback socket)"]
    write_evidence(ID, tier, cov, assumptions, time.time() - t0, nviol)
    log("== %s: %d/%d obligations discharged (K harnesses + M message assembly), %d violation(s); %.0fs wall" % (ID, cov["discharged"], cov["obligations"], nviol, time.time() - t0))
    return rc


def replay(d, path):
    from .. import mengine, kengine
    from . import c11_msg
    mengine.setup(ID)
    kengine.write_lists({})
    return c11_msg.replay(d, path)
