"""C11 — WebSocket endpoint over a scripted connection."""
from ..kengine import H

ID = "C11"
MODULE = "c11"
ENGINE = "K"

NET_STUBS = [
    "kani::stub(<std::net::TcpStream as std::io::Read>::read, crate::net::stub_read)",
    "kani::stub(<std::net::TcpStream as std::io::Write>::write, crate::net::stub_write)",
    "kani::stub(std::net::TcpStream::set_nonblocking, crate::net::stub_set_nonblocking)",
    "kani::stub(std::time::Instant::now, crate::net::stub_instant_now)",
    "kani::stub(<std::os::fd::OwnedFd as std::ops::Drop>::drop, crate::net::stub_fd_drop)",
]

META = {
    "functions_encoded": [
        "humphrey-ws/src/stream.rs: WebsocketStream::{new, recv, recv_nonblocking, send, ping, send_raw, Drop::drop}",
        "humphrey-ws/src/message.rs: Message::{from_stream, from_stream_nonblocking, new, new_binary, to_frame, bytes, is_text}",
        "humphrey-ws/src/frame.rs: Frame::{from_stream, from_stream_nonblocking, from_stream_inner, new}, From<Frame> for Vec<u8>",
        "humphrey/src/stream.rs: <Stream as Read/Write>, set_nonblocking/set_blocking",
        "std: Read::read_exact, Write::write_all (default impls, compiled std)",
    ],
    "reference_model": "kani/src/refs/ws.rs (RFC 6455 §5.2) builds the client script and recognises the server's frames",
    "stubs": ["<TcpStream as Read>::read -> scripted bytes under a concrete read plan (whole / byte-wise / one split); Ok(0) or WouldBlock at the end",
              "<TcpStream as Write>::write -> capture buffer", "TcpStream::set_nonblocking -> Ok(())", "Instant::now -> fixed instant", "<OwnedFd as Drop>::drop -> counter (no close(2))"],
    "assumes": ["a TcpStream value fabricated from fd 3 (never used for a syscall)"],
    "outside_bounds": [
        "the opening handshake (Response serialisation uses format!; SHA-1/Base64 kernels are C18)",
        "MESSAGE ASSEMBLY: 'receiving delivers exactly the messages sent' (data frames, fragments) is NOT decided — Kani/CBMC runs out of memory on Message::from_stream's Vec<Frame> path (measured); only control-frame handling, sending and the non-blocking header logic are claimed",
        "payloads > 2 bytes per frame, scripts of more than 2 frames, 16/64-bit length forms on this path (C10 covers them at frame level)",
        "read segmentations other than whole / byte-wise / one split point; real sockets, abrupt disconnects mid-frame beyond EOF",
        "the async app (C12)",
    ],
}


def harnesses():
    hs = []
    PL = {0: "whole", 1: "bytewise"}
    def add(name, body, unwind, tier, desc, frames=1, plan=0, **kw):
        # per-loop bounds (unwinding assertions stay on, so a too-small bound is reported, not trusted):
        #   message loop: one iteration per scripted frame (+1 for the exit test); read_exact: 2 calls suffice when data arrives whole,
        #   5 byte-wise (4-byte key); the decoder's chunk loop: 1
        rx = 3 if plan == 0 else 6
        hs.append(H(name, body, unwind, tier, desc, attrs=list(NET_STUBS), timeout=kw.get("timeout", 2400), mem_gb=kw.get("mem_gb", 16),
                    unwindset=[("humphrey-ws/src/frame.rs", "from_stream_inner", 2),
                               ("humphrey-ws/src/message.rs", "Message::from_stream", frames + 1),
                               ("io/read.rs", "read_exact", rx), ("io/mod.rs", "read_exact", rx)]))
    # message-assembly templates (recv_data / recv_ping_data / recv_fragments / recv_nonblocking with data) are defined in
    # kani/src/c11.rs but NOT scheduled: CBMC runs out of memory (>16-20 GB, 15-25 min) on the Vec<Frame> / fold / extend path even
    # for one 1-byte frame with per-loop bounds (measured 2026-09-29; DESIGN §5 C11). They are listed as outside the claim.
    def add_data(name, body, tier, desc, frames, plan):
        # message-assembly templates: global unwind 2 (keeps the drop glue of Vec<Frame>/Message small), real bounds per loop
        rx = 3 if plan == 0 else 6
        hs.append(H(name, body, 2, tier, desc, attrs=list(NET_STUBS), timeout=1800, mem_gb=16,
                    unwindset=[("src/lib.rs", "bytes", 6), ("src/c11.rs", "", 9), ("humphrey-ws/src/frame.rs", "from_stream_inner", 2),
                               ("humphrey-ws/src/message.rs", "Message::from_stream", frames + 1), ("io/read.rs", "read_exact", rx), ("io/mod.rs", "read_exact", rx),
                               ("io/write.rs", "write_all", 3), ("slice/iter/macros.rs", "", 5), ("iter/adapters", "", 5), ("@raw", "memcmp.0", 8)]))
    # (not scheduled: even with global unwind 2 + per-loop bounds c11_recv_data_l1_whole needs > 16 GB: 747k SSA steps, measured)
    for LC, plan in ((0, 0), (2, 0), (2, 1), (1, 1)):
        add("c11_close_%d_%s" % (LC, PL[plan]), "recv_close::<_, %d, %d, 0>" % (LC, plan), 8, "quick" if (LC, plan) in ((2, 0), (0, 0), (2, 1)) else "thorough",
            "Close(%d bytes), %s: ConnectionClosed, one Close frame back, nothing on drop" % (LC, PL[plan]), frames=1, plan=plan)
    for K in (1, 2, 4):
        add("c11_close_2_split%d" % K, "recv_close::<_, 2, 2, %d>" % K, 8, "rot", "Close(2 bytes) split at byte %d" % K, frames=1, plan=2)
    for LP, plan in ((0, 0), (1, 0), (2, 1)):
        add("c11_ping_close_p%d_%s" % (LP, PL[plan]), "recv_ping_close::<_, %d, %d, 0>" % (LP, plan), 8, "quick" if (LP, plan) in ((1, 0), (2, 1)) else "thorough",
            "Ping(%d bytes) then Close, %s: one Pong with the same payload, one Close, ConnectionClosed" % (LP, PL[plan]), frames=2, plan=plan)
    for LC, plan, K in ((0, 0, 0), (1, 0, 0), (1, 2, 1), (1, 1, 0)):
        nm = PL.get(plan, "split%d" % K)
        add("c11_nb_close_%d_%s" % (LC, nm), "nb_close::<_, %d, %d, %d>" % (LC, plan, K), 8, "quick" if (LC, plan) in ((1, 0), (1, 2)) else "thorough",
            "recv_nonblocking, Close(%d bytes), %s: first read returns %s header byte(s); must behave like blocking receive" % (LC, nm, "one" if plan != 0 else "two"), frames=1, plan=plan)
    add("c11_nb_close_gap_1", "nb_close_gap::<_, 1>", 8, "quick", "recv_nonblocking: one header byte arrived, the rest arrives LATER (WouldBlock in between): the frame is still received, not `nothing yet`", frames=1, plan=2)
    add("c11_nb_close_gap_0", "nb_close_gap::<_, 0>", 8, "thorough", "same with an empty Close", frames=1, plan=2)
    for L in (0, 1, 3):
        add("c11_send_%d" % L, "send_frames::<_, %d>" % L, 8, "quick" if L <= 1 else "thorough", "send(binary, %d symbolic bytes) + ping(): exactly two well-formed unmasked frames" % L)
    add("c11_nonblocking_idle", "recv_nonblocking_idle", 6, "quick", "recv_nonblocking with nothing to read: `nothing yet`, nothing written")
    for x in hs:
        x.module = MODULE
    return hs
