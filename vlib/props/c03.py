"""C03 — no input can crash, wedge or exhaust a parser (claimed: WebSocket frame decoder and Base64 decoder)."""
from ..kengine import H

ID = "C03"
MODULE = "c03"
ENGINE = "K"

FROM_ELEM = "kani::stub(alloc::vec::from_elem, crate::c03::stub_from_elem)"

META = {
    "functions_encoded": [
        "humphrey-ws/src/frame.rs: Frame::from_stream / from_stream_inner, Opcode::try_from",
        "humphrey-ws/src/util/base64.rs: <T as Base64Decode>::decode",
    ],
    "reference_model": "refs/ws.rs, refs/b64.rs (the differential harnesses of C10/C18: any panic, overflow, out-of-bounds access or loop beyond its bound fails them)",
    "stubs": ["alloc::vec::from_elem -> recorder of the requested size (allocation-bound harnesses only; natively a tracking global allocator observes the same quantity)"],
    "assumes": ["Base64 input is a valid &str (ASCII or one 2-byte character)"],
    "outside_bounds": [
        "HTTP request and response parsers: not encodable (DESIGN §2) — NOT decided",
        "JSON parser: decided by C13's encoding if built, otherwise not decided; configuration parser: only the size-suffix kernel (see C15)",
        "WebSocket message assembly (Message::from_stream): CBMC out of memory (see C11)",
        "stack overflow and wall-clock time: termination within the unwinding bound is what is shown; inputs longer than 16 bytes (frames) / 9 symbols (Base64)",
    ],
}


def harnesses():
    hs = []
    UW = [("humphrey-ws/src/frame.rs", "from_stream_inner", 2)]
    for N in range(0, 17):
        if N < 2:
            hs.append(H("c03_frame_n%d" % N, "dec::<_, %d, 0, 0>" % N, 4, "quick", "frame decoder on %d symbolic bytes: returns ReadError, no panic" % N))
            continue
        tier = "quick" if N in (2, 5, 10, 12, 14) else "thorough"
        hs.append(H("c03_frame_n%d" % N, "dec_std::<_, %d>" % N, N + 4, tier,
                    "frame decoder on %d FULLY symbolic bytes (every header, every claimed length): returns a value or an error, never panics" % N, timeout=1500, mem_gb=10, unwindset=UW))
    for N in (10, 12, 14, 16):
        hs.append(H("c03_frame_alloc_n%d" % N, "frame_alloc::<_, %d>" % N, N + 4, "quick" if N in (10, 14) else "thorough",
                    "allocation bound: %d fully symbolic bytes, largest vec![0; n] request <= 64 KiB + input" % N, attrs=[FROM_ELEM], timeout=1500, mem_gb=10, unwindset=UW))
    for N in range(0, 10):
        hs.append(H("c03_b64_n%d" % N, "b64_dec::<_, %d>" % N, N + 2, "quick" if N in (1, 3, 4, 5) else "thorough", "Base64 decoder on %d symbolic ASCII bytes: Ok/Err, never panics" % N, timeout=1200))
    for N, POS in ((4, 0), (4, 2), (8, 5)):
        hs.append(H("c03_b64_mb_%d_%d" % (N, POS), "b64_dec_mb::<_, %d, %d>" % (N, POS), N + 2, "quick" if N == 4 else "thorough", "Base64 decoder, %d bytes with a 2-byte character at %d: rejected, no panic" % (N, POS), timeout=1200))
    for h in hs:
        h.module = MODULE
    return hs
