"""C03 — no input can crash, wedge or exhaust a parser (claimed: WebSocket frame decoder, Base64 decoder, HTTP request parser, JSON parser)."""
from ..kengine import H

ID = "C03"
MODULE = "c03"
ENGINE = "KM"
TECHNIQUE = "frame and Base64 decoders: Kani/CBMC bounded model checking of the compiled code on fully symbolic byte strings; HTTP request parser and JSON parser: symbolic execution of their MIR on malformed-input templates / all short strings -> z3, every panic or over-sized allocation replayed natively (catch_unwind, tracking allocator)"

FROM_ELEM = "kani::stub(alloc::vec::from_elem, crate::c03::stub_from_elem)"

META = {
    "functions_encoded": [
        "humphrey-ws/src/frame.rs: Frame::from_stream / from_stream_inner, Opcode::try_from",
        "humphrey-ws/src/util/base64.rs: <T as Base64Decode>::decode",
    ],
    "reference_model": "refs/ws.rs, refs/b64.rs (the differential harnesses of C10/C18: any panic, overflow, out-of-bounds access or loop beyond its bound fails them)",
    "stubs": ["alloc::vec::from_elem -> recorder of the requested size (allocation-bound harnesses only; natively a tracking global allocator observes the same quantity)"],
    "assumes": ["Base64 input is a valid &str (ASCII or one 2-byte character)"],
    "outside_bounds": [
        "HTTP request parser: decided on engine M for the malformed-request templates listed under `request_parser` (arbitrary ASCII garbage of 1..4 bytes at the start line, in a header line, after a complete header; multi-byte UTF-8 at the slicing positions; invalid UTF-8; Content-Length claims) — longer garbage, the tokio twin and read segmentation are not covered",
        "HTTP response parser: decided on engine M for the malformed-response templates listed under `response_parser` (status line / header line / chunk-size garbage, lines without a colon, multi-byte UTF-8 at the slicing positions, Content-Length and chunk-size claims); longer garbage, trailers and read segmentation are not covered",
        "JSON parser: `no panic` for every Unicode string of 0..4 characters (engine M, same encoding as C13); configuration parser: only the size-suffix kernel (see C15)",
        "WebSocket message assembly (Message::from_stream): CBMC out of memory (see C11)",
        "stack overflow and wall-clock time: termination within the unwinding bound is what is shown; inputs longer than 16 bytes (frames) / 9 symbols (Base64)",
    ],
}


def harnesses():
    hs = []
    UW = [("humphrey-ws/src/frame.rs", "from_stream_inner", 2)]
    for N in range(0, 17):
        if N < 2:
            hs.append(H("c03_frame_n%d" % N, "dec::<_, %d, 0, 0>" % N, 4, "quick", "frame decoder on %d symbolic bytes: returns ReadError, no panic" % N))
            continue
        tier = "quick" if N in (2, 5, 10, 12, 14) else "thorough"
        hs.append(H("c03_frame_n%d" % N, "dec_std::<_, %d>" % N, N + 4, tier,
                    "frame decoder on %d FULLY symbolic bytes (every header, every claimed length): returns a value or an error, never panics" % N, timeout=1500, mem_gb=10, unwindset=UW))
    for N in (10, 12, 14, 16):
        hs.append(H("c03_frame_alloc_n%d" % N, "frame_alloc::<_, %d>" % N, N + 4, "quick" if N in (10, 14) else "thorough",
                    "allocation bound: %d fully symbolic bytes, largest vec![0; n] request <= 64 KiB + input" % N, attrs=[FROM_ELEM], timeout=1500, mem_gb=10, unwindset=UW))
    for N in range(0, 10):
        hs.append(H("c03_b64_n%d" % N, "b64_dec::<_, %d>" % N, N + 2, "quick" if N in (1, 3, 4, 5) else "thorough", "Base64 decoder on %d symbolic ASCII bytes: Ok/Err, never panics" % N, timeout=1200))
    for N, POS in ((4, 0), (4, 2), (8, 5)):
        hs.append(H("c03_b64_mb_%d_%d" % (N, POS), "b64_dec_mb::<_, %d, %d>" % (N, POS), N + 2, "quick" if N == 4 else "thorough", "Base64 decoder, %d bytes with a 2-byte character at %d: rejected, no panic" % (N, POS), timeout=1200))
    for h in hs:
        h.module = MODULE
    return hs


def run(tier, run_k):
    import json, os, time
    from ..common import WORK, REPLAY_DIR, log, write_evidence, load_known
    from .. import mengine
    from . import c03_req, c13
    k = run_k()
    t0, rc, cov, assumptions, nviol = k["t0"], k["rc"], k["cov"], k["assumptions"], k["violations"]
    known = load_known()
    from mirsym.dump import dump_mir
    work = os.path.join(WORK, ID)
    # ---- HTTP request parser
    try:
        mir, dt = dump_mir("humphrey", work, features="verif")
        d = c03_req.run_part(tier, work, mir)
    except Exception as e:
        log("UNDISCHARGED: request parser — %s" % str(e)[:500])
        d = {"results": [], "violations": [], "known_hits": [], "machinery": [], "undischarged": [{"template": "all", "why": str(e)[:300]}], "validation": {}}
    os.makedirs(REPLAY_DIR, exist_ok=True)
    for i, r in enumerate(d["violations"][:3]):
        path = os.path.join(REPLAY_DIR, "C03-request-%d.json" % i)
        with open(path, "w") as f:
            json.dump({"property": ID, "engine": "M", "kind": "request", "replay": r["replay"], "how": "./check C03 --replay " + path}, f, indent=1)
        log("VIOLATION property=%s replay=%s" % (ID, path))
        rp = r["replay"]
        log("   request %r: %s — natively dev: %s / release: %s" % (rp["text"][:120], rp["failed"][:120], rp["native_dev"][:80], rp["native_release"][:80]))
        rc = 1
        nviol += 1
    for rp in d["known_hits"]:
        log("KNOWN-FINDING: property=%s key=%s %s [request %r: dev %s / release %s]" % (ID, rp["key"], known[(ID, rp["key"])], rp["text"][:80], rp["native_dev"][:60], rp["native_release"][:60]))
    for m in d["machinery"]:
        log("MACHINERY-ERROR: request parser — " + m[:600])
        rc = rc or 2
    for r in d["undischarged"][:6]:
        log("UNDISCHARGED: request parser template %s — %s" % (r.get("template"), r.get("why")))
    ok = [r for r in d["results"] if r["verdict"] == "unsat"]
    log("   request parser (engine M): %d/%d malformed-request templates free of panics and over-sized allocations, %d paths, translator validation on %s requests (%s native panics among them)" % (
        len(ok), len(d["results"]), sum(r.get("paths", 0) for r in d["results"]), d["validation"].get("inputs"), d["validation"].get("native_panics_seen")))
    # ---- HTTP response parser
    from . import c07_resp
    try:
        d2 = c07_resp.run_part(tier, work, mir, "np")
    except Exception as e:
        log("UNDISCHARGED: response parser — %s" % str(e)[:500])
        d2 = {"results": [], "violations": [], "known_hits": [], "machinery": [], "undischarged": [{"template": "all", "why": str(e)[:300]}], "validation": {}}
    for i, r in enumerate(d2["violations"][:4]):
        path = os.path.join(REPLAY_DIR, "C03-response-%d.json" % i)
        with open(path, "w") as f:
            json.dump({"property": ID, "engine": "M", "kind": "response", "replay": r["replay"], "how": "./check C03 --replay " + path}, f, indent=1)
        log("VIOLATION property=%s replay=%s" % (ID, path))
        rp = r["replay"]
        log("   response %r: %s — natively dev: %s / release: %s" % (rp["text"][:120], rp["failed"][:120], rp["native_dev"][:80], rp["native_release"][:80]))
        rc = 1
        nviol += 1
    for rp in d2["known_hits"]:
        log("KNOWN-FINDING: property=%s key=%s %s [response %r]" % (ID, rp["key"], known[(ID, rp["key"])], rp["text"][:80]))
    for m in d2["machinery"]:
        log("MACHINERY-ERROR: response parser — " + m[:600])
        rc = rc or 2
    for r in d2["undischarged"][:6]:
        log("UNDISCHARGED: response parser template %s — %s" % (r.get("template"), r.get("why")))
    ok2 = [r for r in d2["results"] if r["verdict"] == "unsat"]
    log("   response parser (engine M): %d/%d malformed-response templates free of panics and over-sized allocations, %d paths, translator validation on %s responses" % (
        len(ok2), len(d2["results"]), sum(r.get("paths", 0) for r in d2["results"]), d2["validation"].get("inputs")))
    cov["response_parser"] = {
        "functions_encoded": ["humphrey/src/http/response.rs: Response::from_stream, parse_chunk, safe_assert (MIR of the current tree)"],
        "templates": {r["template"]: {k2: r.get(k2) for k2 in ("verdict", "paths", "n_checks", "wall_s", "why")} for r in d2["results"]},
        "bounds": "arbitrary ASCII garbage of 1..3 (4) bytes as status line, inside the status line, in and after header lines; header lines without a colon; 2-, 3-, 4-byte UTF-8 characters at the slicing positions; invalid UTF-8; Content-Length with symbolic digits / arbitrary characters / 1 GiB / 2^64-1; chunk-size lines with arbitrary characters, 6 symbolic hex digits, 1 GiB, 2^64-1, a truncated chunk",
        "translator_validation": d2["validation"], "known_findings_seen": d2["known_hits"], "violations": [r["replay"] for r in d2["violations"]][:4], "undischarged": d2["undischarged"][:10],
    }
    cov["evaluations"] += len(d2["results"]); cov["distinct_nontrivial"] += len(ok2)
    cov["obligations"] = cov.get("obligations", 0) + len(d2["results"]); cov["discharged"] = cov.get("discharged", 0) + len(ok2)
    cov["states"] = cov.get("states", 0) + sum(r.get("blocks", 0) for r in d2["results"])
    cov["transitions"] = cov.get("transitions", 0) + sum(r.get("n_checks", 0) for r in d2["results"])
    cov["traces_validated_against_impl"] = cov.get("traces_validated_against_impl", 0) + (d2["validation"].get("inputs") or 0)
    cov["functions_encoded"] = list(cov.get("functions_encoded", [])) + cov["response_parser"]["functions_encoded"]
    # ---- JSON parser: no panic (C13's encoding)
    jres, jviol, jund = [], [], []
    try:
        jm, dt = dump_mir("humphrey-json", work)
        c13._G.update({"mir": jm, "budget": 600, "classify": c13.classify, "region": c13.region})
        jobs = [(n, None, None) for n in (0, 1, 2, 3)] + [(4, kk, None) for kk in range(c13.N_CLASSES)]
        if tier == "thorough":
            jobs += [(5, kk, None) for kk in range(c13.N_CLASSES)]
        jres = mengine.pmap(c13._obligation, jobs)
        exe = mengine.build_mtool("debug")
        exe_rel = mengine.build_mtool("release")
        for r in jres:
            if r.get("verdict") == "undischarged":
                jund.append({"job": [r["n"], r["cls"]], "why": r.get("why")})
            for cx in r.get("cexs", []):
                if cx["check"] != "no panic":
                    continue
                text = "".join(chr(x) for x in cx["chars"])
                nd, nr = c13.native(exe, text), c13.native(exe_rel, text)
                if nd == "PANIC" or nr == "PANIC":
                    jviol.append({"text": text, "native_dev": nd, "native_release": nr})
        if jund and not jviol:
            # native probe (sampling): boundary documents through the real parser, panics only
            for text in list(c13.REPO_TEST_DOCS) + ["-", "[-]", "[1,-]", "{\"a\":-}", "+", ".", "e", "-e", "\"\\", "\"\\u", "\"\\u12", "[", "{", "{\"", "tru", "nul", "\u00e9", "[\u00e9", "-\u00e9"]:
                nd = c13.native(exe, text)
                if nd == "PANIC":
                    jviol.append({"text": text, "native_dev": nd, "native_release": c13.native(exe_rel, text), "probe": True})
                    break
    except Exception as e:
        jund.append({"job": "all", "why": str(e)[:300]})
    for v in jviol[:1]:
        path = os.path.join(REPLAY_DIR, "C03-json.json")
        with open(path, "w") as f:
            json.dump({"property": ID, "engine": "M", "kind": "json", "text": v["text"], "native_dev": v["native_dev"], "native_release": v["native_release"], "how": "./check C03 --replay " + path}, f, indent=1)
        log("VIOLATION property=%s replay=%s" % (ID, path))
        log("   Value::parse(%r) panics natively (dev: %s / release: %s)%s" % (v["text"], v["native_dev"], v["native_release"], " [native probe]" if v.get("probe") else ""))
        rc = 1
        nviol += 1
    for u in jund[:4]:
        log("UNDISCHARGED: JSON parser no-panic %s — %s" % (u.get("job"), u.get("why")))
    jok = [r for r in jres if r.get("verdict") in ("unsat", "sat") and not any(c["check"] == "no panic" for c in r.get("cexs", []))]
    log("   JSON parser (engine M): no panic on every Unicode string of 0..%d characters: %d/%d length/class obligations" % (5 if tier == "thorough" else 4, len(jok), len(jres)))
    nres = len(d["results"]) + len(jres)
    cov["evaluations"] += nres
    cov["distinct_nontrivial"] += len(ok) + len(jok)
    cov["obligations"] = cov.get("obligations", 0) + nres
    cov["discharged"] = cov.get("discharged", 0) + len(ok) + len(jok)
    cov["states"] = cov.get("states", 0) + sum(r.get("blocks", 0) for r in d["results"]) + sum(r.get("blocks", 0) for r in jres)
    cov["transitions"] = cov.get("transitions", 0) + sum(r.get("n_checks", 0) for r in d["results"]) + sum(r.get("feasibility_queries", 0) for r in jres)
    cov["traces_validated_against_impl"] = cov.get("traces_validated_against_impl", 0) + (d["validation"].get("inputs") or 0)
    cov["solver_time_s"] = round(cov.get("solver_time_s", 0) + sum(r.get("solver_s", 0) for r in d["results"]) + sum(r.get("solver_s", 0) for r in jres), 2)
    cov["request_parser"] = {
        "functions_encoded": ["humphrey/src/http/request.rs: Request::{from_stream, from_stream_inner}, safe_assert, to_error; method.rs Method::from_name; headers.rs HeaderType::from, Headers::{new, add, get} (MIR of the current tree)"],
        "templates": {r["template"]: {k2: r.get(k2) for k2 in ("verdict", "paths", "n_checks", "wall_s", "why")} for r in d["results"]},
        "obligation": "on every path: a value or an error — no MIR assert/unwrap/slice-index panic — and every vec![0; n] at most 64 KiB + 16 x the bytes supplied; the paths cover every value of the holes",
        "bounds": "holes are arbitrary ASCII bytes (0..127): 1..4 (thorough 5) at the start line, 1..3 (4) in a header line, after a complete header, after the method / target; concrete 2-, 3-, 4-byte UTF-8 characters at the slicing positions with symbolic neighbours; invalid UTF-8; Content-Length with 1, 2, 6 (12) symbolic characters and huge concrete values; end of stream after the template",
        "translator_validation": d["validation"],
        "known_findings_seen": d["known_hits"],
        "violations": [r["replay"] for r in d["violations"]][:3],
        "undischarged": d["undischarged"][:10],
    }
    cov["json_no_panic"] = {"function_encoded": "humphrey-json/src/parser.rs: Value::parse and everything it calls (C13's encoding)", "lengths": "0..%d characters over all of Unicode" % (5 if tier == "thorough" else 4),
                            "obligations": len(jres), "without_panic": len(jok), "undischarged": jund[:5], "violations": jviol[:3]}
    cov["functions_encoded"] = list(cov.get("functions_encoded", [])) + cov["request_parser"]["functions_encoded"] + [cov["json_no_panic"]["function_encoded"]]
    cov.setdefault("engines", {})["mirsym"] = "own MIR symbolic executor (/verif/mirsym) + z3 5.1.0"
    cov["known_findings_seen"] = list(cov.get("known_findings_seen", [])) + [{"key": h["key"], "input": h["text"][:80]} for h in d["known_hits"]]
    assumptions = assumptions + ["request parser: BufReader/read_until/read_exact model over the scripted bytes, allocation accounting in the vec![x; n] model (sizes above the remaining script are represented by one buffer), symbolic bytes are ASCII; validated per run against the native parser on concrete malformed requests"]
    write_evidence(ID, tier, cov, assumptions, time.time() - t0, nviol)
    log("== %s: %d/%d obligations discharged (K frame/Base64 + M request/response parsers + M JSON no-panic), %d violation(s), %d known finding(s); %.0fs wall" % (ID, cov["discharged"], cov["obligations"], nviol, len(d["known_hits"]), time.time() - t0))
    return rc


def replay(d, path):
    from .. import mengine, kengine
    from ..common import log
    from . import c03_req, c13
    mengine.setup(ID)
    kengine.write_lists({})
    if d.get("kind") == "response":
        from . import c07_resp
        return c07_resp.replay(d, path, ID)
    if d.get("kind") == "json":
        exe = mengine.build_mtool("debug")
        exe_rel = mengine.build_mtool("release")
        nd, nr = c13.native(exe, d["text"]), c13.native(exe_rel, d["text"])
        log("Value::parse(%r) -> dev %s / release %s" % (d["text"], nd, nr))
        if nd == "PANIC" or nr == "PANIC":
            log("VIOLATION property=%s replay=%s" % (ID, path))
            return 1
        return 0
    return c03_req.replay(d, path)
