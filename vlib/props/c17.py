"""C17 — passwords and sessions (claimed: session state machine step; passwords outside)."""
from ..kengine import H

ID = "C17"
MODULE = "c17"
ENGINE = "K"

CLOCK = "kani::stub(std::time::SystemTime::elapsed, crate::c17::stub_elapsed)"
RNG = "kani::stub(<rand_core::OsRng as rand_core::RngCore>::fill_bytes, crate::c17::stub_fill_bytes)"
FMT = "kani::stub(alloc::fmt::format, crate::c17::stub_format)"

META = {
    "functions_encoded": [
        "humphrey-auth/src/lib.rs: AuthProvider::{new, create_session, create_session_with_lifetime, refresh_session, invalidate_session, invalidate_user_session, get_uid_by_token, remove_user}",
        "humphrey-auth/src/database.rs: impl AuthDatabase for Vec<User> (all six methods, reached through a delegating wrapper)",
        "humphrey-auth/src/session.rs: Session::{create_with_lifetime, valid, refresh}",
    ],
    "reference_model": "inline in kani/src/c17.rs: a token authenticates exactly its user iff now < expiry; one session slot per user; rejected operations change nothing",
    "stubs": ["std::time::SystemTime::elapsed -> Ok(NOW seconds), NOW symbolic per operation (constant within one operation)",
              "<OsRng as RngCore>::fill_bytes -> no-op (token bytes zero)", "alloc::fmt::format -> \"00\" (token hex digits)"],
    "assumes": ["pre-state invariant: uids distinct, tokens pairwise distinct (fresh tokens: the 256-bit randomness clause is an assumption, not a result)",
                "the clock does not tick inside one operation; between operations it is arbitrary"],
    "outside_bounds": [
        "password hashing/verification (Argon2), Uuid generation, the cookie route (with_auth_route), peppers",
        "more than 2 users; tokens longer than 2 bytes in the pre-state; randomness/uniqueness of tokens",
        "operation sequences are covered by induction over the single step, given the stated invariant",
    ],
}


def harnesses():
    hs = []
    def add(name, body, unwind, tier, desc, attrs):
        hs.append(H(name, body, unwind, tier, desc, attrs=attrs, timeout=1800, mem_gb=10))
    for n in (1, 2):
        t = "quick"
        add("c17_refresh_%d" % n, "refresh::<_, %d>" % n, 6, "quick" if n == 2 else "thorough", "refresh_session from any pre-state of %d user(s): live token -> expiry = now+3600; expired/unknown -> InvalidToken, nothing changes" % n, [CLOCK])
        add("c17_lookup_%d" % n, "lookup::<_, %d>" % n, 6, t, "get_uid_by_token from any pre-state of %d user(s): Ok(uid of the owner) iff now < expiry" % n, [CLOCK])
        for op, nm in ((0, "invalidate_session"), (1, "invalidate_user_session"), (2, "remove_user")):
            add("c17_%s_%d" % (nm, n), "invalidate::<_, %d, %d>" % (n, op), 6, "quick" if n == 2 or op == 0 else "thorough", "%s from any pre-state of %d user(s)" % (nm, n), [CLOCK])
    for n, life, tier in ((1, "u64::MAX", "quick"), (2, "u64::MAX", "thorough"), (1, "0", "quick"), (2, "60", "thorough")):
        nm = {"u64::MAX": "default", "0": "life0", "60": "life60"}[life]
        add("c17_create_%s_%d" % (nm, n), "create::<_, %d, { %s }>" % (n, life), 68, tier,
            "create_session%s from any pre-state of %d user(s): at most one live session, expiry = now+lifetime, lifetime 0 never authenticates" % ("" if life == "u64::MAX" else "_with_lifetime(%s)" % life, n),
            [CLOCK, RNG, FMT])
    for x in hs:
        x.module = MODULE
    return hs
