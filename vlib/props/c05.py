"""C05 — `*` matches any character sequence, everything else matches only itself (engine M: MIR -> z3)."""
import json, os, random, subprocess, sys, time
from ..common import *
from .. import mengine, kengine

ID = "C05"
ENGINE = "M"
TECHNIQUE = "symbolic execution of the function's MIR (own executor, summaries memoised at loop heads) -> z3 query against a glob recurrence; counterexamples replayed natively"
STAR = 42

_G = {}


def glob_ref(p, t):
    """Reference: p, t lists of code points; classic DP."""
    P, T = len(p), len(t)
    M = [[False] * (T + 1) for _ in range(P + 1)]
    for i in range(P, -1, -1):
        for j in range(T, -1, -1):
            if i == P:
                M[i][j] = (j == T)
            elif p[i] == STAR:
                M[i][j] = M[i + 1][j] or (j < T and M[i][j + 1])
            else:
                M[i][j] = j < T and p[i] == t[j] and M[i + 1][j + 1]
    return M[0][0]


def _load():
    from mirsym.mir import parse_mir
    funcs = parse_mir(_G["mir"])
    f = funcs.get("wildcard_match")
    if f is None or isinstance(f, tuple):
        raise RuntimeError("wildcard_match not found in the MIR dump")
    return funcs, f


def _query(job):
    """One obligation: pattern length P, text length T, symbolic scalar values."""
    import z3
    from mirsym.exec import Ctx, Exec, ExecError, Unwind, z3bool
    from mirsym.models import COMMON, SymStr
    P, T, seed = job
    t0 = time.time()
    res = {"P": P, "T": T}
    try:
        funcs, f = _load()
        ctx = Ctx(funcs, COMMON, mode="int", loop_bound=2 * (P + 1) * (T + 1) + 8, time_budget=_G.get("budget", 600))
        ex = Exec(ctx)
        pc = [z3.Int("p%d" % i) for i in range(P)]
        tc = [z3.Int("t%d" % i) for i in range(T)]
        valid = lambda c: z3.And(c >= 0, c <= 0x10FFFF, z3.Or(c < 0xD800, c > 0xDFFF))
        ctx.base_assumptions = [valid(c) for c in pc + tc]
        out = ex.run_function(f, [("refval", SymStr("pat", tuple(pc))), ("refval", SymStr("txt", tuple(tc)))])
        R = z3.Or(*[z3.And(z3bool(c), z3bool(v)) for c, v, _, _ in out.rets]) if out.rets else z3.BoolVal(False)
        total = z3.Or(*[z3bool(c) for c, _, _, _ in out.rets] + [z3bool(c) for c, _ in out.panics])
        M = [[None] * (T + 1) for _ in range(P + 1)]
        for i in range(P, -1, -1):
            for j in range(T, -1, -1):
                if i == P:
                    M[i][j] = z3.BoolVal(j == T)
                else:
                    if j < T:
                        a_star = z3.Or(M[i + 1][j], M[i][j + 1])
                        lit = z3.And(pc[i] == tc[j], M[i + 1][j + 1])
                    else:
                        a_star = M[i + 1][j]
                        lit = z3.BoolVal(False)
                    M[i][j] = z3.If(pc[i] == STAR, a_star, lit)
        s = z3.Solver()
        s.set("random_seed", seed % 1000)
        s.add(*ctx.base_assumptions)
        tq = time.time()
        # (1) no panic, every input has an outcome; (2) result == reference
        s.push()
        s.add(z3.Or(z3.Not(total), *[z3bool(c) for c, _ in out.panics]))
        r1 = s.check()
        s.pop()
        s.push()
        s.add(R != M[0][0])
        r2 = s.check()
        smt2 = s.to_smt2() if _G.get("export") == (P, T) else None
        cex = None
        if r2 == z3.sat:
            m = s.model()
            cex = ([m.eval(c, model_completion=True).as_long() for c in pc], [m.eval(c, model_completion=True).as_long() for c in tc])
        elif r1 == z3.sat:
            s.pop()
            s.push()
            s.add(z3.Or(z3.Not(total), *[z3bool(c) for c, _ in out.panics]))
            s.check()
            m = s.model()
            cex = ([m.eval(c, model_completion=True).as_long() for c in pc], [m.eval(c, model_completion=True).as_long() for c in tc])
        s.pop()
        res.update({"verdict": "unsat" if (r1 == z3.unsat and r2 == z3.unsat) else ("sat" if (r1 == z3.sat or r2 == z3.sat) else "unknown"),
                    "panic_query": str(r1), "equiv_query": str(r2), "cex": cex, "blocks": ctx.blocks_executed, "feasibility_queries": ctx.nq,
                    "memo_hits": ctx.memo_hits, "symex_s": round(tq - t0, 2), "solver_s": round(time.time() - tq + ctx.tq, 2),
                    "models": sorted(ctx.calls_seen.keys()), "smt2": smt2})
    except Unwind as e:
        res.update({"verdict": "undischarged", "why": "unwinding: " + str(e)})
    except (ExecError, Exception) as e:
        res.update({"verdict": "undischarged", "why": "%s: %s" % (type(e).__name__, str(e)[:300])})
    res["wall_s"] = round(time.time() - t0, 2)
    return res


def _concrete(job):
    """Translator validation: run the encoding on concrete strings."""
    from mirsym.exec import Ctx, Exec
    from mirsym.models import COMMON, ConcStr
    p, t = job
    try:
        funcs, f = _load()
        ctx = Ctx(funcs, COMMON, mode="int", loop_bound=10000)
        out = Exec(ctx).run_function(f, [("refval", ConcStr(p)), ("refval", ConcStr(t))])
        if out.panics and not out.rets:
            return "PANIC"
        if len(out.rets) != 1:
            return "ERR: %d outcomes" % len(out.rets)
        return bool(out.rets[0][1])
    except Exception as e:
        return "ERR: %s: %s" % (type(e).__name__, str(e)[:200])


REPO_TEST_PAIRS = [("ab", "ab"), ("ab", "cd"), ("ab*", "ab"), ("*ab", "ab"), ("ab*", "abcd"), ("*cd", "abcd"), ("ab", "abcd"), ("ab*ef", "abcdef"),
                   ("ab*d", "abcd"), ("ab*ef", "abef"), ("*cd*", "cd"), ("*cd*", "abcd"), ("*cd*", "cdef"), ("*cd*", "abcdef"), ("*ab", "abc"),
                   ("a*f", "abcd"), ("a*f", "cdef"), ("*", "ab"), ("", ""), ("*", "")]


def run(tier):
    t0 = time.time()
    known = load_known()
    work = mengine.setup(ID)
    mengine.write_empty_lists(["c07", "c09", "c10", "c18"] if not kengine.ALL_MODULES else kengine.ALL_MODULES)
    from mirsym.dump import dump_mir
    log("== %s tier=%s seed=%d; /repo HEAD %s%s" % (ID, tier, seed(), git_head(REPO), " +uncommitted changes" if repo_dirty() else ""))
    try:
        mir, dt = dump_mir("humphrey", work)
    except Exception as e:
        log("ERROR: " + str(e)[:2000])
        write_evidence(ID, tier, {"evaluations": 0, "distinct_nontrivial": 0, "explanation": "MIR dump failed"}, [], time.time() - t0, 0)
        return 2
    _G["mir"] = mir
    log("   MIR of humphrey dumped from the working tree in %.1fs (%d lines)" % (dt, mir.count("\n")))
    exe_dev = mengine.build_mtool("debug")
    exe_rel = mengine.build_mtool("release")

    # ---- translator validation: repo test vectors + seeded random pairs through native code and through the encoding
    rnd = random.Random(seed() * 7919 + 17)
    alpha = ["*", "a", "b", "a", "b", "*", "é", "\U0001d11e"]
    pairs = list(REPO_TEST_PAIRS)
    for _ in range(200):
        pairs.append(("".join(rnd.choice(alpha) for _ in range(rnd.randint(0, 7))), "".join(rnd.choice(alpha[1:]) for _ in range(rnd.randint(0, 9)))))
    native = mengine.native_eval(exe_dev, ["wildcard %s %s" % (mengine.hexs(p), mengine.hexs(t)) for p, t in pairs])
    enc = mengine.pmap(_concrete, pairs)
    cannot = [e for e in enc if isinstance(e, str) and e.startswith("ERR")]
    if cannot:
        # the executor cannot interpret the current code (e.g. a std call without a model): nothing is decided by this engine
        log("UNDISCHARGED: the MIR executor cannot run the current wildcard_match (%s) — property not decided on this tree" % cannot[0])
        write_evidence(ID, tier, {"evaluations": len(pairs), "distinct_nontrivial": 0, "explanation": "encoding cannot execute the current code: " + cannot[0],
                                  "samples": [cannot[0]], "undischarged": [{"why": cannot[0]}]}, [], time.time() - t0, 0)
        return 0
    def same(e, n):
        if e == "PANIC":
            return n == "PANIC"
        return isinstance(e, bool) and str(int(e)) == n
    bad = [(pairs[i], native[i], enc[i]) for i in range(len(pairs)) if not same(enc[i], native[i])]
    if bad:
        log("MACHINERY-ERROR: translator validation failed: encoding and native code disagree on %d of %d concrete inputs, e.g. %r" % (len(bad), len(pairs), bad[0]))
        write_evidence(ID, tier, {"evaluations": len(pairs), "distinct_nontrivial": 0, "explanation": "translator validation failed", "samples": [repr(bad[0])]}, [], time.time() - t0, 0)
        return 2
    log("   translator validation: encoding == native wildcard_match on %d concrete pairs (20 from tests/krauss.rs + 200 seeded)" % len(pairs))

    # ---- obligations
    if tier == "thorough":
        PM, TM = 12, 18
    else:
        PM, TM = 7, 10
    jobs = [(p, t, seed()) for p in range(PM + 1) for t in range(TM + 1)]
    if tier != "thorough":
        # rotating extras beyond the fixed core
        rr = random.Random(seed())
        extra = [(8, 11), (8, 12), (9, 11), (9, 12), (10, 12), (10, 13), (9, 13), (8, 13)]
        rr.shuffle(extra)
        jobs += [(p, t, seed()) for p, t in extra[:2]]
    _G["budget"] = 1500 if tier == "thorough" else 400
    _G["export"] = (3, 4)
    jobs.sort(key=lambda j: -(j[0] + 1) * (j[1] + 1))
    results = mengine.pmap(_query, jobs)
    results.sort(key=lambda r: (r["P"], r["T"]))

    # cvc5 cross-check of one exported query (diff two solvers once per run)
    cross = None
    for r in results:
        if r.get("smt2"):
            p = os.path.join(work, "c05_3x4.smt2")
            with open(p, "w") as f:
                f.write("(set-logic ALL)\n" + r["smt2"])
            try:
                cp = subprocess.run(["cvc5", "--lang", "smt2", p], capture_output=True, text=True, timeout=120)
                cross = cp.stdout.strip().split("\n")[0] if cp.stdout.strip() else "no answer"
                if "(error" in cp.stdout + cp.stderr:
                    cross = "inconclusive (error)"
            except Exception as e:
                cross = "cvc5 failed: %s" % e
            r["smt2"] = None
    violations, machinery, undis = [], [], []
    os.makedirs(REPLAY_DIR, exist_ok=True)
    seen_cex = set()
    for r in results:
        if r["verdict"] == "sat" and r.get("cex"):
            pcs, tcs = r["cex"]
            ps, ts = "".join(chr(c) for c in pcs), "".join(chr(c) for c in tcs)
            want = glob_ref(pcs, tcs)
            line = "wildcard %s %s" % (mengine.hexs(ps), mengine.hexs(ts))
            nd, nr = mengine.native_eval(exe_dev, [line])[0], mengine.native_eval(exe_rel, [line])[0]
            r["replay"] = {"pattern": ps, "text": ts, "expected": want, "native_dev": nd, "native_release": nr}
            if nd != str(int(want)) or nr != str(int(want)):
                violations.append(r)
            else:
                machinery.append(r)
        elif r["verdict"] != "unsat":
            undis.append(r)
    rc = 0
    import subprocess as _sp
    if violations:
        r = violations[0]
        path = os.path.join(REPLAY_DIR, "C05-wildcard.json")
        with open(path, "w") as f:
            json.dump({"property": ID, "engine": "M", "pattern": r["replay"]["pattern"], "text": r["replay"]["text"], "expected": r["replay"]["expected"],
                       "native_dev": r["replay"]["native_dev"], "native_release": r["replay"]["native_release"], "how": "./check C05 --replay " + path}, f, indent=1)
        log("VIOLATION property=%s replay=%s" % (ID, path))
        log("   wildcard_match(%r, %r) = %s natively (dev) / %s (release) but the pattern %s the text; %d of %d obligations have such counterexamples" % (
            r["replay"]["pattern"], r["replay"]["text"], r["replay"]["native_dev"], r["replay"]["native_release"],
            "matches" if r["replay"]["expected"] else "does not match", len(violations), len(results)))
        rc = 1
    for r in machinery:
        log("MACHINERY-ERROR: z3 counterexample for P=%d T=%d does not reproduce natively (%r) — encoding problem, not reported as a violation" % (r["P"], r["T"], r.get("replay")))
        rc = rc or 2
    for r in undis:
        log("UNDISCHARGED: P=%d T=%d — %s" % (r["P"], r["T"], r.get("why", r["verdict"])))
    ok = [r for r in results if r["verdict"] == "unsat"]
    models = sorted(set(m for r in results for m in r.get("models", [])))
    cov = {
        "evaluations": len(results),
        "distinct_nontrivial": len([r for r in ok if r["P"] >= 1 and r["T"] >= 1]),
        "rule": "one evaluation = one (pattern length P, text length T) obligation: z3 decides `no panic` and `result == glob recurrence` for ALL sequences of P and T Unicode scalar values; non-trivial = both lengths >= 1 and both queries unsat; each (P,T) is distinct",
        "samples": [{k: r.get(k) for k in ("P", "T", "verdict", "blocks", "feasibility_queries", "memo_hits", "symex_s", "solver_s")} for r in (ok[-3:] + violations[:2] + undis[:2])],
        "obligations": len(results), "discharged": len(ok),
        "states": max(1, sum(r.get("blocks", 0) for r in results)),
        "transitions": max(1, sum(r.get("feasibility_queries", 0) for r in results) + 2 * len(results)),
        "traces_validated_against_impl": len(pairs) + len(violations) + len(machinery),
        "states_transitions_note": "states = MIR basic blocks executed symbolically over all obligations; transitions = solver queries (branch feasibility + 2 verification queries per obligation); traces_validated = concrete inputs run through both the encoding and the native function (translator validation) + replayed counterexamples",
        "undischarged": [{"P": r["P"], "T": r["T"], "why": r.get("why", r["verdict"])} for r in undis],
        "violations_reproduced": [r["replay"] for r in violations[:10]],
        "machinery_errors": [r.get("replay") for r in machinery],
        "functions_encoded": ["humphrey/src/krauss.rs: wildcard_match (MIR of the current working tree, %d basic blocks)" % mir[mir.index("fn wildcard_match"):].split("\n}\n")[0].count("bb")],
        "std_models_trusted": models,
        "bounds": {"pattern_len": "0..%d" % PM, "text_len": "0..%d" % TM, "characters": "symbolic Unicode scalar values (0..0x10FFFF minus surrogates), '*' = U+002A",
                   "loop_bound": "2(P+1)(T+1)+8 loop-head visits per path (exceeding it is reported as undischarged)"},
        "outside_bounds": ["longer patterns/texts", "the UTF-8 decoding done by str::chars (the input is modelled as a sequence of chars; tied to the compiled code by the translator validation incl. 2- and 4-byte characters)"],
        "translator_validation": {"pairs": len(pairs), "disagreements": 0},
        "solver_cross_check": {"query": "P=3,T=4 exported as SMT-LIB2", "cvc5": cross, "z3": [r["verdict"] for r in results if r["P"] == 3 and r["T"] == 4]},
        "solver_time_s": round(sum(r.get("solver_s", 0) for r in results), 2),
        "symex_time_s": round(sum(r.get("symex_s", 0) for r in results), 2),
        "engines": {"mirsym": "own MIR symbolic executor (/verif/mirsym)", "z3": "5.1.0 (python3-vt)", "rustc": "nightly -Zunpretty=mir -C overflow-checks=on"},
        "repo_head": git_head(REPO), "repo_dirty": repo_dirty(), "exhaustive": False,
        "explanation": "bounded: every pattern/text of the listed lengths over ALL Unicode scalar values; nothing claimed beyond",
    }
    write_evidence(ID, tier, cov, ["std models listed in std_models_trusted", "glob recurrence in vlib/props/c05.py is the specification", "z3 is sound"], time.time() - t0, len(violations))
    log("== %s: %d/%d obligations discharged, %d with reproduced counterexamples, %d undischarged; cvc5 cross-check: %s; %.0fs wall" % (ID, len(ok), len(results), len(violations), len(undis), cross, time.time() - t0))
    return rc


def replay(d, path):
    mengine.setup(ID)
    mengine.write_empty_lists(kengine.ALL_MODULES or ["c07", "c09", "c10", "c18"])
    exe = mengine.build_mtool("debug")
    got = mengine.native_eval(exe, ["wildcard %s %s" % (mengine.hexs(d["pattern"]), mengine.hexs(d["text"]))])[0]
    want = glob_ref([ord(c) for c in d["pattern"]], [ord(c) for c in d["text"]])
    log("wildcard_match(%r, %r) = %s, reference %s" % (d["pattern"], d["text"], got, int(want)))
    if got != str(int(want)):
        log("VIOLATION property=%s replay=%s" % (ID, path))
        return 1
    return 0
