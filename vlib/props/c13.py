"""C13 — the JSON parser accepts exactly RFC 8259 (engine M: MIR of the recursive-descent parser -> z3)."""
import json, os, random, re, time
from ..common import *
from .. import mengine, kengine

ID = "C13"
ENGINE = "M"
TECHNIQUE = "symbolic execution of the MIR of humphrey_json's parser and serialiser (own executor) -> z3: `accepted <=> RFC 8259 recogniser` for every string of n symbolic Unicode scalar values; value templates (concrete structure, symbolic holes): `value tree == what the text denotes`; serialiser on symbolic strings: `output is a valid literal denoting the same characters`; counterexamples replayed natively and judged by an independent reference parser"

_G = {}
WS = (0x20, 0x09, 0x0A, 0x0D)


def _parse_fn(max_depth=False):
    from mirsym.mir import parse_mir, ensure_parsed
    funcs = parse_mir(_G["mir"])
    suffix = "::parse_max_depth" if max_depth else "::parse"
    c = [v for n, v in funcs.items() if not isinstance(v, tuple) and n.endswith(suffix) and "parser.rs" in n]
    if len(c) != 1:
        raise RuntimeError("cannot locate Value%s in the MIR dump" % suffix)
    return funcs, ensure_parsed(c[0])


class Spec:
    """RFC 8259 recogniser over a sequence of symbolic characters, as z3 formulas (span dynamic programming)."""

    def __init__(self, z3, cs):
        self.z3, self.c, self.n = z3, cs, len(cs)
        self.memo = {}

    def Or(self, xs):
        xs = [x for x in xs if x is not False]
        if any(x is True for x in xs):
            return True
        return self.z3.Or(*xs) if len(xs) > 1 else (xs[0] if xs else False)

    def And(self, xs):
        if any(x is False for x in xs):
            return False
        xs = [x for x in xs if x is not True]
        return self.z3.And(*xs) if len(xs) > 1 else (xs[0] if xs else True)

    def ws(self, i, j):
        return self.And([self.z3.Or(*[self.c[k] == w for w in WS]) for k in range(i, j)])

    def lit(self, i, j, word):
        if j - i != len(word):
            return False
        return self.And([self.c[i + k] == ord(ch) for k, ch in enumerate(word)])

    def num(self, i, j):
        from mirsym.models_json import json_number_accept
        if j <= i:
            return False
        return json_number_accept(self.c[i:j])

    def string(self, i, j):
        from mirsym.models_json import nfa_accept, hexdigit, _eq
        if j - i < 2:
            return False
        z3 = self.z3
        plain = lambda c: z3.And(c >= 0x20, c != 0x22, c != 0x5C)
        T = {"n": [(plain, "n"), (lambda c: _eq(c, 0x5C), "e")],
             "e": [(lambda c: _eq(c, 0x22, 0x5C, 0x2F, 0x62, 0x66, 0x6E, 0x72, 0x74), "n"), (lambda c: _eq(c, 0x75), "u1")],
             "u1": [(hexdigit, "u2")], "u2": [(hexdigit, "u3")], "u3": [(hexdigit, "u4")], "u4": [(hexdigit, "n")]}
        body = nfa_accept(self.c[i + 1:j - 1], T, "n", {"n"})
        return self.And([self.c[i] == 0x22, self.c[j - 1] == 0x22, body])

    def surrogate_escape(self):
        """Some \\uXXXX escape (anywhere) denotes a surrogate: the property leaves acceptance open."""
        from mirsym.models_json import hexdigit, hexval
        z3 = self.z3
        alts = []
        for i in range(self.n - 5):
            h = self.c[i + 2:i + 6]
            v = hexval(h[0]) * 4096 + hexval(h[1]) * 256 + hexval(h[2]) * 16 + hexval(h[3])
            alts.append(z3.And(self.c[i] == 0x5C, self.c[i + 1] == 0x75, *[hexdigit(x) for x in h], v >= 0xD800, v <= 0xDFFF))
        return self.Or(alts)

    def val(self, i, j, d):
        k = ("val", i, j, d)
        if k not in self.memo:
            self.memo[k] = self.Or([self.lit(i, j, "null"), self.lit(i, j, "true"), self.lit(i, j, "false"), self.num(i, j), self.string(i, j),
                                    self.arr(i, j, d), self.obj(i, j, d)])
        return self.memo[k]

    def elem(self, a, b, d):
        k = ("elem", a, b, d)
        if k not in self.memo:
            alts = []
            for p in range(a, b):
                for q in range(p + 1, b + 1):
                    alts.append(self.And([self.ws(a, p), self.val(p, q, d), self.ws(q, b)]))
            self.memo[k] = self.Or(alts)
        return self.memo[k]

    def elems(self, a, b, d):
        k = ("elems", a, b, d)
        if k not in self.memo:
            alts = [self.elem(a, b, d)]
            for m in range(a + 1, b - 1):
                alts.append(self.And([self.elem(a, m, d), self.c[m] == 0x2C, self.elems(m + 1, b, d)]))
            self.memo[k] = self.Or(alts)
        return self.memo[k]

    def arr(self, i, j, d):
        if j - i < 2 or d <= 0:
            return False
        return self.And([self.c[i] == 0x5B, self.c[j - 1] == 0x5D, self.Or([self.ws(i + 1, j - 1), self.elems(i + 1, j - 1, d - 1)])])

    def member(self, a, b, d):
        k = ("member", a, b, d)
        if k not in self.memo:
            alts = []
            for p in range(a, b):
                for q in range(p + 2, b):
                    for r in range(q, b - 1):
                        alts.append(self.And([self.ws(a, p), self.string(p, q), self.ws(q, r), self.c[r] == 0x3A, self.elem(r + 1, b, d)]))
            self.memo[k] = self.Or(alts)
        return self.memo[k]

    def members(self, a, b, d):
        k = ("members", a, b, d)
        if k not in self.memo:
            alts = [self.member(a, b, d)]
            for m in range(a + 1, b - 1):
                alts.append(self.And([self.member(a, m, d), self.c[m] == 0x2C, self.members(m + 1, b, d)]))
            self.memo[k] = self.Or(alts)
        return self.memo[k]

    def obj(self, i, j, d):
        if j - i < 2 or d <= 0:
            return False
        return self.And([self.c[i] == 0x7B, self.c[j - 1] == 0x7D, self.Or([self.ws(i + 1, j - 1), self.members(i + 1, j - 1, d - 1)])])

    def json(self, depth):
        return self.elem(0, self.n, min(depth, self.n))


def _first_class(z3, c, k):
    """Partition of the first character into classes, to split one length into parallel obligations."""
    classes = [c == 0x22, c == 0x5B, c == 0x7B, z3.Or(*[c == w for w in WS]), z3.And(c >= 0x30, c <= 0x39), z3.Or(c == 0x2D, c == 0x2B, c == 0x2E),
               z3.Or(c == ord("n"), c == ord("t"), c == ord("f"), c == ord("N"), c == ord("i"), c == ord("I"))]
    if k < len(classes):
        return classes[k]
    return z3.Not(z3.Or(*classes))

N_CLASSES = 8


def _obligation(job):
    import z3
    from mirsym.exec import Ctx, Exec, ExecError, Unwind, z3bool
    from mirsym.models import COMMON, SymStr
    from mirsym.models_json import make_models
    n, cls, depth = job
    t0 = time.time()
    res = {"n": n, "cls": cls, "depth": depth}
    try:
        funcs, f = _parse_fn(max_depth=depth is not None)
        ctx = Ctx(funcs, make_models() + COMMON, mode="int", loop_bound=4 * n + 12, time_budget=_G.get("budget", 900))
        ex = Exec(ctx)
        cs = [z3.Int("c%d" % i) for i in range(n)]
        assum = [z3.And(c >= 0, c <= 0x10FFFF, z3.Or(c < 0xD800, c > 0xDFFF)) for c in cs]
        if n >= 1 and cls is not None:
            assum.append(_first_class(z3, cs[0], cls))
        ctx.base_assumptions = assum
        args = [("refval", SymStr("in", tuple(cs)))] + ([depth] if depth is not None else [])
        out = ex.run_function(f, args)
        res["paths"] = len(out.rets)
        ok_conds = [z3bool(c) for c, v, _, _ in out.rets if v[1] == "Ok"]
        err_conds = [z3bool(c) for c, v, _, _ in out.rets if v[1] == "Err"]
        accepted = z3.Or(*ok_conds) if ok_conds else z3.BoolVal(False)
        rejected = z3.Or(*err_conds) if err_conds else z3.BoolVal(False)
        spec = Spec(z3, cs)
        want = z3bool(spec.json(depth if depth is not None else 256))
        dontcare = z3bool(spec.surrogate_escape()) if n >= 8 else z3.BoolVal(False)
        s = z3.Solver()
        s.set("random_seed", seed() % 983)
        s.set("timeout", int(_G.get("query_timeout_ms", 300000)))
        s.add(*assum)
        checks = [("no panic", z3.Or(*[z3bool(c) for c, _ in out.panics]) if out.panics else z3.BoolVal(False)),
                  ("every input is accepted or rejected", z3.Not(z3.Or(accepted, rejected, *[z3bool(c) for c, _ in out.panics]))),
                  ("accepted only if RFC 8259 text", z3.And(accepted, z3.Not(want), z3.Not(dontcare))),
                  ("every RFC 8259 text is accepted", z3.And(rejected, want, z3.Not(dontcare)))]
        tq = time.time()
        verdict = "unsat"
        res["cexs"] = []
        for name, fm in checks:
            s.push()
            s.add(fm)
            # enumerate a few structurally different counterexamples (by the role of the failing input: see run())
            for _ in range(_G.get("max_cex", 6)):
                r = s.check()
                if r == z3.sat:
                    m = s.model()
                    chars = [m.eval(c, model_completion=True).as_long() for c in cs]
                    res["cexs"].append({"check": name, "chars": chars})
                    verdict = "sat"
                    # block this counterexample's character-class pattern
                    s.add(z3.Or(*[c != v for c, v in zip(cs, chars)]))
                    key = _G["classify"]("".join(chr(x) for x in chars))
                    blk = _G["region"](z3, cs, key)
                    if blk is not None:
                        s.add(z3.Not(blk))
                    else:
                        break
                elif r == z3.unsat:
                    break
                else:
                    if verdict == "unsat":
                        verdict = "unknown"
                    break
            s.pop()
        if s.check() != z3.sat:
            verdict = "vacuous"
        res.update({"verdict": verdict, "symex_s": round(tq - t0, 2), "solver_s": round(time.time() - tq + ctx.tq, 2), "blocks": ctx.blocks_executed,
                    "feasibility_queries": ctx.nq, "memo_hits": ctx.memo_hits, "models": sorted(ctx.calls_seen.keys())})
    except Unwind as e:
        res.update({"verdict": "undischarged", "why": "unwinding: " + str(e)})
    except Exception as e:
        import traceback
        res.update({"verdict": "undischarged", "why": "%s: %s" % (type(e).__name__, str(e)[:300]), "tb": traceback.format_exc()[-700:]})
    res["wall_s"] = round(time.time() - t0, 2)
    return res


# ---- roles of failing inputs (known-finding keys) ---------------------------------------------------------------------
NUM_TOKEN = re.compile(r"^[ \t\n\r\[\],:{}\"]*")


def classify(text):
    """Role of an input on which parser and RFC 8259 disagree (used to key known findings and to diversify counterexamples)."""
    toks = re.findall(r"[^ \t\n\r,\]\}\[\{:\"]+", text)
    for t in toks:
        if t in ("null", "true", "false"):
            continue
        if re.fullmatch(r"-?(0|[1-9][0-9]*)(\.[0-9]+)?([eE][+-]?[0-9]+)?", t):
            continue
        if re.fullmatch(r"[+-]?(inf|infinity|nan)", t, re.I):
            return "number-literal:non-finite-word"
        if re.fullmatch(r"\+.*", t) and _rust_float(t):
            return "number-literal:leading-plus"
        if re.fullmatch(r"-?0[0-9]+.*", t) and _rust_float(t):
            return "number-literal:leading-zero"
        if re.fullmatch(r"[+-]?\.[0-9].*", t) and _rust_float(t):
            return "number-literal:missing-integer-part"
        if re.fullmatch(r"[+-]?[0-9]+\.([eE].*)?", t) and _rust_float(t):
            return "number-literal:missing-fraction-digits"
    if re.search(r"\\u\+[0-9a-fA-F]{3}", text):
        return "string-escape:u-plus-sign"
    return None


def _rust_float(t):
    return re.fullmatch(r"[+-]?(([0-9]+(\.[0-9]*)?|\.[0-9]+)([eE][+-]?[0-9]+)?)", t) is not None


def region(z3, cs, key):
    """A formula over the characters that covers the inputs of a known-finding role (over-approximation by first token shape):
    used only to steer the solver to other kinds of counterexamples."""
    if key is None:
        return None
    n = len(cs)
    def anywhere(pred):
        return z3.Or(*[pred(i) for i in range(n)]) if n else z3.BoolVal(False)
    dig = lambda c: z3.And(c >= 48, c <= 57)
    if key == "number-literal:leading-plus":
        return anywhere(lambda i: cs[i] == 43)
    if key == "number-literal:leading-zero":
        return anywhere(lambda i: z3.And(cs[i] == 48, dig(cs[i + 1])) if i + 1 < n else z3.BoolVal(False))
    if key == "number-literal:missing-integer-part":
        return anywhere(lambda i: z3.And(cs[i] == 46, z3.Not(dig(cs[i - 1])) if i > 0 else True))
    if key == "number-literal:missing-fraction-digits":
        return anywhere(lambda i: z3.And(cs[i] == 46, z3.Not(dig(cs[i + 1])) if i + 1 < n else True))
    if key == "number-literal:non-finite-word":
        return anywhere(lambda i: z3.Or(cs[i] == ord("n"), cs[i] == ord("N"), cs[i] == ord("i"), cs[i] == ord("I")) if True else None)
    if key == "string-escape:u-plus-sign":
        return anywhere(lambda i: z3.And(cs[i] == 0x75, cs[i + 1] == 43) if i + 1 < n else z3.BoolVal(False))
    return None


def py_accepts(text, depth=None):
    """Independent reference: Python's json module in strict mode, without the NaN/Infinity extension."""
    def no_const(x):
        raise ValueError("non-finite constant")
    try:
        v = json.loads(text, parse_constant=no_const)
    except (ValueError, RecursionError):
        return False
    if depth is not None:
        def dep(x):
            if isinstance(x, list):
                return 1 + max([dep(y) for y in x] + [0])
            if isinstance(x, dict):
                return 1 + max([dep(y) for y in x.values()] + [0])
            return 0
        return dep(v) <= depth
    return True


def lone_surrogate_escape(text):
    """Some \\uXXXX escape denotes a surrogate that is not part of a high+low pair (acceptance is left open by the property)."""
    t = re.sub(r"\\u[dD][89abAB][0-9a-fA-F]{2}\\u[dD][c-fC-F][0-9a-fA-F]{2}", "", text)
    return has_surrogate_escape(t)


def has_surrogate_escape(text):
    return any(0xD800 <= int(m.group(1), 16) <= 0xDFFF for m in re.finditer(r"\\u([0-9a-fA-F]{4})", text))


def native(exe, text, depth=None):
    line = ("json " if depth is None else "jsond %d " % depth) + (text.encode("utf-8").hex() or "-")
    return mengine.native_eval(exe, [line])[0]


def _concrete(job):
    from mirsym.exec import Ctx, Exec
    from mirsym.models import COMMON, ConcStr
    from mirsym.models_json import make_models
    text, depth = job
    try:
        funcs, f = _parse_fn(max_depth=depth is not None)
        ctx = Ctx(funcs, make_models() + COMMON, mode="int", loop_bound=2000)
        out = Exec(ctx).run_function(f, [("refval", ConcStr(text))] + ([depth] if depth is not None else []))
        if out.panics and not out.rets:
            return "PANIC"
        if len(out.rets) != 1:
            return "EXEC-ERROR: %d outcomes" % len(out.rets)
        return "OK" if out.rets[0][1][1] == "Ok" else "ERR"
    except Exception as e:
        return "EXEC-ERROR: %s: %s" % (type(e).__name__, str(e)[:200])


REPO_TEST_DOCS = ['"Hello, world!"', '"\\ud83d\\ude00"', "1234", "-3.5e2", "true", "false", "null", "[1, 2, 3]", '{"a": 1, "b": [true, null]}', " [ ] ", "{ }", '"\\n\\t\\"\\\\"',
                  "[1,]", "[1,,2]", "{\"a\":1,}", "tru", "[1 2]", "\"abc", "{\"a\" 1}", "nul", "1 2", '"\\x"', "\"\\u00e9\"", "[[[[1]]]]", "{\"a\":{\"b\":{}}}"]


def run(tier):
    t0 = time.time()
    known = load_known()
    work = mengine.setup(ID)
    kengine.write_lists({})
    from mirsym.dump import dump_mir
    log("== %s tier=%s seed=%d; /repo HEAD %s%s" % (ID, tier, seed(), git_head(REPO), " +uncommitted changes" if repo_dirty() else ""))
    try:
        mir, dt = dump_mir("humphrey-json", work)
    except Exception as e:
        log("ERROR: " + str(e)[:2000])
        write_evidence(ID, tier, {"evaluations": 0, "distinct_nontrivial": 0, "explanation": "MIR dump failed"}, [], time.time() - t0, 0)
        return 2
    _G.update({"mir": mir, "budget": 3000 if tier == "thorough" else 900, "classify": classify, "region": region})
    log("   MIR of humphrey-json dumped from the working tree in %.1fs (%d lines)" % (dt, mir.count("\n")))
    exe_dev = mengine.build_mtool("debug")
    exe_rel = mengine.build_mtool("release")
    # ---- translator validation
    rnd = random.Random(seed() * 19 + 2)
    alpha = list('[]{},:" \n0123456789.-+eEtrufalsn\\/b') + ["é", "\U0001d11e", "\t"]
    docs = [(d, None) for d in REPO_TEST_DOCS] + [("".join(rnd.choice(alpha) for _ in range(rnd.randint(0, 9))), None) for _ in range(250)] + \
           [("[[1]]", 1), ("[[1]]", 2), ("[{}]", 1), ("{\"a\":[]}", 2), ("[]", 0), ("1", 0)]
    nat = [native(exe_dev, t, d) for t, d in docs]
    enc = mengine.pmap(_concrete, docs)
    cannot = [e for e in enc if e.startswith("EXEC-ERROR")]
    if cannot:
        log("UNDISCHARGED: the MIR executor cannot run the current JSON parser (%s) — property not decided on this tree" % cannot[0])
        # native probe (sampling, reported as such; it discharges nothing): the documents above plus boundary documents, real parser vs RFC 8259
        extra = ["[ ]", "[\t]", "[\n]", "[[ ]]", "{ }", "{\n}", "[]\x0c", "{}\x0c", "1 \x0c", "\x0c1", "1\x0b", "\u00a01", "1\u00a0", "\u20281", "[1\x0c]", "\ufeff1", "[1, ]", "[ ,1]", "{\"a\" :1}", "{\"a\": 1 ,\"b\":2}",
                 "\"\\u12\"", "\"\\ud800\"", "\"\\udc00\\ud800\"", "\"\x1f\"", "\"\x7f\"", "-", "-0", "0.", ".0", "1e", "1e+", "01", "+1", "1.0e-2", "tRue", "nulL", "\"\\/\"", "\"\\a\""]
        probe = [(t, d) for t, d in docs] + [(t, None) for t in extra]
        nviol = 0
        for t, d in probe:
            got_d, got_r = native(exe_dev, t, d), native(exe_rel, t, d)
            want = py_accepts(t, d)
            key = classify(t) if not want else None
            if key and (ID, key) in known:
                continue
            if lone_surrogate_escape(t):
                continue          # the property leaves unpaired surrogate escapes open
            if any(g == "PANIC" or (g == "OK") != want for g in (got_d, got_r)):
                os.makedirs(REPLAY_DIR, exist_ok=True)
                path = os.path.join(REPLAY_DIR, "C13-json.json")
                with open(path, "w") as f:
                    json.dump({"property": ID, "engine": "M", "text": t, "depth": d, "native_dev": got_d, "native_release": got_r, "rfc8259_valid": want,
                               "check": "native probe (the encoding cannot execute this tree)", "how": "./check C13 --replay " + path}, f, indent=1)
                log("VIOLATION property=%s replay=%s" % (ID, path))
                log("   Value::parse(%r) -> %s natively; RFC 8259 says %s (native probe)" % (t, got_d, "valid" if want else "invalid"))
                nviol = 1
                break
        write_evidence(ID, tier, {"evaluations": len(docs), "distinct_nontrivial": 0, "explanation": "encoding cannot execute the current code: " + cannot[0] + "; native probe of %d documents only" % len(probe), "samples": [cannot[0]]}, [], time.time() - t0, nviol)
        return 1 if nviol else 0
    bad = [(docs[i], nat[i], enc[i]) for i in range(len(docs)) if nat[i] != enc[i]]
    if bad:
        log("MACHINERY-ERROR: translator validation failed: encoding and native parser disagree on %d of %d documents, e.g. %r" % (len(bad), len(docs), bad[0]))
        write_evidence(ID, tier, {"evaluations": len(docs), "distinct_nontrivial": 0, "explanation": "translator validation failed", "samples": [repr(bad[0])]}, [], time.time() - t0, 0)
        return 2
    log("   translator validation: encoding == native Value::parse on %d documents (repository test documents + seeded random strings)" % len(docs))

    NMAX = 6 if tier == "thorough" else 5
    jobs = []
    for n in range(0, NMAX + 1):
        if n <= 3:
            jobs.append((n, None, None))
        else:
            jobs += [(n, k, None) for k in range(N_CLASSES)]
    jobs += [(n, None, d) for n in (2, 3, 4) for d in (0, 1)]          # depth-limit logic through parse_max_depth
    if tier == "thorough":
        jobs += [(5, None, 1), (5, None, 2)]
    jobs.sort(key=lambda j: -j[0])
    results = mengine.pmap(_obligation, jobs, jobs=int(os.environ.get("VERIF_JOBS", "14")))
    results.sort(key=lambda r: (r["n"], r["cls"] if r["cls"] is not None else -1, r["depth"] if r["depth"] is not None else -1))

    violations, known_hits, machinery, undis = [], {}, [], []
    for r in results:
        if r["verdict"] == "sat":
            for cex in r.get("cexs", []):
                text = "".join(chr(c) for c in cex["chars"])
                nd, nr = native(exe_dev, text, r["depth"]), native(exe_rel, text, r["depth"])
                want = py_accepts(text, r["depth"])
                rep = {"text": text, "depth": r["depth"], "check": cex["check"], "native_dev": nd, "native_release": nr, "reference_accepts": want, "n": r["n"]}
                if has_surrogate_escape(text):
                    continue
                disagree = lambda o: o == "PANIC" or (o == "OK") != want
                if not (disagree(nd) or disagree(nr)):
                    machinery.append(rep)
                    continue
                key = classify(text)
                rep["key"] = key
                if key and (ID, key) in known:
                    known_hits.setdefault(key, rep)
                else:
                    violations.append(rep)
        elif r["verdict"] != "unsat":
            undis.append(r)
    rc = 0
    for key, rep in sorted(known_hits.items()):
        log("KNOWN-FINDING: property=%s key=%s %s [e.g. %r is %s by Value::parse]" % (ID, key, known[(ID, key)], rep["text"], "accepted" if rep["native_dev"] == "OK" else rep["native_dev"]))
    os.makedirs(REPLAY_DIR, exist_ok=True)
    if violations:
        rep = violations[0]
        path = os.path.join(REPLAY_DIR, "C13-json.json")
        with open(path, "w") as f:
            json.dump(dict(rep, property=ID, engine="M", how="./check C13 --replay " + path), f, indent=1)
        log("VIOLATION property=%s replay=%s" % (ID, path))
        kinds = sorted(set(str(v.get("key")) for v in violations))
        log("   Value::parse%s(%r) -> %s (release %s), but the text %s RFC 8259 JSON (obligation n=%d: %s); %d counterexamples, roles: %s" % (
            "" if rep["depth"] is None else "_max_depth[%d]" % rep["depth"], rep["text"], rep["native_dev"], rep["native_release"],
            "is" if rep["reference_accepts"] else "is not", rep["n"], rep["check"], len(violations), ", ".join(kinds)))
        rc = 1
    for rep in machinery[:3]:
        log("MACHINERY-ERROR: z3 counterexample %r (%s) is handled correctly by the native parser (%s) — encoding/specification problem, not reported" % (rep["text"], rep["check"], rep["native_dev"]))
        rc = rc or 2
    for r in undis:
        log("UNDISCHARGED: n=%d class=%s depth=%s — %s" % (r["n"], r["cls"], r["depth"], r.get("why", r["verdict"])))
    # ---- value clause: templates (concrete structure, symbolic holes) — the value tree equals what the text denotes
    from . import c13_val
    try:
        vp = c13_val.run_part(tier, mir)
    except Exception as e:
        log("UNDISCHARGED: value templates — %s" % str(e)[:500])
        vp = {"results": [], "violations": [], "known_hits": [], "machinery": [], "undischarged": [{"template": "all", "why": str(e)[:300]}], "validation": {}}
    for v in vp["known_hits"]:
        log("KNOWN-FINDING: property=%s key=%s %s [Value::parse(%r) -> %s, the text denotes %s]" % (ID, v["key"], known[(ID, v["key"])], v["text"], v["native_dev"][:80], v["expected"][:80]))
    for i, v in enumerate(vp["violations"][:3]):
        path = os.path.join(REPLAY_DIR, "C13-value-%d.json" % i)
        with open(path, "w") as f:
            json.dump(dict(v, property=ID, engine="M", how="./check C13 --replay " + path), f, indent=1)
        log("VIOLATION property=%s replay=%s" % (ID, path))
        log("   Value::parse(%r) -> %s (release %s); the text denotes %s (template %s: %s)" % (v["text"], v["native_dev"][:120], v["native_release"][:120], v["expected"][:120], v.get("template"), v["failed"][:120]))
        rc = 1
    for m in vp["machinery"][:3]:
        log("MACHINERY-ERROR: " + m)
        rc = rc or 2
    for r in vp["undischarged"][:5]:
        log("UNDISCHARGED: value template %s — %s" % (r.get("template"), r.get("why")))
    okv = [r for r in vp["results"] if r["verdict"] == "unsat"]
    log("   value templates: %d/%d discharged (value tree == what the text denotes; reject templates), translator validation on %s documents" % (len(okv), len(vp["results"]), vp["validation"].get("documents")))
    violations = violations + [dict(v, n=len(v["text"]), check=v["failed"]) for v in vp["violations"]]
    # ---- serialiser clause: string values of n symbolic characters -> valid RFC 8259 literal denoting the same characters
    from . import c13_ser
    try:
        sp = c13_ser.run_part(tier, mir)
    except Exception as e:
        log("UNDISCHARGED: serialiser — %s" % str(e)[:500])
        sp = {"results": [], "violations": [], "machinery": [], "undischarged": [{"job": "all", "why": str(e)[:300]}], "validation": {}}
    for v in sp["violations"][:1]:
        path = os.path.join(REPLAY_DIR, "C13-serialize.json")
        with open(path, "w") as f:
            json.dump(dict(v, property=ID, engine="M", how="./check C13 --replay " + path), f, indent=1)
        log("VIOLATION property=%s replay=%s" % (ID, path))
        log("   serialize(String(%r)) = %r (release %r): not a strict RFC 8259 literal that parses back to the value (%s)" % ("".join(chr(c) for c in v["chars"]), v["native_dev"], v["native_release"], v["failed"][:100]))
        rc = 1
        violations = violations + [dict(v, n=len(v["chars"]), check=v["failed"], text=v["native_dev"])]
    for m in sp["machinery"][:3]:
        log("MACHINERY-ERROR: " + m)
        rc = rc or 2
    for r in sp["undischarged"][:5]:
        log("UNDISCHARGED: serialiser %s — %s" % (r.get("job"), r.get("why")))
    oks = [r for r in sp["results"] if r["verdict"] == "unsat"]
    log("   serialiser: %d/%d obligations discharged (string values of 0..%d symbolic characters), translator validation on %s values" % (len(oks), len(sp["results"]), max([r["n"] for r in sp["results"]] + [0]), sp["validation"].get("values")))
    ok = [r for r in results if r["verdict"] == "unsat"]
    cov = {
        "serialiser": {"obligations": len(sp["results"]), "discharged": len(oks), "validation": sp["validation"], "undischarged": sp["undischarged"],
                       "function_encoded": "humphrey-json/src/serialize.rs: Value::serialize, Value::serialize_pretty -> string_to_string (write! through the fmt::Arguments model)",
                       "bounds": "Value::String of 0..%d symbolic Unicode scalar values" % max([r["n"] for r in sp["results"]] + [0]),
                       "outside": "numbers (f64 Display), arrays/objects and indentation layout, object keys (same string_to_string)",
                       "std_models_trusted": sorted(set(m for r in sp["results"] for m in r.get("models", [])))},
        "evaluations": len(results) + len(vp["results"]) + len(sp["results"]), "distinct_nontrivial": len([r for r in results if r["verdict"] in ("unsat", "sat") and r["n"] >= 1]) + len([r for r in vp["results"] if r["verdict"] in ("unsat", "sat")]),
        "rule": "one evaluation = one obligation (input length n, class of the first character, depth limit): z3 decides `no panic`, `accepted => RFC 8259 text`, `RFC 8259 text => accepted` for ALL strings of n Unicode scalar values in that class; non-trivial = n >= 1 with a verdict",
        "samples": [{k: r.get(k) for k in ("n", "cls", "depth", "verdict", "paths", "blocks", "symex_s", "solver_s")} for r in (results[-3:] + results[:1])],
        "obligations": len(results) + len(vp["results"]) + len(sp["results"]), "discharged": len(ok) + len(okv) + len(oks),
        "states": max(1, sum(r.get("blocks", 0) for r in results)), "transitions": max(1, sum(r.get("feasibility_queries", 0) + 4 for r in results)),
        "traces_validated_against_impl": len(docs) + len(violations) + len(known_hits) + len(machinery),
        "undischarged": [{"n": r["n"], "cls": r["cls"], "depth": r["depth"], "why": r.get("why", r["verdict"])} for r in undis],
        "violations_reproduced": violations[:8], "known_findings_seen": list(known_hits.values()),
        "functions_encoded": ["humphrey-json/src/parser.rs: Value::parse, Value::parse_max_depth, Parser::{new, next, traceback, parse_value, parse_string, parse_array, parse_object, parse_literal, expect_eof, flush_whitespace, inc_depth, dec_depth} and their closures, quiet_assert, is_whitespace, is_literal (MIR of the current working tree, recursion inlined)"],
        "std_models_trusted": sorted(set(m for r in results for m in r.get("models", []))),
        "specification": "RFC 8259 recogniser as z3 formulas over the same characters (span dynamic programming: ws, literals, number automaton, string automaton with escapes, arrays, objects, nesting depth) in vlib/props/c13.py; Python's json module (strict, no NaN/Infinity) judges native replays",
        "bounds": {"input_length": "0..%d characters (ALL Unicode scalar values)" % NMAX, "depth_limit": "parse_max_depth with limits 0 and 1 on inputs of 2..4 characters; Value::parse's limit 256 is never reached within the bound"},
        "outside_bounds": ["documents longer than %d characters (e.g. objects with two members, \\u escapes need >= 8)" % NMAX, "numeric VALUES and f64 formatting (floating point: the number token handed to f64::from_str is compared, the conversion is std's)", "value trees other than the listed templates",
                           "the serialiser beyond string values (numbers, container layout, indentation)", "nesting depth 256, stack use"],
        "translator_validation": {"documents": len(docs), "disagreements": 0},
        "value_templates": {"templates": len(vp["results"]), "discharged": len(okv), "validation": vp["validation"], "undischarged": vp["undischarged"], "known_findings_seen": vp["known_hits"],
                            "names": [r["template"] for r in vp["results"]],
                            "obligation": "every path returns Ok and the value tree equals the one the text denotes (strings character by character incl. escapes and surrogate pairs, number tokens as written, members in order); reject templates never return Ok",
                            "std_models_trusted": sorted(set(m for r in vp["results"] for m in r.get("models", [])))},
        "solver_time_s": round(sum(r.get("solver_s", 0) for r in results), 2), "symex_time_s": round(sum(r.get("symex_s", 0) for r in results), 2),
        "engines": {"mirsym": "own MIR symbolic executor", "z3": "5.1.0"}, "repo_head": git_head(REPO), "repo_dirty": repo_dirty(), "exhaustive": False,
        "explanation": "bounded: every string of the listed lengths over all of Unicode",
    }
    write_evidence(ID, tier, cov, ["std models (Peekable<Chars>, String::push, Vec push, f64::from_str as its documented grammar, u16::from_str_radix incl. the leading '+' std accepts, char::from_u32, decode_utf16)", "z3 is sound; the RFC 8259 recogniser in c13.py is the specification"], time.time() - t0, len(violations))
    log("== %s: %d/%d obligations discharged, %d reproduced violation(s), %d known finding role(s), %d undischarged; %.0fs wall" % (ID, len(ok), len(results), len(violations), len(known_hits), len(undis), time.time() - t0))
    return rc


def replay(d, path):
    mengine.setup(ID)
    kengine.write_lists({})
    if d.get("kind") == "serialize":
        from . import c13_ser
        if c13_ser.replay(d):
            log("VIOLATION property=%s replay=%s" % (ID, path))
            return 1
        return 0
    if d.get("kind") == "value":
        from . import c13_val
        if c13_val.replay(d):
            log("VIOLATION property=%s replay=%s" % (ID, path))
            return 1
        return 0
    exe = mengine.build_mtool("debug")
    got = native(exe, d["text"], d.get("depth"))
    want = py_accepts(d["text"], d.get("depth"))
    log("Value::parse(%r) -> %s ; RFC 8259: %s" % (d["text"], got, "valid" if want else "invalid"))
    if got == "PANIC" or (got == "OK") != want:
        log("VIOLATION property=%s replay=%s" % (ID, path))
        return 1
    return 0
