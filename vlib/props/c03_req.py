"""C03 (HTTP request parser) — `never panics, never allocates a length the peer merely claims`, engine M in integer mode.

The MIR of Request::from_stream (current tree) is executed on MALFORMED-request templates: a concrete prefix, then holes that are
arbitrary ASCII bytes (0..127, so CR, LF, ':', ' ', '?' and digits may appear anywhere and every structural path of the parser is
taken), optionally a concrete multi-byte UTF-8 character at a slicing position, invalid UTF-8, and then the end of the stream.
Obligation: on every path the parser returns a value or an error — no panic (MIR assert / unwrap / slice index) — and every
`vec![0; n]` is bounded by 64 KiB + 16 x the bytes supplied. Counterexamples are replayed through the native parser
(`mtool req`: panic caught; `mtool reqalloc`: largest single allocation request measured by a tracking allocator).
"""
import itertools, json, os, random, re, time

from ..common import *
from .. import mengine
from . import c02_req

_G = {}
HEAPF = -7
ANY = [(0x00, 0x7F)]
DIG = [(0x30, 0x39)]


def L(t):
    return ("lit", t)


def A(name, k):
    return ("hole", name, k, "any")


def D(name, k):
    return ("hole", name, k, "digit")


CLASSES = {"any": ANY, "digit": DIG}
START = "GET / HTTP/1.1\r\n"


def templates(tier):
    T = {}
    # garbage where the start line should be (the first byte is read separately)
    for k in (1, 2, 3) + ((4, 5) if tier == "thorough" else (4,)):
        T["start_%d" % k] = [A("a", k)]
    T["start_sp"] = [L("GET "), A("a", 2), L(" "), A("b", 2)]
    T["start_ver"] = [L("GET / "), A("a", 3)]
    # garbage where a header line should be
    for k in (1, 2, 3) + ((4,) if tier == "thorough" else ()):
        T["hdr_%d" % k] = [L(START), A("a", k)]
    T["hdr_colon"] = [L(START + "A:"), A("a", 2), L("\n")]
    T["hdr_second"] = [L(START + "Host: h\r\n"), A("a", 2)]
    # multi-byte characters at the slicing position of a header line (2-, 3-, 4-byte), with arbitrary ASCII around them
    for nm, ch in (("u2", "\u00e9"), ("u3", "\u20ac"), ("u4", "\U0001d11e")):
        T["hdr_%s_end" % nm] = [L(START), A("a", 1), L(ch + "\n")]
        T["hdr_%s_mid" % nm] = [L(START), L(ch), A("a", 1), L("\n")]
        T["hdr_%s_only" % nm] = [L(START + ch + "\n")]
    T["hdr_u2_colon"] = [L(START + "A:\u00e9"), A("a", 1), L("\n")]
    T["start_u2"] = [L("GET /\u00e9 HTTP/1.1\u00e9\n")]
    T["start_u2b"] = [L("\u00e9"), A("a", 1), L("\n")]
    T["bad_utf8_start"] = [("raw", [0x47, 0xFF, 0x0A])]
    T["bad_utf8_hdr"] = [L(START), ("raw", [0x41, 0x3A, 0xC3, 0x0A])]
    # Content-Length claims
    T["cl_digit"] = [L("POST / HTTP/1.1\r\nContent-Length: "), D("d", 1), L("\r\n\r\n"), A("x", 2)]
    T["cl_any2"] = [L("POST / HTTP/1.1\r\nContent-Length:"), A("d", 2), L("\r\n\r\nab")]
    T["cl_digits6"] = [L("POST / HTTP/1.1\r\nContent-Length: "), D("d", 6), L("\r\n\r\n")]
    T["cl_huge"] = [L("POST / HTTP/1.1\r\nContent-Length: 18446744073709551615\r\n\r\n")]
    T["cl_gib"] = [L("POST / HTTP/1.1\r\nContent-Length: 1073741824\r\n\r\nxyz")]
    T["cl_overflow"] = [L("POST / HTTP/1.1\r\nContent-Length: 18446744073709551616\r\n\r\n")]
    T["cl_short_body"] = [L("POST / HTTP/1.1\r\nContent-Length: 5\r\n\r\nab")]
    if tier == "thorough":
        T["hdr_two_lines"] = [L(START), A("a", 2), L("\n"), A("b", 2)]
        T["cl_digits12"] = [L("POST / HTTP/1.1\r\ncontent-length: "), D("d", 12), L("\r\n\r\n"), A("x", 1)]
        T["start_6"] = [L("G"), A("a", 5)]
    return T


def instantiate(z3, segs, concrete=None):
    inp, assume, holes = [], [], {}
    for seg in segs:
        if seg[0] == "lit":
            inp += list(seg[1].encode("utf-8"))
        elif seg[0] == "raw":
            inp += list(seg[1])
        else:
            _, name, k, cls = seg
            if concrete is not None:
                cs = list(concrete[name])
            else:
                cs = [z3.Int("%s%d" % (name, i)) for i in range(k)]
                for c in cs:
                    assume.append(z3.Or(*[z3.And(c >= a, c <= b) for a, b in CLASSES[cls]]))
            holes[name] = cs
            inp += cs
    return inp, assume


def _job(name):
    t0 = time.time()
    res = {"template": name, "verdict": "unsat", "fails": [], "n_checks": 0, "paths": 0}
    try:
        c02_req._G.update({"mir": _G["mir"], "tier": _G["tier"], "budget": _G.get("budget", 600)})
        z3, f, mk = c02_req._setup()
        from mirsym.exec import z3bool
        tname, plan = c02_req.split_plan(name)
        res["plan"] = plan
        segs = templates(_G["tier"])[tname]
        inp, assume = instantiate(z3, segs)
        ctx, ex = mk(assume)
        out = c02_req.run_parser(ex, f, inp, c02_req.cuts_for(plan, len(inp)))
        res["paths"] = len(out.rets) + len(out.panics)
        res["symex_s"] = round(time.time() - t0, 2)
        solver_s = 0.0
        for pc, msg in out.panics:
            s = z3.Solver(); s.set("timeout", 60000)
            s.add(*assume)
            if pc is not True:
                s.add(z3bool(pc))
            t = time.time(); r = s.check(); solver_s += time.time() - t
            res["n_checks"] += 1
            if r != z3.unsat:
                m = s.model() if r == z3.sat else None
                kind = "alloc" if str(msg).startswith("ALLOC") else "panic"
                res["fails"].append({"what": str(msg)[:160], "kind": kind, "status": str(r), "input": c02_req._model_bytes(z3, m, inp) if m is not None else None})
        cover = [z3bool(pc) if pc is not True else z3.BoolVal(True) for pc, *_ in out.rets] + [z3bool(pc) if pc is not True else z3.BoolVal(True) for pc, _ in out.panics]
        s = z3.Solver(); s.set("timeout", 60000)
        s.add(*assume)
        s.add(z3.Not(z3.Or(*cover)) if cover else z3.BoolVal(True))
        t = time.time(); r = s.check(); solver_s += time.time() - t
        res["n_checks"] += 1
        if r != z3.unsat:
            res["fails"].append({"what": "the explored paths cover every value of the holes", "kind": "cover", "status": str(r), "input": None})
        res["solver_s"] = round(solver_s, 2)
        res["blocks"] = ctx.blocks_executed
        if res["fails"]:
            res["verdict"] = "sat" if any(x["status"] == "sat" for x in res["fails"]) else "unknown"
    except Exception as e:
        import traceback
        res["verdict"] = "error"
        res["why"] = (str(e) + " | " + traceback.format_exc().strip().split("\n")[-3].strip())[:400]
    res["wall_s"] = round(time.time() - t0, 2)
    return res


def _concrete(data):
    try:
        c02_req._G.update({"mir": _G["mir"], "tier": _G["tier"]})
        z3, f, mk = c02_req._setup()
        ctx, ex = mk()
        out = c02_req.run_parser(ex, f, list(data))
        if out.panics and not out.rets:
            # an over-sized allocation is not a crash natively (calloc maps lazily): the read then fails
            return "ERR Stream" if str(out.panics[0][1]).startswith("ALLOC") else "PANIC"
        if len(out.rets) != 1:
            return "ENGINE-ERROR %d outcomes" % len(out.rets)
        return c02_req.fmt_engine(ex, out.rets[0][1])
    except Exception as e:
        return "ENGINE-ERROR " + str(e)[:200]


def role(data, kind):
    """Role of a failing input (keys of known findings)."""
    if kind == "alloc":
        return "request:content-length-allocation"
    try:
        data.decode("ascii")
        return "request:panic-ascii"
    except UnicodeDecodeError:
        return "request:header-line-slice-inside-multibyte-char"


def native_check(exe, data, kind, plan=None):
    """-> (deviates?, observation)"""
    if kind == "alloc":
        out = mengine.native_eval(exe, ["reqalloc " + (data.hex() or "-")])[0]
        m = re.search(r"alloc=(\d+)", out)
        big = m is not None and int(m.group(1)) > 65536 + 16 * len(data)
        return big or out.startswith("PANIC"), out
    out = mengine.native_eval_guarded(exe, "req %d %s" % (c02_req.native_plan(plan), data.hex() or "-"), timeout=10)
    return out in ("PANIC", "HANG"), out


def concretise_alloc(data):
    """A claimed length the native run can allocate lazily (1 GiB) instead of one that aborts the process: used only for the replay."""
    return re.sub(rb"(?i)(content-length:[ \t]*)\+?[0-9]{10,}", rb"\g<1>1073741824", data)


def run_part(tier, work, mir):
    import z3
    _G.update({"mir": mir, "tier": tier, "budget": 600 if tier == "quick" else 1800})
    known = load_known()
    res = {"results": [], "violations": [], "known_hits": [], "machinery": [], "undischarged": [], "validation": {}}
    exe = mengine.build_mtool("debug")
    exe_rel = mengine.build_mtool("release")
    # translator validation: concrete instances of the templates (and mutations) through engine and native parser
    rnd = random.Random(seed() * 77 + 5)
    T = templates(tier)
    names = sorted(T)
    reqs = []
    for i in range(50 if tier == "quick" else 200):
        segs = T[names[i % len(names)]]
        conc = {seg[1]: [rnd.choice([rnd.randrange(0, 128), 0x0A, 0x0D, 0x3A, 0x20, 0x30 + rnd.randrange(10)]) if seg[3] == "any" else 0x30 + rnd.randrange(10) for _ in range(seg[2])] for seg in segs if seg[0] == "hole"}
        inp, _ = instantiate(z3, segs, conc)
        data = bytes(inp)
        if b"ontent-" in data and re.search(rb"(?i)content-length:[ \t]*\+?[0-9]{7,}", data):
            continue            # a huge claimed length: the native side is exercised by the replay with a lazily allocatable size
        reqs.append(data)
    c02_req._G.update({"mir": mir, "tier": tier})
    eng = mengine.pmap(_concrete, reqs)
    nat = mengine.native_eval(exe, ["req %d %s" % (rnd.choice([0, 1]), d.hex() or "-") for d in reqs])
    def same(e, n):
        return e == n or (e == "PANIC" and n == "PANIC")
    mism = [{"request": d.hex()[:120], "engine": e[:160], "native": n[:160]} for d, e, n in zip(reqs, eng, nat) if not e.startswith("ENGINE-ERROR") and not same(e, n)]
    cannot = [e for e in eng if e.startswith("ENGINE-ERROR")]
    res["validation"] = {"inputs": len(reqs), "mismatches": len(mism), "engine_cannot_run": len(cannot), "examples": mism[:3], "native_panics_seen": sum(1 for n in nat if n == "PANIC")}
    if mism:
        res["machinery"].append("translator validation: engine and native parser disagree on %d/%d malformed requests, e.g. %s" % (len(mism), len(reqs), json.dumps(mism[0])[:400]))
        return res
    if cannot:
        res["undischarged"].append({"template": "all", "why": cannot[0][:300]})
        # native probe (sampling): any of the validation inputs that panics natively is a reproduced violation
        for d, n in zip(reqs, nat):
            if n == "PANIC":
                _classify(res, known, {"template": "native probe", "input": d, "kind": "panic", "what": "native probe: panic", "native_dev": n, "native_release": mengine.native_eval(exe_rel, ["req 0 " + (d.hex() or "-")])[0]})
                break
        return res
    rs = mengine.pmap(_job, names + [n + "@bw" for n in names])          # every malformed template also one byte per read
    res["results"] = rs
    for r in rs:
        if r["verdict"] == "unsat":
            continue
        if r["verdict"] in ("error", "unknown") and not any(f["status"] == "sat" for f in r["fails"]):
            res["undischarged"].append({"template": r["template"], "why": r.get("why") or "; ".join(f["what"] + " -> " + f["status"] for f in r["fails"])[:300]})
            continue
        seen_roles = set()
        for f in r["fails"]:
            if f["status"] != "sat" or not f.get("input"):
                continue
            data = bytes.fromhex(f["input"])
            rl = role(data, f["kind"])
            if rl in seen_roles:
                continue
            seen_roles.add(rl)
            rdata = concretise_alloc(data) if f["kind"] == "alloc" else data
            dev_d, obs_d = native_check(exe, rdata, f["kind"], r.get("plan"))
            dev_r, obs_r = native_check(exe_rel, rdata, f["kind"], r.get("plan"))
            item = {"template": r["template"], "input": rdata, "kind": f["kind"], "what": f["what"], "native_dev": obs_d, "native_release": obs_r}
            if dev_d or dev_r:
                _classify(res, known, item)
            else:
                res["machinery"].append("counterexample for template %s (%s) does not reproduce natively: %s" % (r["template"], f["what"][:100], obs_d))
    return res


def _classify(res, known, item):
    data = item["input"]
    key = role(data, item["kind"])
    rep = {"request_hex": data.hex(), "text": data.decode("latin-1")[:200], "kind": item["kind"], "failed": item["what"], "native_dev": item["native_dev"], "native_release": item["native_release"],
           "template": item["template"], "key": key}
    if ("C03", key) in known:
        if key not in [k["key"] for k in res["known_hits"]]:
            res["known_hits"].append(rep)
    else:
        if key not in [v["replay"]["key"] for v in res["violations"]]:
            res["violations"].append({"template": item["template"], "replay": rep})


def replay(d, path):
    exe = mengine.build_mtool("debug")
    exe_rel = mengine.build_mtool("release")
    r = d["replay"]
    data = bytes.fromhex(r["request_hex"])
    dev_d, obs_d = native_check(exe, data, r["kind"])
    dev_r, obs_r = native_check(exe_rel, data, r["kind"])
    log("replay %r (%s)" % (r["text"][:160], r["kind"]))
    log("   native (dev)     : %s" % obs_d[:200])
    log("   native (release) : %s" % obs_r[:200])
    if dev_d or dev_r:
        log("VIOLATION property=C03 replay=%s" % path)
        return 1
    log("not reproduced on the current tree")
    return 0
