"""C07 — responses serialise to valid HTTP and parse back (claimed: status tables only)."""
from ..kengine import H

ID = "C07"
MODULE = "c07"
ENGINE = "KM"
TECHNIQUE = "status tables: Kani/CBMC bounded model checking of the compiled code for every u16; response parser: symbolic execution of the MIR of Response::from_stream / parse_chunk on conforming-response templates with symbolic holes -> z3; counterexamples replayed natively"

META = {
    "functions_encoded": [
        "humphrey/src/http/status.rs: <StatusCode as TryFrom<u16>>::try_from",
        "humphrey/src/http/status.rs: <u16 as From<StatusCode>>::from, <&str as From<StatusCode>>::from",
    ],
    "reference_model": "kani/src/c07.rs::registered (RFC 2616/7231/9110 code -> reason phrase table)",
    "stubs": [],
    "assumes": [],
    "outside_bounds": [
        "serialisation layout of Vec<u8>::from(Response) (format!-based status line), Set-Cookie assembly",
        "Response::from_stream (BufReader/String/dyn Error: not encodable, DESIGN §2), chunked decoding, read segmentation",
        "HTTP client and redirect following (sockets)",
    ],
}


def harnesses():
    hs = [H("c07_status_tables", "status_tables", 40, "quick",
            "for EVERY u16: try_from accepts exactly the 39 modelled codes; u16::from and try_from are mutually inverse; the phrase is the registered one")]
    hs.append(H("c07_status_codes", "status_codes", 4, "quick", "for EVERY u16: accept set == the 39 modelled codes and u16::from(try_from(c)) == c"))
    hs.append(H("c07_status_class", "status_class", 44, "quick", "for EVERY u16: accepted codes are 100..599 and their reason phrases are 2..40 printable ASCII bytes (no CR/LF that could break the status line)"))
    for h in hs:
        h.module = MODULE
    return hs


def run(tier, run_k):
    import json, os, time
    from ..common import WORK, REPLAY_DIR, log, write_evidence
    from . import c07_resp
    k = run_k()
    t0, rc, cov, assumptions, nviol = k["t0"], k["rc"], k["cov"], k["assumptions"], k["violations"]
    from mirsym.dump import dump_mir
    work = os.path.join(WORK, ID)
    try:
        mir, dt = dump_mir("humphrey", work, features="verif")
        d = c07_resp.run_part(tier, work, mir, "ok")
    except Exception as e:
        log("UNDISCHARGED: response parser — %s" % str(e)[:500])
        d = {"results": [], "violations": [], "known_hits": [], "machinery": [], "undischarged": [{"template": "all", "why": str(e)[:300]}], "validation": {}}
    os.makedirs(REPLAY_DIR, exist_ok=True)
    for i, r in enumerate(d["violations"][:2]):
        path = os.path.join(REPLAY_DIR, "C07-response-%d.json" % i)
        with open(path, "w") as f:
            json.dump({"property": ID, "engine": "M", "kind": "response", "replay": r["replay"], "how": "./check C07 --replay " + path}, f, indent=1)
        log("VIOLATION property=%s replay=%s" % (ID, path))
        rp = r["replay"]
        log("   response %r: %s" % (rp["text"][:140], rp["failed"][:140]))
        log("   natively dev: %s / release: %s%s" % (rp["native_dev"][:160], rp["native_release"][:160], ("   expected: " + rp["expected"][:160]) if rp.get("expected") else ""))
        rc = 1
        nviol += 1
    for m in d["machinery"]:
        log("MACHINERY-ERROR: response parser — " + m[:600])
        rc = rc or 2
    for r in d["undischarged"][:6]:
        log("UNDISCHARGED: response parser template %s — %s" % (r.get("template"), r.get("why")))
    ok = [r for r in d["results"] if r["verdict"] == "unsat"]
    log("   response parser (engine M): %d/%d conforming-response templates discharged, %d paths, %d z3 checks, translator validation on %s responses" % (
        len(ok), len(d["results"]), sum(r.get("paths", 0) for r in d["results"]), sum(r.get("n_checks", 0) for r in d["results"]), d["validation"].get("inputs")))
    cov["evaluations"] += len(d["results"])
    cov["distinct_nontrivial"] += len(ok)
    cov["obligations"] = cov.get("obligations", 0) + len(d["results"])
    cov["discharged"] = cov.get("discharged", 0) + len(ok)
    cov["states"] = cov.get("states", 0) + sum(r.get("blocks", 0) for r in d["results"])
    cov["transitions"] = cov.get("transitions", 0) + sum(r.get("n_checks", 0) for r in d["results"])
    cov["traces_validated_against_impl"] = cov.get("traces_validated_against_impl", 0) + (d["validation"].get("inputs") or 0)
    cov["solver_time_s"] = round(cov.get("solver_time_s", 0) + sum(r.get("solver_s", 0) for r in d["results"]), 2)
    cov["response_parser"] = {
        "functions_encoded": ["humphrey/src/http/response.rs: Response::from_stream, parse_chunk, safe_assert and their closures; status.rs <StatusCode as TryFrom<u16>>::try_from, From<StatusCode> for u16; headers.rs HeaderType::from, Headers::{new, add, get, remove} (MIR of the current tree)"],
        "templates": {r["template"]: {k2: r.get(k2) for k2 in ("verdict", "paths", "n_checks", "wall_s", "why")} for r in d["results"]},
        "obligation": "for every value of the holes: Ok(Response) with the version sent, the status whose number is in the status line (every number Humphrey models accepted, others rejected), the typed header list in order with values as sent (leading whitespace removed — with or without a space after the colon), and the payload: Content-Length bytes, or the concatenated chunks with Transfer-Encoding replaced by the right Content-Length; exactly the response consumed; no panic",
        "bounds": "status 100..599 as three symbolic digits with a symbolic reason; header values of 1..4 (thorough 18) characters; Content-Length bodies of 0, 2, 3 (64) arbitrary bytes; chunked bodies of 0..2 (3) chunks with sizes 1..10 (31) in upper/lower-case hex, arbitrary chunk bytes; no trailers, no chunk extensions",
        "translator_validation": d["validation"],
        "undischarged": d["undischarged"][:10],
        "violations": [r["replay"] for r in d["violations"]][:3],
    }
    cov["functions_encoded"] = list(cov.get("functions_encoded", [])) + cov["response_parser"]["functions_encoded"]
    cov.setdefault("engines", {})["mirsym"] = "own MIR symbolic executor (/verif/mirsym) + z3 5.1.0"
    assumptions = assumptions + ["response parser: BufReader model over the scripted bytes (read segmentation only sampled natively), the listed std models; validated per run against the native parser on concrete well-formed and malformed responses"]
    write_evidence(ID, tier, cov, assumptions, time.time() - t0, nviol)
    log("== %s: %d/%d obligations discharged (K status tables + M response parser), %d violation(s); %.0fs wall" % (ID, cov["discharged"], cov["obligations"], nviol, time.time() - t0))
    return rc


def replay(d, path):
    from .. import mengine, kengine
    from . import c07_resp
    mengine.setup(ID)
    kengine.write_lists({})
    return c07_resp.replay(d, path, ID)
