"""C07 — responses serialise to valid HTTP and parse back (claimed: status tables only)."""
from ..kengine import H

ID = "C07"
MODULE = "c07"
ENGINE = "K"

META = {
    "functions_encoded": [
        "humphrey/src/http/status.rs: <StatusCode as TryFrom<u16>>::try_from",
        "humphrey/src/http/status.rs: <u16 as From<StatusCode>>::from, <&str as From<StatusCode>>::from",
    ],
    "reference_model": "kani/src/c07.rs::registered (RFC 2616/7231/9110 code -> reason phrase table)",
    "stubs": [],
    "assumes": [],
    "outside_bounds": [
        "serialisation layout of Vec<u8>::from(Response) (format!-based status line), Set-Cookie assembly",
        "Response::from_stream (BufReader/String/dyn Error: not encodable, DESIGN §2), chunked decoding, read segmentation",
        "HTTP client and redirect following (sockets)",
    ],
}


def harnesses():
    hs = [H("c07_status_tables", "status_tables", 40, "quick",
            "for EVERY u16: try_from accepts exactly the 39 modelled codes; u16::from and try_from are mutually inverse; the phrase is the registered one")]
    hs.append(H("c07_status_codes", "status_codes", 4, "quick", "for EVERY u16: accept set == the 39 modelled codes and u16::from(try_from(c)) == c"))
    hs.append(H("c07_status_class", "status_class", 44, "quick", "for EVERY u16: accepted codes are 100..599 and their reason phrases are 2..40 printable ASCII bytes (no CR/LF that could break the status line)"))
    for h in hs:
        h.module = MODULE
    return hs
