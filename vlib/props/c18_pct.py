"""C18 (percent-encoding) — humphrey::percent::{percent_encode, percent_decode}, engine M (Kani cannot: `format!`, DESIGN §2).

decode: the MIR of `percent_decode` runs on strings of n symbolic characters. One obligation per (n, UTF-8 length class of every
character), so the byte sequence has a concrete length; the specification (RFC 3986 §2.1: pct-encoded = "%" HEXDIG HEXDIG, every
other byte denotes itself; anything else after a "%" is malformed) is enumerated as parse shapes over the same bytes.
encode: the MIR of `percent_encode` runs on n symbolic bytes; specification: unreserved (§2.3) verbatim, others "%XX" upper case.
`format!` is executed through the model of the fmt::Arguments template in mirsym/models_fmt.py.
"""
import itertools, json, os, random, re, time

from ..common import *
from .. import mengine

_G = {}
UNRESERVED = set(b"ABCDEFGHIJKLMNOPQRSTUVWXYZabcdefghijklmnopqrstuvwxyz0123456789-_.~")
CLASSES = [(0, 0x7F), (0x80, 0x7FF), (0x800, 0xFFFF), (0x10000, 0x10FFFF)]


# ---- Python references (judge native replays) ----------------------------------------------------------------------------
def py_encode(b):
    return "".join(chr(x) if x in UNRESERVED else "%%%02X" % x for x in b)


def py_decode(text):
    b = text.encode("utf-8")
    out, i = [], 0
    while i < len(b):
        if b[i] == 0x25:
            h = b[i + 1:i + 3]
            if len(h) < 2 or not all(chr(x) in "0123456789abcdefABCDEF" for x in h):
                return None
            out.append(int(h.decode(), 16))
            i += 3
        else:
            out.append(b[i])
            i += 1
    return bytes(out)


def _setup():
    import z3
    from mirsym.mir import parse_mir, ensure_parsed
    from mirsym.exec import Ctx, Exec
    from mirsym.models import COMMON
    from mirsym.models_fmt import make_models as fmt_models
    from mirsym.models_http import make_models as http_models
    from mirsym.models_json import make_models as json_models
    funcs = parse_mir(_G["mir"])

    def find(suffix):
        c = [v for n, v in funcs.items() if not isinstance(v, tuple) and n.endswith(suffix) and "percent.rs" in n]
        if len(c) != 1:
            raise RuntimeError("cannot locate %s in the MIR dump (%d candidates)" % (suffix, len(c)))
        return ensure_parsed(c[0])

    def mk(assume=()):
        ctx = Ctx(funcs, fmt_models() + http_models() + json_models() + COMMON, mode="int", loop_bound=64, time_budget=_G.get("budget", 600))
        ctx.base_assumptions = list(assume)
        return ctx, Exec(ctx)
    return z3, find, mk


def _vec_items(v):
    return list(v.items) if hasattr(v, "items") and not isinstance(v, dict) else list(v[1])


def _dec_job(job):
    """job = (n, classes tuple)"""
    n, cls = job
    t0 = time.time()
    res = {"kind": "dec", "n": n, "cls": list(cls), "verdict": "unsat", "cexs": [], "n_checks": 0}
    try:
        z3, find, mk = _setup()
        from mirsym.exec import z3bool
        from mirsym.models import SymStr
        f = find("::percent_decode")
        cs = [z3.Int("c%d" % i) for i in range(n)]
        assume = []
        for c, k in zip(cs, cls):
            lo, hi = CLASSES[k]
            assume.append(z3.And(c >= lo, c <= hi))
            if k == 2:
                assume.append(z3.Or(c < 0xD800, c > 0xDFFF))
        ctx, ex = mk(assume)
        out = ex.run_function(f, [("refval", SymStr("in", tuple(cs)))])
        res["paths"] = len(out.rets) + len(out.panics)
        # bytes of the input (concrete length in this class)
        bs = []
        for c, k in zip(cs, cls):
            if k == 0:
                bs += [c]
            elif k == 1:
                bs += [0xC0 + c / 64, 0x80 + c % 64]
            elif k == 2:
                bs += [0xE0 + c / 4096, 0x80 + (c / 64) % 64, 0x80 + c % 64]
            else:
                bs += [0xF0 + c / 262144, 0x80 + (c / 4096) % 64, 0x80 + (c / 64) % 64, 0x80 + c % 64]
        m = len(bs)
        hexd = lambda x: z3.Or(z3.And(x >= 48, x <= 57), z3.And(x >= 65, x <= 70), z3.And(x >= 97, x <= 102))
        hexv = lambda x: z3.If(x <= 57, x - 48, z3.If(x <= 70, x - 55, x - 87))
        shapes = []          # (cond, [output bytes])
        def rec(i, cond, outb):
            if i == m:
                shapes.append((z3.And(*cond) if cond else z3.BoolVal(True), outb))
                return
            rec(i + 1, cond + [bs[i] != 0x25], outb + [bs[i]])
            if i + 2 < m:
                rec(i + 3, cond + [bs[i] == 0x25, hexd(bs[i + 1]), hexd(bs[i + 2])], outb + [hexv(bs[i + 1]) * 16 + hexv(bs[i + 2])])
        rec(0, [], [])
        wellformed = z3.Or(*[c for c, _ in shapes])
        s = z3.Solver()
        s.set("timeout", 120000)
        s.set("random_seed", seed() % 971)
        s.add(*assume)
        checks = []
        for pc, msg in out.panics:
            checks.append(("no panic: " + str(msg)[:80], z3bool(pc) if pc is not True else z3.BoolVal(True)))
        cover = [z3bool(pc) if pc is not True else z3.BoolVal(True) for pc, *_ in out.rets] + [z3bool(pc) if pc is not True else z3.BoolVal(True) for pc, _ in out.panics]
        checks.append(("every input has an outcome", z3.Not(z3.Or(*cover)) if cover else z3.BoolVal(True)))
        for pi, (pc, v, _, _) in enumerate(out.rets):
            pcz = z3bool(pc) if pc is not True else z3.BoolVal(True)
            if v[1] == "None":
                checks.append(("well-formed text is decoded (RFC 3986 2.1)", z3.And(pcz, wellformed)))
            else:
                got = _vec_items(v[2][0])
                checks.append(("a '%' not followed by two HEXDIG is rejected", z3.And(pcz, z3.Not(wellformed))))
                for sc, ob in shapes:
                    if len(ob) != len(got):
                        checks.append(("decoded length", z3.And(pcz, sc)))
                    elif ob:
                        checks.append(("decoded bytes are the bytes denoted", z3.And(pcz, sc, z3.Or(*[g != o for g, o in zip(got, ob)]))))
        tq = time.time()
        for name, fm in checks:
            s.push()
            s.add(fm)
            r = s.check()
            res["n_checks"] += 1
            if r == z3.sat:
                mdl = s.model()
                res["cexs"].append({"check": name, "chars": [mdl.eval(c, model_completion=True).as_long() for c in cs]})
                res["verdict"] = "sat"
            elif r != z3.unsat and res["verdict"] == "unsat":
                res["verdict"] = "unknown"
            s.pop()
        if s.check() != z3.sat:
            res["verdict"] = "vacuous"
        res.update({"symex_s": round(tq - t0, 2), "solver_s": round(time.time() - tq + ctx.tq, 2), "blocks": ctx.blocks_executed, "feasibility_queries": ctx.nq,
                    "models": sorted(ctx.calls_seen.keys()), "shapes": len(shapes)})
    except Exception as e:
        import traceback
        res.update({"verdict": "undischarged", "why": "%s: %s" % (type(e).__name__, str(e)[:300]), "tb": traceback.format_exc()[-1500:]})
    res["wall_s"] = round(time.time() - t0, 2)
    return res


def _enc_job(n):
    t0 = time.time()
    res = {"kind": "enc", "n": n, "verdict": "unsat", "cexs": [], "n_checks": 0}
    try:
        z3, find, mk = _setup()
        from mirsym.exec import z3bool
        from mirsym.models import str_chars
        from mirsym.models_json import VecM
        f = find("::percent_encode")
        bs = [z3.Int("b%d" % i) for i in range(n)]
        assume = [z3.And(b >= 0, b <= 255) for b in bs]
        ctx, ex = mk(assume)
        out = ex.run_function(f, [("refval", VecM(tuple(bs)))])
        res["paths"] = len(out.rets) + len(out.panics)
        unres = lambda b: z3.Or(z3.And(b >= 65, b <= 90), z3.And(b >= 97, b <= 122), z3.And(b >= 48, b <= 57), b == 45, b == 95, b == 46, b == 126)
        hexu = lambda d: z3.If(d < 10, d + 48, d + 55)
        s = z3.Solver()
        s.set("timeout", 120000)
        s.add(*assume)
        checks = []
        for pc, msg in out.panics:
            checks.append(("no panic: " + str(msg)[:80], z3bool(pc) if pc is not True else z3.BoolVal(True)))
        cover = [z3bool(pc) if pc is not True else z3.BoolVal(True) for pc, *_ in out.rets] + [z3bool(pc) if pc is not True else z3.BoolVal(True) for pc, _ in out.panics]
        checks.append(("every input has an outcome", z3.Not(z3.Or(*cover)) if cover else z3.BoolVal(True)))
        for pc, v, _, _ in out.rets:
            pcz = z3bool(pc) if pc is not True else z3.BoolVal(True)
            got = list(str_chars(v))
            for pat in itertools.product((True, False), repeat=n):
                cond = z3.And(*[unres(b) if u else z3.Not(unres(b)) for b, u in zip(bs, pat)]) if n else z3.BoolVal(True)
                want = []
                for b, u in zip(bs, pat):
                    want += [b] if u else [37, hexu(b / 16), hexu(b % 16)]
                if len(want) != len(got):
                    checks.append(("encoded length", z3.And(pcz, cond)))
                elif want:
                    checks.append(("unreserved verbatim, every other byte as %XX upper-case (RFC 3986 2.1/2.3)", z3.And(pcz, cond, z3.Or(*[g != w for g, w in zip(got, want)]))))
        tq = time.time()
        for name, fm in checks:
            s.push()
            s.add(fm)
            r = s.check()
            res["n_checks"] += 1
            if r == z3.sat:
                mdl = s.model()
                res["cexs"].append({"check": name, "bytes": [mdl.eval(b, model_completion=True).as_long() for b in bs]})
                res["verdict"] = "sat"
            elif r != z3.unsat and res["verdict"] == "unsat":
                res["verdict"] = "unknown"
            s.pop()
        if s.check() != z3.sat:
            res["verdict"] = "vacuous"
        res.update({"symex_s": round(tq - t0, 2), "solver_s": round(time.time() - tq + ctx.tq, 2), "blocks": ctx.blocks_executed, "feasibility_queries": ctx.nq,
                    "models": sorted(ctx.calls_seen.keys())})
    except Exception as e:
        import traceback
        res.update({"verdict": "undischarged", "why": "%s: %s" % (type(e).__name__, str(e)[:300]), "tb": traceback.format_exc()[-1500:]})
    res["wall_s"] = round(time.time() - t0, 2)
    return res


def _job(j):
    return _dec_job(j[1]) if j[0] == "dec" else _enc_job(j[1])


def _concrete(item):
    kind, data = item
    try:
        z3, find, mk = _setup()
        from mirsym.models import ConcStr, str_chars
        from mirsym.models_json import VecM
        ctx, ex = mk()
        if kind == "dec":
            out = ex.run_function(find("::percent_decode"), [("refval", ConcStr(data))])
            if out.panics and not out.rets:
                return "PANIC"
            v = out.rets[0][1]
            return "NONE" if v[1] == "None" else "SOME " + (bytes(_vec_items(v[2][0])).hex() or "-")
        out = ex.run_function(find("::percent_encode"), [("refval", VecM(tuple(data)))])
        if out.panics and not out.rets:
            return "PANIC"
        return "".join(chr(c) for c in str_chars(out.rets[0][1])).encode("utf-8").hex() or "-"
    except Exception as e:
        return "ENGINE-ERROR %s: %s" % (type(e).__name__, str(e)[:200])


def native_dec(exe, text):
    return mengine.native_eval(exe, ["pctdec " + (text.encode("utf-8").hex() or "-")])[0]


def native_enc(exe, b):
    return mengine.native_eval(exe, ["pctenc " + (bytes(b).hex() or "-")])[0]


def want_dec(text):
    w = py_decode(text)
    return "NONE" if w is None else "SOME " + (w.hex() or "-")


def want_enc(b):
    return py_encode(bytes(b)).encode().hex() or "-"


def role(kind, data):
    if kind == "dec":
        if re.search(r"%(\+[0-9a-fA-F]|[0-9a-fA-F]?\+)", data) and py_decode(data) is None:
            return "percent-decode:sign-accepted-as-hex-digit"
        if any(ord(c) > 127 for c in data):
            return "percent-decode:non-ascii"
        return "percent-decode:ascii"
    return "percent-encode"


def run_part(tier, work, mir):
    _G.update({"mir": mir, "budget": 1500 if tier == "thorough" else 500})
    known = load_known()
    out = {"results": [], "violations": [], "known_hits": [], "machinery": [], "undischarged": [], "validation": {}}
    exe_dev = mengine.build_mtool("debug")
    exe_rel = mengine.build_mtool("release")
    rnd = random.Random(seed() * 13 + 3)
    alpha = list("%0925aFg+ -~/") + ["é", "€", "\U0001d11e"]
    texts = ["", "abc", "%41", "%4", "%", "%zz", "a%2Fb", "%e2%82%ac", "é%C3", "100%", "%%41", "%2", "%G0", "a b", "%7e", "%25", "100%25", "%2541", "%25zz", "%25%32%35", "%2525", "a%25", "%41%42", "%4%41"] + \
            ["".join(rnd.choice(alpha) for _ in range(rnd.randint(0, 6))) for _ in range(120)]
    texts = [t for t in texts if role("dec", t) != "percent-decode:sign-accepted-as-hex-digit" or ("C18", "percent-decode:sign-accepted-as-hex-digit") not in known]
    blobs = [b"", b"abc", b"a/b c", bytes(range(0, 256, 7)), "é€".encode()] + [bytes(rnd.randrange(256) for _ in range(rnd.randint(0, 6))) for _ in range(60)]
    items = [("dec", t) for t in texts] + [("enc", b) for b in blobs]
    eng = mengine.pmap(_concrete, items)
    nat = mengine.native_eval(exe_dev, ["pctdec " + (t.encode("utf-8").hex() or "-") for t in texts] + ["pctenc " + (b.hex() or "-") for b in blobs])
    cannot = [e for e in eng if e.startswith("ENGINE-ERROR")]
    mism = [(items[i], eng[i], nat[i]) for i in range(len(items)) if not eng[i].startswith("ENGINE-ERROR") and eng[i] != nat[i]]
    out["validation"] = {"inputs": len(items), "mismatches": len(mism), "engine_cannot_run": len(cannot)}
    # the sampled inputs are also judged against the reference natively (sampling; reported as such)
    refbad = [(it, n) for it, n in zip(items, nat) if n != (want_dec(it[1]) if it[0] == "dec" else want_enc(it[1]))]
    if mism:
        out["machinery"].append("percent: translator validation: encoding and native code disagree on %d/%d inputs, e.g. %r" % (len(mism), len(items), mism[0]))
        return out
    if cannot:
        out["undischarged"].append({"job": "all", "why": cannot[0][:300]})
        for it, n in refbad[:1]:
            _classify(out, known, it[0], it[1], "native probe (the encoding cannot execute this tree)", exe_dev, exe_rel)
        return out
    jobs = []
    NDEC = 7 if tier == "thorough" else 6
    for n in range(0, NDEC + 1):
        for cls in itertools.product(range(4), repeat=n):
            nb = sum(k + 1 for k in cls)
            non_ascii = sum(1 for k in cls if k)
            # every class vector up to 3 characters; beyond that ASCII only plus at most one non-ASCII character of 2 bytes
            if n <= 2 or (n == 3 and non_ascii <= (3 if tier == "thorough" else 1)) or non_ascii == 0 or (non_ascii == 1 and max(cls) == 1 and n <= 4):
                jobs.append(("dec", (n, cls)))
    for n in range(0, (5 if tier == "thorough" else 4) + 1):
        jobs.append(("enc", n))
    jobs.sort(key=lambda j: -(j[1][0] if j[0] == "dec" else j[1] + 2))
    rs = mengine.pmap(_job, jobs, jobs=int(os.environ.get("VERIF_JOBS", "14")))
    out["results"] = rs
    for r in rs:
        if r["verdict"] == "sat":
            seen = set()
            for cex in r["cexs"]:
                if r["kind"] == "dec":
                    data = "".join(chr(c) for c in cex["chars"])
                else:
                    data = bytes(cex["bytes"])
                rl = role(r["kind"], data)
                if rl in seen:
                    continue
                seen.add(rl)
                _classify(out, known, r["kind"], data, cex["check"], exe_dev, exe_rel, solver=True)
        elif r["verdict"] != "unsat":
            out["undischarged"].append({"job": [r["kind"], r["n"], r.get("cls")], "why": r.get("why", r["verdict"])})
    return out


def _classify(out, known, kind, data, check, exe_dev, exe_rel, solver=False):
    if kind == "dec":
        nd, nr, want = native_dec(exe_dev, data), native_dec(exe_rel, data), want_dec(data)
        shown = data
    else:
        nd, nr, want = native_enc(exe_dev, data), native_enc(exe_rel, data), want_enc(data)
        shown = bytes(data).hex()
    key = role(kind, data)
    rep = {"kind": "pct" + kind, "input": shown, "input_hex": (data.encode("utf-8") if kind == "dec" else bytes(data)).hex(), "native_dev": nd, "native_release": nr, "expected": want, "failed": check, "key": key}
    if nd == want and nr == want:
        if solver:
            out["machinery"].append("percent %s: counterexample %r (%s) does not reproduce natively (native %s)" % (kind, shown, check, nd))
        return
    if ("C18", key) in known:
        if key not in [k["key"] for k in out["known_hits"]]:
            out["known_hits"].append(rep)
    elif key not in [v["key"] for v in out["violations"]]:
        out["violations"].append(rep)


def replay(d):
    exe = mengine.build_mtool("debug")
    raw = bytes.fromhex(d["input_hex"])
    if d["kind"] == "pctdec":
        got, want = native_dec(exe, raw.decode("utf-8")), want_dec(raw.decode("utf-8"))
    else:
        got, want = native_enc(exe, raw), want_enc(raw)
    log("%s(%r) = %s, RFC 3986: %s" % (d["kind"], d["input"], got, want))
    return got != want
