"""C19 — a blacklisted address never receives content (claimed: decision functions)."""
from ..kengine import H

ID = "C19"
MODULE = "c19"
ENGINE = "K"

FMT = "kani::stub(alloc::fmt::format, crate::c19::stub_format)"
PEER = "kani::stub(std::net::TcpStream::peer_addr, crate::c19::stub_peer_addr)"
MARKERS = ["kani::stub(humphrey_server::cache::Cache::get, crate::c19::stub_cache_get)",
           "kani::stub(std::fs::File::open, crate::c19::stub_file_open)",
           "kani::stub(humphrey::route::try_find_path, crate::c19::stub_try_find_path)",
           "kani::stub(humphrey::http::proxy::proxy_request, crate::c19::stub_proxy_request)"]

META = {
    "functions_encoded": [
        "humphrey-server/src/server/static.rs: file_handler, directory_handler, redirect_handler, blacklist_check",
        "humphrey-server/src/server/proxy.rs: proxy_handler (blacklist branch)",
        "humphrey-server/src/server/server.rs: verify_connection (via the verif hook), AppState::from",
        "std: Vec<IpAddr>::contains / IpAddr equality (compiled std)",
    ],
    "reference_model": "inline: origin in list => 403 with the fixed body; verify_connection == !(mode == block && peer in list)",
    "stubs": ["Cache::get, File::open, try_find_path, proxy_request -> markers that fail the proof if reached (a blacklisted request must reach none of them)", "alloc::fmt::format -> empty string (log lines are not the subject)", "TcpStream::peer_addr -> arbitrary IPv4 peer (connection harness)"],
    "assumes": ["the Request is constructed directly with a symbolic origin address (the X-Forwarded-For -> origin derivation in Address::from_headers is outside: dyn Error)",
                "natively (replay) nothing is stubbed: the nonexistent paths/targets make a reached file system or upstream fail visibly"],
    "outside_bounds": ["everything at socket level (closing without a response in block mode, real connections)", "the 'served normally' direction for file/directory/proxy routes (file system, network)",
                       "blacklists with more than 2 entries; IPv6 addresses other than ::a:b"],
}


# global unwind 2 (the drop glue of Arc<AppState> -> Config -> Vec<HostConfig> -> ... is explored on every Arc drop; all those vectors are
# empty, which the unwinding assertions confirm); the harness' own loops get their real bounds
UW = [("src/lib.rs", "bytes", 6), ("src/c19.rs", "listed", 4), ("src/c19.rs", "unlisted_redirect", 4), ("src/c19.rs", "connection", 4), ("slice/iter/macros.rs", "contains", 4), ("slice/cmp.rs", "contains", 4), ("@raw", "memcmp.0", 24)]


def harnesses():
    hs = []
    R = {0: "file", 1: "directory", 2: "redirect", 3: "proxy"}
    for route in (0, 1, 2, 3):
        for n in (1, 2):
            for v6 in (0, 1):
                if v6 and (n == 2 or route in (1,)):
                    continue
                tier = "quick" if (n == 1 and not v6) or (route == 0 and v6) or (route == 3 and n == 2) else "thorough"
                hs.append(H("c19_listed_%s_n%d%s" % (R[route], n, "_v6" if v6 else ""), "listed::<_, %d, %d, %d>" % (n, route, v6), 2, tier,
                            "%s route, %d symbolic %s list entries, origin symbolic and listed, mode and cache symbolic: 403 + fixed body, no FS/cache/upstream" % (R[route], n, "IPv6" if v6 else "IPv4"),
                            attrs=[FMT] + MARKERS, timeout=900, mem_gb=12, unwindset=UW))
    for n in (0, 1, 2):
        hs.append(H("c19_unlisted_redirect_n%d" % n, "unlisted_redirect::<_, %d>" % n, 2, "quick" if n == 1 else "thorough",
                    "redirect route, origin not among %d symbolic entries: 301 with Location" % n, attrs=[FMT], timeout=900, mem_gb=12, unwindset=UW))
        hs.append(H("c19_connection_n%d" % n, "connection::<_, %d>" % n, 2, "quick" if n in (1, 2) else "thorough",
                    "verify_connection with %d symbolic entries, symbolic peer and mode: refused iff block mode and listed" % n, attrs=[FMT, PEER], timeout=900, mem_gb=12, unwindset=UW))
    for h in hs:
        h.module = MODULE
    return hs
