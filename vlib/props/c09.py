"""C09 — proxy (claimed: target selection only)."""
from ..kengine import H

ID = "C09"
MODULE = "c09"
ENGINE = "K"

META = {
    "functions_encoded": [
        "humphrey-server/src/server/proxy.rs: LoadBalancer::select_target",
        "humphrey-server/src/server/rand.rs: <Lcg as Iterator>::next, <[T] as Choose>::choose, Lcg::new, Lcg::with_parameters",
    ],
    "reference_model": "inline: targets[index], (index+1) mod N; (a*seed+c) mod m",
    "stubs": ["std::time::SystemTime::now -> UNIX_EPOCH + arbitrary seconds < 2^33 (c09_lcg_new only)", "<Lcg as Iterator>::next -> arbitrary value below the modulus (c09_rnd_any_*: selection decided for every generator output; the generator itself is c09_lcg_next)"],
    "assumes": ["pre-state: index < number of targets (inductive invariant, established by index = 0 and preserved by the step)",
                "seed < 2^33 (clock seconds until year 2242 on first use; < 2^31-1 after any step: shown)"],
    "outside_bounds": [
        "everything on the network: upstream responses, 502 on failure, timeouts, request forwarding, X-Forwarded-For",
        "target counts other than 1..4 (concrete per harness); an empty target list (division by zero in choose) is a configuration error outside the claim",
        "concurrent selection: select_target takes &mut self behind a Mutex — exclusivity is Rust's aliasing guarantee (trusted)",
    ],
}


def harnesses():
    hs = []
    NEXT = "kani::stub(<humphrey_server::rand::Lcg as std::iter::Iterator>::next, crate::c09::stub_lcg_next)"
    for n in (1, 2, 3, 4):
        hs.append(H("c09_rr_step_%d" % n, "rr_step::<_, %d>" % n, 8, "quick", "round-robin inductive step, %d targets, arbitrary index < %d" % (n, n)))
        hs.append(H("c09_rnd_any_%d" % n, "rnd_any::<_, %d>" % n, 8, "quick", "random mode, %d targets, EVERY generator output < modulus (next() stubbed): result is a configured target, no panic" % n,
                    attrs=[NEXT], timeout=1200))
    hs.append(H("c09_lcg_next", "lcg_next", 4, "quick", "Lcg::next from any seed < 2^33: no overflow, output < modulus, twice", timeout=1800))
    for n in (3, 4):
        hs.append(H("c09_rnd_member_%d" % n, "rnd_member::<_, %d>" % n, 8, "thorough", "random-mode step with the real generator, %d targets, arbitrary seed < 2^33: configured target, no overflow/index panic" % n, timeout=1500))
    hs.append(H("c09_lcg_new", "lcg_new", 8, "quick", "Lcg::new() == documented glibc parameters, seed = clock seconds",
                attrs=["kani::stub(std::time::SystemTime::now, crate::c09::stub_now)"]))
    for h in hs:
        h.module = MODULE
    return hs
