"""C02 (request parser) — Request::from_stream / from_stream_inner, engine M in integer mode.

The MIR of the current tree's parser (and of Method::from_name, HeaderType::from, Headers::{new, add, get}, Header::new, safe_assert)
is executed on a request TEMPLATE: the structure of a well-formed request (method, separators, CRLFs, header names that are
concrete, the Content-Length value) is concrete, and the HOLES — path, query, version digit, header values (with optional
leading whitespace), custom header names, body bytes — are symbolic characters constrained only to the character class the
HTTP grammar allows at that place. The obligation: for every value of the holes the parser returns Ok(Request) whose method,
uri, query, version, header list (names case-insensitively typed, values and order preserved) and body are exactly what the
bytes denote, consuming exactly the request's bytes. The BufReader is a model (read_until / read_exact over the script), so
`independent of read segmentation` is not decided here; the translator validation runs the native parser under whole /
byte-wise / split delivery.
"""
import itertools, json, os, random, re, time

from ..common import *
from .. import mengine
from .c02 import NAMES

_G = {}
HEAPF = -7

CLASSES = {
    # code point ranges allowed in a hole (ASCII; non-ASCII header values are outside this encoding)
    "path": [(0x21, 0x3E), (0x40, 0x7E)],                  # visible ASCII except '?'
    "query": [(0x21, 0x7E)],
    "digit01": [(0x30, 0x31)],
    "hname": [(0x30, 0x39), (0x41, 0x5A), (0x61, 0x7A), (0x2D, 0x2D), (0x5F, 0x5F)],
    "ows": [(0x20, 0x20), (0x09, 0x09)],
    "hval1": [(0x21, 0x7E)],                                # first character of a value: not whitespace
    "hval": [(0x20, 0x7E), (0x09, 0x09)],                  # inner characters of a value (a value never ENDS with whitespace: the property leaves that open)
    "byte": [(0x00, 0xFF)],
}
KNOWN = {n.lower(): n.replace("-", "") for n in NAMES}       # canonical lower-case name -> HeaderType variant


def L(text):
    return ("lit", text)


def Hh(name, k, cls):
    return ("hole", name, k, cls)


def templates(tier):
    """name -> (segments, expected) ; expected fields refer to holes by name."""
    T = {}
    def add(name, segs, method, uri, query, version, headers, body):
        T[name] = {"segs": segs, "method": method, "uri": uri, "query": query, "version": version, "headers": headers, "body": body}
    for m in ("GET", "POST", "PUT", "DELETE", "OPTIONS"):
        add("m_%s" % m.lower(), [L(m + " /"), Hh("p", 2, "path"), L(" HTTP/1."), Hh("v", 1, "digit01"), L("\r\n\r\n")],
            m, [L("/"), "p"], [], [L("HTTP/1."), "v"], [], None)
    add("path_query", [L("GET /"), Hh("p", 3, "path"), L("?"), Hh("q", 3, "query"), L(" HTTP/1.1\r\n\r\n")],
        "GET", [L("/"), "p"], ["q"], [L("HTTP/1.1")], [], None)
    add("empty_query", [L("GET /"), Hh("p", 1, "path"), L("? HTTP/1.1\r\n\r\n")], "GET", [L("/"), "p"], [], [L("HTTP/1.1")], [], None)
    add("host_value", [L("GET / HTTP/1.1\r\nHost:"), Hh("w", 1, "ows"), Hh("a", 1, "hval1"), Hh("b", 2, "hval"), Hh("z", 1, "hval1"), L("\r\n\r\n")],
        "GET", [L("/")], [], [L("HTTP/1.1")], [("Host", ["a", "b", "z"])], None)
    add("no_ows", [L("GET / HTTP/1.1\r\nhOsT:"), Hh("a", 1, "hval1"), Hh("b", 1, "hval"), Hh("z", 1, "hval1"), L("\r\n\r\n")],
        "GET", [L("/")], [], [L("HTTP/1.1")], [("Host", ["a", "b", "z"])], None)
    add("two_ows", [L("GET / HTTP/1.1\r\nAccept:"), Hh("w", 2, "ows"), Hh("a", 1, "hval1"), L("\r\n\r\n")],
        "GET", [L("/")], [], [L("HTTP/1.1")], [("Accept", ["a"])], None)
    add("repeated", [L("GET / HTTP/1.1\r\nCookie: "), Hh("a", 1, "hval1"), Hh("b", 1, "hval1"), L("\r\nHost: h\r\ncookie: "), Hh("c", 1, "hval1"), Hh("d", 1, "hval1"), L("\r\n\r\n")],
        "GET", [L("/")], [], [L("HTTP/1.1")], [("Cookie", ["a", "b"]), ("Host", [L("h")]), ("Cookie", ["c", "d"])], None)
    add("custom_name", [L("GET / HTTP/1.1\r\n"), Hh("n", 3, "hname"), L(": "), Hh("a", 1, "hval1"), L("\r\n\r\n")],
        "GET", [L("/")], [], [L("HTTP/1.1")], [(("sym", "n"), ["a"])], None)
    add("name4", [L("GET / HTTP/1.1\r\n"), Hh("n", 4, "hname"), L(":x\r\n\r\n")],
        "GET", [L("/")], [], [L("HTTP/1.1")], [(("sym", "n"), [L("x")])], None)
    add("value_colon", [L("GET / HTTP/1.1\r\nReferer: "), Hh("a", 1, "hval1"), L(":"), Hh("b", 1, "hval"), Hh("z", 1, "hval1"), L("\r\n\r\n")],
        "GET", [L("/")], [], [L("HTTP/1.1")], [("Referer", ["a", L(":"), "b", "z"])], None)
    add("body", [L("POST /"), Hh("p", 1, "path"), L(" HTTP/1.1\r\nContent-Length: 4\r\nHost: h\r\n\r\n"), Hh("x", 4, "byte")],
        "POST", [L("/"), "p"], [], [L("HTTP/1.1")], [("Content-Length", [L("4")]), ("Host", [L("h")])], ["x"])
    add("body0", [L("PUT / HTTP/1.0\r\ncontent-length: 0\r\n\r\n")], "PUT", [L("/")], [], [L("HTTP/1.0")], [("Content-Length", [L("0")])], [])
    add("body_then_more", [L("POST / HTTP/1.1\r\nContent-Length: 2\r\n\r\n"), Hh("x", 2, "byte"), L("GET / HTTP/1.1\r\n\r\n")],
        "POST", [L("/")], [], [L("HTTP/1.1")], [("Content-Length", [L("2")])], ["x"])
    add("empty_value", [L("GET / HTTP/1.1\r\nHost:\r\nAccept: \r\nX-E:\t\r\n\r\n")], "GET", [L("/")], [], [L("HTTP/1.1")], [("Host", []), ("Accept", []), ("x-e", [])], None)
    add("query_marks", [L("GET /"), Hh("p", 1, "path"), L("?"), Hh("q", 1, "query"), L("?"), Hh("r", 1, "query"), L(" HTTP/1.0\r\n\r\n")],
        "GET", [L("/"), "p"], ["q", L("?"), "r"], [L("HTTP/1.0")], [], None)
    add("path_colon", [L("DELETE /a:"), Hh("p", 2, "path"), L(" HTTP/1.1\r\nHost: h:"), Hh("a", 1, "hval1"), L("\r\n\r\n")],
        "DELETE", [L("/a:"), "p"], [], [L("HTTP/1.1")], [("Host", [L("h:"), "a"])], None)
    add("star_target", [L("OPTIONS * HTTP/1.1\r\n\r\n")], "OPTIONS", [L("*")], [], [L("HTTP/1.1")], [], None)
    add("body0_then_more", [L("POST /x HTTP/1.1\r\nContent-Length: 0\r\n\r\nGET / HTTP/1.1\r\n\r\n")], "POST", [L("/x")], [], [L("HTTP/1.1")], [("Content-Length", [L("0")])], [])
    add("body_lf_bytes", [L("PUT / HTTP/1.1\r\nContent-Length: 3\r\n\r\n\n"), Hh("x", 1, "byte"), L("\r")], "PUT", [L("/")], [], [L("HTTP/1.1")], [("Content-Length", [L("3")])], [L("\n"), "x", L("\r")])
    for nm, hdr, val in (("xff_v4", "X-Forwarded-For", "9.10.11.12,13.14.15.16"), ("xff_v6", "x-forwarded-for", "2001:db8::1"), ("xff_mixed", "X-Forwarded-For", "1.2.3.4,::1,10.0.0.1"),
                         ("xff_v6_list", "X-FORWARDED-FOR", "::ffff:1.2.3.4,fe80::1:2"), ("xff_invalid", "X-Forwarded-For", "unknown"), ("xff_one_bad", "X-Forwarded-For", "1.2.3.4,nonsense,5.6.7.8"),
                         ("xff_spaces", "X-Forwarded-For", "9.10.11.12, 13.14.15.16"), ("xff_spaces_v6", "X-Forwarded-For", "2001:db8::7,  1.2.3.4, ::1")):
        add(nm, [L("GET /"), Hh("p", 1, "path"), L(" HTTP/1.1\r\n" + hdr + ": " + val + "\r\nHost: h\r\n\r\n")], "GET", [L("/"), "p"], [], [L("HTTP/1.1")], [("x-forwarded-for", [L(val)]), ("Host", [L("h")])], None)
        T[nm]["xff"] = val
    if tier == "thorough":
        add("long_path", [L("GET /"), Hh("p", 12, "path"), L("?"), Hh("q", 8, "query"), L(" HTTP/1."), Hh("v", 1, "digit01"), L("\r\n\r\n")],
            "GET", [L("/"), "p"], ["q"], [L("HTTP/1."), "v"], [], None)
        add("name6", [L("GET / HTTP/1.1\r\n"), Hh("n", 6, "hname"), L(": "), Hh("a", 1, "hval1"), Hh("b", 1, "hval"), Hh("z", 1, "hval1"), L("\r\n\r\n")],
            "GET", [L("/")], [], [L("HTTP/1.1")], [(("sym", "n"), ["a", "b", "z"])], None)
        add("name2", [L("GET / HTTP/1.1\r\n"), Hh("n", 2, "hname"), L(":y\r\n\r\n")], "GET", [L("/")], [], [L("HTTP/1.1")], [(("sym", "n"), [L("y")])], None)
        add("five_headers", [L("GET / HTTP/1.1\r\nA: "), Hh("a", 1, "hval1"), L("\r\nB: "), Hh("b", 1, "hval1"), L("\r\nA: "), Hh("c", 1, "hval1"), L("\r\nHost: "), Hh("d", 2, "hval1"),
                             L("\r\nA: "), Hh("e", 1, "hval1"), L("\r\n\r\n")],
            "GET", [L("/")], [], [L("HTTP/1.1")], [("a", ["a"]), ("b", ["b"]), ("a", ["c"]), ("Host", ["d"]), ("a", ["e"])], None)
        add("body64", [L("POST / HTTP/1.1\r\nContent-Length: 64\r\n\r\n"), Hh("x", 64, "byte")], "POST", [L("/")], [], [L("HTTP/1.1")], [("Content-Length", [L("64")])], ["x"])
        add("long_value", [L("GET / HTTP/1.1\r\nUser-Agent: "), Hh("a", 1, "hval1"), Hh("b", 20, "hval"), Hh("z", 1, "hval1"), L("\r\n\r\n")], "GET", [L("/")], [], [L("HTTP/1.1")], [("User-Agent", ["a", "b", "z"])], None)
    return T


# ---------------------------------------------------------------------------------------------------------------------
def _setup():
    import z3
    from mirsym.mir import parse_mir
    from mirsym.exec import Ctx, Exec
    from mirsym.models import COMMON
    from mirsym.models_http import make_models
    from mirsym.models_ws import load_enum_decls
    if "funcs" not in _G:
        _G["funcs"] = parse_mir(_G["mir"])
        _G["enums"] = load_enum_decls(os.path.join(REPO, "humphrey", "src"))
    funcs = _G["funcs"]
    c = [v for n, v in funcs.items() if not isinstance(v, tuple) and n.endswith("::from_stream") and "request.rs" in n]
    if len(c) != 1:
        raise RuntimeError("cannot locate Request::from_stream in the MIR dump (%d candidates)" % len(c))
    def mk(assumptions=()):
        ctx = Ctx(funcs, make_models() + COMMON, mode="int", loop_bound=60, time_budget=_G.get("budget", 600))
        ctx.frame_ids = itertools.count(7000)
        ctx.enum_decls = _G["enums"]
        ctx.base_assumptions = list(assumptions)
        return ctx, Exec(ctx)
    return z3, c[0], mk


def instantiate(z3, tpl, concrete=None):
    """-> (input list, holes {name: [chars]}, assumptions)"""
    inp, holes, assume = [], {}, []
    for seg in tpl["segs"]:
        if seg[0] == "lit":
            inp += [ord(c) for c in seg[1]]
        else:
            _, name, k, cls = seg
            if concrete is not None:
                cs = list(concrete[name])
            else:
                cs = [z3.Int("%s%d" % (name, i)) for i in range(k)]
                for c in cs:
                    assume.append(z3.Or(*[(c == a) if a == b else z3.And(c >= a, c <= b) for a, b in CLASSES[cls]]))
            holes[name] = cs
            inp += cs
    return inp, holes, assume


def flat(parts, holes):
    out = []
    for p in parts:
        if isinstance(p, tuple) and p[0] == "lit":
            out += [ord(c) for c in p[1]]
        else:
            out += holes[p]
    return out


def expected_address(xff):
    """(origin, proxies) in the engine's tags: the last valid listed address is the origin, the earlier ones plus the peer are the proxies"""
    import ipaddress
    ips = []
    for piece in (xff.split(",") if xff is not None else []):
        try:
            if "%" in piece:
                raise ValueError
            ips.append("ip:" + ipaddress.ip_address(piece.strip()).compressed)
        except ValueError:
            pass
    if not ips:
        return "ip:peer", []
    return ips[-1], ips[:-1] + ["ip:peer"]


def split_plan(name):
    """'template@bw' | 'template@k17' | 'template' -> (template, plan)"""
    if "@" in name:
        t, p = name.split("@", 1)
        return t, p
    return name, None


def cuts_for(plan, n):
    """Read segmentation of the raw stream: None = all at once, 'bw' = one byte per read, 'k<i>' = two segments split at offset i."""
    if plan is None:
        return ()
    if plan == "bw":
        return tuple(range(1, n))
    if plan.startswith("k"):
        return (int(plan[1:]),)
    raise ValueError(plan)


def plans_for(n, tier, name=""):
    """Read plans of the engine-M obligations for a template of n bytes: all at once, byte-wise, and two segments split at an offset —
    thorough: every offset; quick: every offset for templates carrying a body, every third offset (rotated by VERIF_SEED) otherwise."""
    ps = [None, "bw"]
    if tier == "thorough" or "body" in name or "cl" in name or "chunk" in name:
        ks = range(2, n)
    else:
        ks = range(2 + seed() % 3, n, 3)
    return ps + ["k%d" % k for k in ks]


def native_plan(plan):
    """plan of the `mtool req|resp <plan>` commands: 0 all at once, 1 byte-wise, k >= 2 two segments split at offset k"""
    return 0 if plan is None else 1 if plan == "bw" else int(plan[1:])


def run_parser(ex, f, inp, cuts=()):
    from mirsym.models_ws import NetStream
    return ex.run_function(f, [("ref", ("local", HEAPF, 0, ())), ("opaque", "peer")], heap={HEAPF: {0: NetStream(tuple(inp), cuts=tuple(cuts))}})


def _job(name):
    t0 = time.time()
    res = {"template": name, "verdict": "unsat", "fails": [], "n_checks": 0, "paths": 0}
    try:
        z3, f, mk = _setup()
        from mirsym.exec import z3bool
        from mirsym.models import str_chars
        tname, plan = split_plan(name)
        res["plan"] = plan
        tpl = templates(_G["tier"])[tname]
        inp, holes, assume = instantiate(z3, tpl)
        ctx, ex = mk(assume)
        out = run_parser(ex, f, inp, cuts_for(plan, len(inp)))
        res["paths"] = len(out.rets) + len(out.panics)
        res["symex_s"] = round(time.time() - t0, 2)
        solver_s = 0.0
        def valid(pc, goal, what):
            """assumptions /\\ pc => goal ?"""
            nonlocal solver_s
            s = z3.Solver(); s.set("timeout", 60000)
            s.add(*assume)
            if pc is not True:
                s.add(z3bool(pc))
            s.add(z3.Not(goal) if goal is not None else z3.BoolVal(True))
            t = time.time(); r = s.check(); solver_s += time.time() - t
            res["n_checks"] += 1
            if r != z3.unsat:
                model = s.model() if r == z3.sat else None
                res["fails"].append({"what": what, "status": str(r), "input": _model_bytes(z3, model, inp) if model is not None else None})
            return r == z3.unsat
        def eq_chars(got, want):
            if len(got) != len(want):
                return None
            cs = [g == w for g, w in zip(got, want) if not (isinstance(g, int) and isinstance(w, int) and g == w)]
            cs = [c for c in cs if c is not True]
            if any(c is False for c in cs):
                return z3.BoolVal(False)
            return z3.And(*cs) if cs else z3.BoolVal(True)
        for pc, msg in out.panics:
            valid(pc, None, "no panic: " + str(msg)[:100])
        exp_body = None if tpl["body"] is None else flat(tpl["body"], holes)
        consumed = sum(len(s[1]) if s[0] == "lit" else s[2] for s in tpl["segs"])
        if tname in ("body_then_more", "body0_then_more"):
            consumed -= len("GET / HTTP/1.1\r\n\r\n")
        for pc, val, locs, heap in out.rets:
            if val[1] != "Ok":
                valid(pc, None, "a well-formed request is parsed (got %s)" % str(val)[:80])
                continue
            req = val[2][0][1]
            method, uri, query, version, headers, content, address = req
            if method[1].split("::")[-1].upper() != tpl["method"]:
                valid(pc, None, "method is %s (got %s)" % (tpl["method"], method[1]))
            for label, got, want in (("uri", uri, tpl["uri"]), ("query", query, tpl["query"]), ("version", version, tpl["version"])):
                g = eq_chars(list(str_chars(got)), flat(want, holes))
                if g is None:
                    valid(pc, None, "%s has the length of the text sent (got %d chars)" % (label, len(str_chars(got))))
                else:
                    valid(pc, g, "%s equals the text sent" % label)
            exp_origin, exp_proxies = expected_address(tpl.get("xff"))
            try:
                got_origin = address[1][0][1][0][1]
                got_proxies = [p_[1][0][1] for p_ in ex.elements(address[1][1])]
                got_port = address[1][2]
            except Exception:
                got_origin, got_proxies, got_port = repr(address)[:60], None, None
            if got_origin != exp_origin or got_proxies != exp_proxies or got_port != 4000:
                valid(pc, None, "ADDRESS: origin %s via %s port %s, the request denotes origin %s via %s port 4000" % (got_origin, got_proxies, got_port, exp_origin, exp_proxies))
            hs = list(ex.elements(headers[1][0]))
            if len(hs) != len(tpl["headers"]):
                valid(pc, None, "%d header fields parsed, %d sent" % (len(hs), len(tpl["headers"])))
            else:
                for i, (h, (ename, evalue)) in enumerate(zip(hs, tpl["headers"])):
                    hname, hvalue = h[1]
                    g = eq_chars(list(str_chars(hvalue)), flat(evalue, holes))
                    if g is None:
                        valid(pc, None, "value of header %d has the length of the text sent after optional whitespace" % i)
                    else:
                        valid(pc, g, "value of header %d equals the text sent (leading whitespace removed, rest preserved)" % i)
                    variant = hname[1].split("::")[-1]
                    if isinstance(ename, tuple):
                        nm = holes[ename[1]]
                        low = [z3.If(z3.And(c >= 65, c <= 90), c + 32, c) for c in nm]
                        if variant == "Custom":
                            cs = list(str_chars(hname[2][0]))
                            g = eq_chars(cs, low)
                            others = [z3.Not(z3.And(*[l == ord(ch) for l, ch in zip(low, k)])) for k in KNOWN if len(k) == len(nm)]
                            valid(pc, z3.And(g if g is not None else z3.BoolVal(False), *others), "an unlisted header name becomes Custom(lower-cased name) and is not one of the listed names")
                        else:
                            canon = [k for k, v in KNOWN.items() if v == variant]
                            if not canon or len(canon[0]) != len(nm):
                                valid(pc, None, "header name typed as %s" % variant)
                            else:
                                valid(pc, z3.And(*[l == ord(ch) for l, ch in zip(low, canon[0])]), "a name is typed as %s only if it equals `%s` ignoring ASCII case" % (variant, canon[0]))
                    else:
                        want_variant = KNOWN.get(ename.lower())
                        if want_variant is not None:
                            if variant != want_variant:
                                valid(pc, None, "header %d is typed %s (got %s)" % (i, want_variant, variant))
                        else:
                            if variant != "Custom" or [c for c in str_chars(hname[2][0])] != [ord(c) for c in ename.lower()]:
                                valid(pc, None, "header %d is Custom(%s) (got %s)" % (i, ename.lower(), str(hname)[:60]))
            if exp_body is None:
                if content[1] != "None":
                    valid(pc, None, "no body without Content-Length")
            else:
                if content[1] != "Some":
                    valid(pc, None, "the Content-Length body is delivered")
                else:
                    got = list(ex.elements(content[2][0]))
                    g = eq_chars(got, exp_body)
                    valid(pc, g if g is not None else z3.BoolVal(False), "body equals the %d bytes sent" % len(exp_body))
            pos = heap[HEAPF][0].pos
            if pos != consumed:
                valid(pc, None, "the parser consumed %d bytes, the request has %d" % (pos, consumed))
        # the paths must cover every value of the holes
        cover = [z3bool(pc) if pc is not True else z3.BoolVal(True) for pc, *_ in out.rets] + [z3bool(pc) if pc is not True else z3.BoolVal(True) for pc, _ in out.panics]
        valid(True, z3.Or(*cover) if cover else z3.BoolVal(False), "the explored paths cover every value of the holes")
        res["solver_s"] = round(solver_s, 2)
        res["blocks"] = ctx.blocks_executed
        res["models"] = sorted(k for k, v in ctx.calls_seen.items() if v == "model")
        if res["fails"]:
            res["verdict"] = "sat" if any(x["status"] == "sat" for x in res["fails"]) else "unknown"
    except Exception as e:
        import traceback
        res["verdict"] = "error"
        res["why"] = (str(e) + " | " + traceback.format_exc().strip().split("\n")[-3].strip())[:400]
    res["wall_s"] = round(time.time() - t0, 2)
    return res


def _model_bytes(z3, m, inp):
    return bytes((b if isinstance(b, int) else m.eval(b, model_completion=True).as_long()) & 255 for b in inp).hex()


# ---------------------------------------------------------------------------------------------------------------------
def py_parse(data):
    """Reference: what the bytes of a well-formed request denote -> dict, or None when the bytes are not a request of the supported grammar."""
    try:
        head, sep, rest = data.partition(b"\r\n\r\n")
        if not sep:
            return None
        lines = head.split(b"\r\n")
        m = re.fullmatch(rb"(GET|POST|PUT|DELETE|OPTIONS) ([!-~]+) (HTTP/1\.[01])", lines[0])
        if not m:
            return None
        target = m.group(2)
        uri, _, query = target.partition(b"?")
        headers = []
        clen = None
        for ln in lines[1:]:
            hm = re.fullmatch(rb"([0-9A-Za-z_-]+):[ \t]*((?:[!-~](?:[ -~\t]*[!-~])?)?)", ln)
            if not hm:
                return None
            nm = hm.group(1).decode().lower()
            headers.append((KNOWN.get(nm, 'Custom("%s")' % nm), hm.group(2)))
            if nm == "content-length" and clen is None:
                if not re.fullmatch(rb"[0-9]+", hm.group(2)):
                    return None
                clen = int(hm.group(2))
        body = None
        if clen is not None:
            if len(rest) < clen:
                return None
            body = rest[:clen]
        return {"method": m.group(1).decode(), "uri": uri, "query": query, "version": m.group(3), "headers": headers, "body": body}
    except Exception:
        return None


def rust_debug_escape(text):
    """<str as Debug> escaping (str::escape_debug) for the characters that can occur here."""
    out = []
    for ch in text:
        o = ord(ch)
        if ch == "\\":
            out.append("\\\\")
        elif ch == '"':
            out.append('\\"')
        elif ch == "\t":
            out.append("\\t")
        elif ch == "\n":
            out.append("\\n")
        elif ch == "\r":
            out.append("\\r")
        elif ch == "\0":
            out.append("\\0")
        elif o < 0x20 or o == 0x7F:
            out.append("\\u{%x}" % o)
        else:
            out.append(ch)
    return "".join(out)


def fmt_expected(d):
    def esc(b):
        return rust_debug_escape(b.decode("latin-1"))
    hs = ", ".join('Header { name: %s, value: "%s" }' % (n, esc(v)) for n, v in d["headers"])
    hx = lambda b: b.hex() if b else "-"
    return "OK %s|%s|%s|%s|Headers([%s])|%s" % (d["method"].capitalize(), hx(d["uri"]), hx(d["query"]), hx(d["version"]), hs, "none" if d["body"] is None else hx(d["body"]))


def fmt_engine(ex, val):
    from mirsym.models import str_chars
    import z3
    def ci(x):
        return x if isinstance(x, int) else z3.simplify(x).as_long()
    def sb(s):
        return bytes(ci(c) for c in str_chars(s))
    if val[1] != "Ok":
        return "ERR " + val[2][0][1].split("::")[-1]
    method, uri, query, version, headers, content, address = val[2][0][1]
    hs = []
    for h in ex.elements(headers[1][0]):
        n, v = h[1]
        variant = n[1].split("::")[-1]
        hs.append((variant if variant != "Custom" else 'Custom("%s")' % rust_debug_escape(sb(n[2][0]).decode("latin-1")), sb(v)))
    body = None if content[1] == "None" else bytes(ci(c) for c in ex.elements(content[2][0]))
    return fmt_expected({"method": method[1].split("::")[-1], "uri": sb(uri), "query": sb(query), "version": sb(version), "headers": hs, "body": body})


def _concrete(data):
    try:
        z3, f, mk = _setup()
        ctx, ex = mk()
        out = run_parser(ex, f, list(data))
        if out.panics and not out.rets:
            return "PANIC"
        if len(out.rets) != 1:
            return "ENGINE-ERROR %d outcomes" % len(out.rets)
        return fmt_engine(ex, out.rets[0][1])
    except Exception as e:
        return "ENGINE-ERROR " + str(e)[:200]


def random_requests(rnd, n, tier):
    """Concrete requests: instances of the templates plus mutated / malformed ones (ASCII only)."""
    import z3
    out = []
    T = templates(tier)
    names = sorted(T)
    def pick(cls):
        a, b = rnd.choice(CLASSES[cls])
        return rnd.randint(a, b)
    for i in range(n):
        tpl = T[names[i % len(names)]]
        conc = {seg[1]: [pick(seg[3]) if seg[3] != "byte" else rnd.randrange(0, 128) for _ in range(seg[2])] for seg in tpl["segs"] if seg[0] == "hole"}
        inp, _, _ = instantiate(z3, tpl, conc)
        data = bytes(inp)
        r = rnd.random()
        if r < 0.25 and len(data) > 4:
            j = rnd.randrange(len(data))
            data = data[:j] + bytes([rnd.choice([0x20, 0x0A, 0x0D, 0x3A, 0x3F, 0x41, 0x7A, 0x09])]) + data[j + 1:]
        elif r < 0.32:
            data = data[:rnd.randrange(len(data))]
        out.append(data)
    out += [b"GET / HTTP/1.1\r\n\r\n", b"GET /a?b?c HTTP/1.1\r\nHost: x\r\n\r\n", b"GET  / HTTP/1.1\r\n\r\n", b"get / HTTP/1.1\r\n\r\n", b"GET / HTTP/1.1\n\n",
            b"POST / HTTP/1.1\r\nContent-Length: 3\r\n\r\nab", b"POST / HTTP/1.1\r\nContent-Length: x\r\n\r\n", b"GET / HTTP/1.1\r\nNoColon\r\n\r\n", b"GET /\r\n\r\n", b"",
            b"GET / HTTP/1.1\r\nHost:\r\n\r\n", b"GET / HTTP/1.1\r\nA:\t b \r\n\r\n", b"OPTIONS * HTTP/1.1\r\n\r\n", b"DELETE /x HTTP/1.0\r\nConnection: close\r\n\r\n"]
    return out


def run_part(tier, work, mir):
    import z3
    _G["mir"] = mir
    _G["tier"] = tier
    _G["budget"] = 600 if tier == "quick" else 1800
    res = {"results": [], "violations": [], "machinery": [], "undischarged": [], "validation": {}}
    exe = mengine.build_mtool("debug")
    exe_rel = mengine.build_mtool("release")
    rnd = random.Random(seed() * 131 + 3)
    reqs = random_requests(rnd, 60 if tier == "quick" else 240, tier)
    eng = mengine.pmap(_concrete, reqs)
    plans = [rnd.choice([0, 1, rnd.randrange(2, max(3, len(d) + 1))]) for d in reqs]
    nat = mengine.native_eval(exe, ["req %d %s" % (p, d.hex() or "-") for p, d in zip(plans, reqs)])
    cannot = [e for e in eng if e.startswith("ENGINE-ERROR")]
    mism = [{"request": d.hex()[:160], "plan": p, "engine": e[:200], "native": n[:200]} for d, p, e, n in zip(reqs, plans, eng, nat) if e != n and not e.startswith("ENGINE-ERROR")]
    # the reference itself is validated on the same inputs: wherever it recognises a well-formed request it must agree with the native parser
    refbad = []
    for d, n in zip(reqs, nat):
        exp = py_parse(d)
        if exp is not None and fmt_expected(exp) != n:
            refbad.append({"request": d.hex()[:160], "reference": fmt_expected(exp)[:200], "native": n[:200]})
    res["validation"] = {"inputs": len(reqs), "mismatches": len(mism), "engine_cannot_run": len(cannot), "examples": mism[:3],
                         "read_plans": "whole / byte-wise / split at a random offset (native side); the engine's BufReader is a model",
                         "reference_vs_native_disagreements": refbad[:3]}
    if mism:
        # same bytes, different read plans, different native results = the real parser depends on read segmentation (a violation observed
        # natively; the engine's BufReader model cannot see it): distinguish that from a translator problem
        for d, p_, e, n in zip(reqs, plans, eng, nat):
            if e != n and not e.startswith("ENGINE-ERROR") and p_ != 0:
                n0 = mengine.native_eval(exe, ["req 0 " + (d.hex() or "-")])[0]
                if n0 == e and n0 != n:
                    line = "req %d %s" % (p_, d.hex() or "-")
                    res["violations"].append({"template": "read segmentation", "replay": {"request": line, "text": d.decode("latin-1"), "native_dev": n, "native_release": mengine.native_eval(exe_rel, [line])[0],
                                                                                          "expected": n0, "failed": "the result depends on how the bytes are split across reads (read plan %d vs all-at-once)" % p_, "template": "segmentation", "segmentation": True}})
                    return res
        res["machinery"].append("translator validation: engine and native parser disagree on %d/%d requests, e.g. %s" % (len(mism), len(reqs), json.dumps(mism[0])[:400]))
        return res
    names = []
    T_ = templates(tier)
    for nm in sorted(T_):
        n_bytes = len(instantiate(z3, T_[nm])[0])
        names += [nm if p is None else "%s@%s" % (nm, p) for p in plans_for(n_bytes, tier, nm)]
    res["read_plans"] = len(names)
    if cannot:
        res["undischarged"] = [{"template": "all", "why": cannot[0][:300]}]
    else:
        rs = mengine.pmap(_job, names)
        res["results"] = rs
        for r in rs:
            if r["verdict"] == "unsat":
                continue
            done = False
            for fl in r["fails"]:
                if fl["status"] != "sat" or not fl.get("input"):
                    continue
                data = bytes.fromhex(fl["input"])
                if fl["what"].startswith("ADDRESS"):
                    # forwarded-address clause: native Request.address vs what the X-Forwarded-For list denotes (peer = 127.0.0.1:4000)
                    tn = split_plan(r["template"])[0]
                    o, ps = expected_address(templates(tier)[tn].get("xff"))
                    want = "OK %s|%s|4000" % (o[3:].replace("peer", "127.0.0.1"), ",".join(x[3:].replace("peer", "127.0.0.1") for x in ps))
                    line = "reqaddr " + (data.hex() or "-")
                    nd, nr = mengine.native_eval(exe, [line])[0], mengine.native_eval(exe_rel, [line])[0]
                    rep = {"request": line, "text": data.decode("latin-1"), "native_dev": nd, "native_release": nr, "expected": want, "failed": fl["what"], "template": r["template"], "address": True}
                    if nd != want or nr != want:
                        res["violations"].append({"template": r["template"], "replay": rep})
                    else:
                        res["machinery"].append("address counterexample for template %s does not reproduce natively: native %s" % (r["template"], nd[:120]))
                    done = True
                    break
                exp = py_parse(data)
                line = "req %d %s" % (native_plan(r.get("plan")), data.hex() or "-")
                nd, nr = mengine.native_eval(exe, [line])[0], mengine.native_eval(exe_rel, [line])[0]
                rep = {"request": line, "text": data.decode("latin-1"), "native_dev": nd, "native_release": nr, "expected": fmt_expected(exp) if exp else None,
                       "failed": fl["what"] + ("" if r.get("plan") is None else " [read plan %s: %s]" % (r["plan"], "one byte per read" if r["plan"] == "bw" else "two segments split at offset " + r["plan"][1:])), "template": r["template"]}
                if exp is not None and (nd != rep["expected"] or nr != rep["expected"]):
                    res["violations"].append({"template": r["template"], "replay": rep})
                else:
                    res["machinery"].append("counterexample for template %s (%s) does not reproduce natively: native %s" % (r["template"], fl["what"][:100], nd[:120]))
                done = True
                break
            if not done:
                res["undischarged"].append({"template": r["template"], "why": r.get("why") or "; ".join(x["what"] + " -> " + x["status"] for x in r["fails"])[:300]})
    # ---- native probe when the engine cannot decide (sampling; discharges nothing)
    if res["undischarged"] and not res["violations"]:
        for d, n in zip(reqs, nat):
            exp = py_parse(d)
            if exp is not None and fmt_expected(exp) != n:
                line = "req 0 " + (d.hex() or "-")
                nr = mengine.native_eval(exe_rel, [line])[0]
                res["violations"].append({"template": "native probe", "replay": {"request": line, "text": d.decode("latin-1"), "native_dev": n, "native_release": nr, "expected": fmt_expected(exp),
                                                                                  "failed": "native probe of well-formed requests (the engine could not decide)", "template": "probe"}})
                break
    return res


def replay(d, path):
    exe = mengine.build_mtool("debug")
    exe_rel = mengine.build_mtool("release")
    r = d["replay"]
    nd, nr = mengine.native_eval(exe, [r["request"]])[0], mengine.native_eval(exe_rel, [r["request"]])[0]
    if r.get("address"):
        log("replay %r: Request.address natively %s / %s ; the X-Forwarded-For list denotes %s" % (r.get("text", "")[:160], nd, nr, r["expected"]))
        if nd != r["expected"] or nr != r["expected"]:
            log("VIOLATION property=C02 replay=%s" % path)
            return 1
        log("not reproduced on the current tree")
        return 0
    if r.get("segmentation"):
        whole = mengine.native_eval(exe, ["req 0 " + r["request"].split()[2]])[0]
        log("replay %r under read plan %s: %s ; all-at-once: %s" % (r.get("text", "")[:120], r["request"].split()[1], nd[:200], whole[:200]))
        if nd != whole or nr != whole:
            log("VIOLATION property=C02 replay=%s" % path)
            return 1
        log("not reproduced on the current tree")
        return 0
    data = bytes.fromhex(r["request"].split()[2]) if r["request"].split()[2] != "-" else b""
    exp = py_parse(data)
    want = fmt_expected(exp) if exp else None
    log("replay %r" % r.get("text", "")[:200])
    log("   native (dev)     : %s" % nd[:300])
    log("   native (release) : %s" % nr[:300])
    log("   the bytes denote : %s" % (want or "(not a well-formed request of the supported grammar)")[:300])
    if want is not None and (nd != want or nr != want):
        log("VIOLATION property=C02 replay=%s" % path)
        return 1
    log("not reproduced on the current tree")
    return 0
