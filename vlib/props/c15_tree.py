"""C15 / C03 (configuration parser) — config::tree::parse_conf / parse_section / include on engine M.

The MIR of the tree parser (current tree) runs on configuration TEMPLATES: the line structure is concrete, holes are symbolic
characters of a class that excludes line terminators. Three kinds of obligations:
  * `tree`   : a file that follows the documented syntax loads into exactly the tree written next to the template (sections, hosts,
               comma-separated route lists, quoted strings, integers, booleans, sizes, comments, blank lines, indentation, include);
  * `error`  : a file with one syntax fault is rejected with an error that names the expected line (never accepted, never a panic);
  * `nopanic`: arbitrary printable garbage (incl. quotes, braces, '#', spaces) at every structural position: a value or an error.
`include` reads from an in-memory file system (models of File::open / read_to_string); natively the replay writes the same files
into a scratch directory and runs the real parser there.
"""
import json, os, random, re, shutil, tempfile, time

from ..common import *
from .. import mengine

_G = {}


def L(t):
    return ("lit", t)


def H(name, k, cls):
    return ("hole", name, k, cls)


def cls_pred(z3, cls, c):
    if cls == "any":        # printable ASCII incl. space, quote, braces, '#', comma
        return z3.And(c >= 0x20, c <= 0x7E)
    if cls == "word":       # characters of a key / bare word: no whitespace, quote, braces, '#'
        return z3.And(c >= 0x21, c <= 0x7E, c != 0x22, c != 0x23, c != 0x7B, c != 0x7D)
    if cls == "inq":        # inside a quoted string: no quote, no '#' (comments are cut first), may contain spaces and braces
        return z3.And(c >= 0x20, c <= 0x7E, c != 0x22, c != 0x23)
    if cls == "digit":
        return z3.And(c >= 48, c <= 57)
    if cls == "digit19":
        return z3.And(c >= 49, c <= 57)
    if cls == "ws":
        return z3.Or(c == 0x20, c == 0x09)
    if cls == "sp":
        return c == 0x20
    if cls == "cmt":        # inside a comment: anything printable
        return z3.Or(z3.And(c >= 0x20, c <= 0x7E), c == 0x09)
    if cls == "alpha":
        return z3.And(c >= 97, c <= 122)
    raise ValueError(cls)


POOL = {"any": " \"{}#,aZ09_/*-.", "word": "aZ09_/*-.:,", "inq": " {}aZ09/*.,-", "digit": "0123456789", "digit19": "123456789", "ws": " \t", "sp": " ", "cmt": " \"{}#x\t", "alpha": "abcxyz"}


def templates(tier):
    T = {}
    def tree(name, segs, want, files=None):
        T[name] = ("tree", segs, want, files or {})
    def err(name, segs, line, files=None, fname="f"):
        T[name] = ("error", segs, (line, fname), files or {})
    def nop(name, segs, files=None):
        T[name] = ("nopanic", segs, None, files or {})
    # ---- documented syntax -> exact tree.   want: ("Sec", name parts, [children]) | ("Host"|"Route", ...) | ("Str"|"Num"|"Bool", key parts, value parts)
    tree("values", [L("server {\n  "), H("k", 2, "alpha"), L(" "), H("w", 1, "ws"), L("\""), H("v", 3, "inq"), L("\"\n  port "), H("d", 1, "digit19"), H("e", 2, "digit"), L("\n  on true\n  off false\n}")],
         ("Sec", [L("server")], [("Str", ["k"], ["v"]), ("Num", [L("port")], ["d", "e"]), ("Bool", [L("on")], [L("true")]), ("Bool", [L("off")], [L("false")])]))
    tree("comments_blank", [L("# "), H("c", 2, "cmt"), L("\n\nserver {  # "), H("c2", 2, "cmt"), L("\n\n  a 1 #"), H("c3", 1, "cmt"), L("\n"), H("w", 2, "ws"), L("\n  # only comment\n}\n# trailing")],
         ("Sec", [L("server")], [("Num", [L("a")], [L("1")])]))
    tree("nested", [L("server {\n log {\n  level \""), H("v", 2, "alpha"), L("\"\n }\n cache {\n  time "), H("d", 1, "digit19"), L("\n }\n}")],
         ("Sec", [L("server")], [("Sec", [L("log")], [("Str", [L("level")], ["v"])]), ("Sec", [L("cache")], [("Num", [L("time")], ["d"])])]))
    tree("hosts_routes", [L("server {\n host \""), H("h", 2, "word"), L("\" {\n  route /"), H("r", 1, "alpha"), L(", /"), H("s", 1, "alpha"), L(" {\n   file \"x\"\n  }\n  route /* {\n   directory \"d\"\n  }\n }\n host "), H("g", 2, "alpha"), L(" {\n }\n route /z {\n  redirect \"u\"\n }\n}")],
         ("Sec", [L("server")], [("Host", ["h"], [("Route", [L("/"), "r", L(", /"), "s"], [("Str", [L("file")], [L("x")])]), ("Route", [L("/*")], [("Str", [L("directory")], [L("d")])])]),
                                 ("Host", ["g"], []), ("Route", [L("/z")], [("Str", [L("redirect")], [L("u")])])]))
    tree("indent_free", [L("server {\n"), H("w", 2, "ws"), L("a "), H("x", 2, "ws"), L("1"), H("y", 1, "ws"), L("\nb 2\n\t}\n")],
         ("Sec", [L("server")], [("Num", [L("a")], [L("1")]), ("Num", [L("b")], [L("2")])]))
    tree("include_ok", [L("server {\n a 1\n include \"inc.conf\"\n z 9\n}")],
         ("Sec", [L("server")], [("Num", [L("a")], [L("1")]), ("Num", [L("b")], [L("2")]), ("Route", [L("/i")], [("Str", [L("file")], [L("q")])]), ("Num", [L("z")], [L("9")])]),
         files={"inc.conf": "b 2\nroute /i {\n file \"q\"\n}\n"})
    tree("include_nested", [L("server {\n include \"a.conf\"\n}")],
         ("Sec", [L("server")], [("Num", [L("x")], [L("1")]), ("Num", [L("y")], [L("2")])]), files={"a.conf": "x 1\ninclude \"b.conf\"", "b.conf": "y 2\n"})
    # ---- single-fault files -> error naming the line
    err("missing_brace", [L("server {\n a 1\n log {\n  b 2\n")], None)
    err("missing_value", [L("server {\n a 1\n "), H("k", 3, "alpha"), L("\n}")], 3)
    err("bad_value", [L("server {\n a 1\n\n k x"), H("v", 2, "alpha"), L("\n}")], 4)
    err("unterminated_quote", [L("server {\n k \""), H("v", 2, "alpha"), L("\n}")], 2)
    err("no_server", [L("log {\n}\n")], 0)
    # leading blank / whitespace-only / comment lines count as lines
    err("lead_blank_bad_value", [L("\n"), H("w", 2, "ws"), L("\n# c\nserver {\n a 1\n k x"), H("v", 2, "alpha"), L("\n}")], 6)
    err("lead_blank_missing_value", [L("\n\nserver {\n "), H("k", 2, "alpha"), L("\n}")], 4)
    err("lead_blank_include", [L("\n\t\nserver {\n include \"nope.conf\"\n}")], 4)
    err("include_unquoted", [L("server {\n include inc.conf\n}")], 2)
    err("include_missing_file", [L("server {\n include \"nope.conf\"\n}")], 2)
    err("include_missing_brace", [L("server {\n include \"inc.conf\"\n}")], None, files={"inc.conf": "route /a {\n file \"x\"\n\nroute /b {\n}"}, fname="inc.conf")
    err("include_unclosed_last", [L("server {\n include \"inc.conf\"\n z 1\n}")], None, files={"inc.conf": "b 2\nroute /i {\n file \"q\""}, fname="inc.conf")
    # ---- garbage at every structural position
    for k in (1, 2, 3):
        nop("line_%d" % k, [L("server {\n"), H("a", k, "any"), L("\n}")])
    nop("host_name", [L("server {\n host "), H("a", 2, "any"), L(" {\n }\n}")])
    nop("host_q", [L("server {\n host \""), H("a", 1, "any"), L(" {\n }\n}")])
    nop("route_name", [L("server {\n route "), H("a", 2, "any"), L(" {\n }\n}")])
    nop("sect_any", [L("server {\n"), H("a", 2, "any"), L("{\n }\n}")])
    nop("value_any", [L("server {\n k "), H("a", 3, "any"), L("\n}")])
    nop("value_q", [L("server {\n k \""), H("a", 2, "any"), L("\n}")])
    nop("include_any", [L("server {\n include "), H("a", 3, "any"), L("\n}")])
    nop("first_line", [H("a", 3, "any"), L("\nserver {\n}")])
    nop("after_close", [L("server {\n}\n"), H("a", 3, "any")])
    nop("two_lines", [L("server {\n"), H("a", 2, "any"), L("\n"), H("b", 2, "any"), L("\n}")])
    if tier == "thorough":
        nop("line_4", [L("server {\n"), H("a", 4, "any"), L("\n}")])
        nop("host_name3", [L("server {\n host "), H("a", 3, "any"), L(" {\n }\n}")])
        nop("value_any4", [L("server {\n k "), H("a", 4, "any"), L("\n}")])
        nop("nested_any", [L("server {\n log {\n"), H("a", 3, "any"), L("\n }\n}")])
    return T


def instantiate(z3, segs, conc=None):
    chars, assume, holes = [], [], {}
    for seg in segs:
        if seg[0] == "lit":
            chars += [ord(c) for c in seg[1]]
        else:
            _, name, k, cls = seg
            if conc is not None:
                cs = list(conc[name])
            else:
                cs = [z3.Int("%s%d" % (name, i)) for i in range(k)]
                assume += [cls_pred(z3, cls, c) for c in cs]
            holes[name] = cs
            chars += cs
    return chars, assume, holes


def extra_assumptions(z3, name, holes):
    a = []
    if name == "values":
        # the key is not `include`-like (2 letters cannot be) ; nothing to add. The quoted value must not end in a way that changes typing: any inq is fine.
        pass
    if name == "bad_value":
        # `x??` must not be a size/bool/number: starts with 'x' so never; nothing to add
        pass
    if name == "hosts_routes":
        # bare host name `gg`: not starting/ending with a quote (alpha) ; quoted host `"hh"`: word class has no quote
        pass
    return a


def flat(parts, holes):
    out = []
    for p in parts:
        out += [ord(c) for c in p[1]] if isinstance(p, tuple) else holes[p]
    return out


def compare(z3, got, want, holes, path="$"):
    from mirsym.models import str_chars
    def kind(g):
        return g[1].split("::")[-1] if isinstance(g, tuple) and g and g[0] == "enum" else None
    tag = want[0]
    exp_kind = {"Sec": "Section", "Host": "Host", "Route": "Route", "Str": "String", "Num": "Number", "Bool": "Boolean"}[tag]
    if kind(got) != exp_kind:
        return [("%s: expected a %s node, got %s" % (path, exp_kind, kind(got)), True)]
    def cmp_str(g, parts, what):
        gc = list(str_chars(g))
        wc = flat(parts, holes)
        if len(gc) != len(wc):
            return [("%s: %s has %d characters, the file says %d" % (path, what, len(gc), len(wc)), True)]
        diffs = [a != b for a, b in zip(gc, wc) if not (isinstance(a, int) and isinstance(b, int) and a == b)]
        diffs = [d for d in diffs if d is not False]
        if any(d is True for d in diffs):
            return [("%s: %s" % (path, what), True)]
        return [("%s: %s" % (path, what), z3.Or(*diffs))] if diffs else []
    out = cmp_str(got[2][0], want[1], "name/key")
    if tag in ("Str", "Num", "Bool"):
        out += cmp_str(got[2][1], want[2], "value")
        return out
    items = list(got[2][1].items)
    if len(items) != len(want[2]):
        return out + [("%s: %d children, the file describes %d" % (path, len(items), len(want[2])), True)]
    for i, (g, w) in enumerate(zip(items, want[2])):
        out += compare(z3, g, w, holes, "%s/%d" % (path, i))
    return out


def _setup():
    import z3
    from mirsym.mir import parse_mir, ensure_parsed
    from mirsym.exec import Ctx, Exec
    from mirsym.models import COMMON
    from mirsym.models_fmt import make_models as fmt_models
    from mirsym.models_http import make_models as http_models
    from mirsym.models_json import make_models as json_models
    from mirsym import models_conf
    from mirsym.models_ws import load_enum_decls
    if "funcs" not in _G:
        _G["funcs"] = parse_mir(_G["mir"])
        _G["enums"] = load_enum_decls(os.path.join(REPO, "humphrey-server", "src"))
    funcs = _G["funcs"]
    c = [v for n, v in funcs.items() if not isinstance(v, tuple) and n.endswith("parse_conf")]
    if len(c) != 1:
        raise RuntimeError("cannot locate config::tree::parse_conf in the MIR dump (%d candidates)" % len(c))
    f = ensure_parsed(c[0])

    def mk(assume=(), files=None):
        from mirsym.models import ConcStr
        models_conf.FS.clear()
        models_conf.FS.update({k: ConcStr(v) for k, v in (files or {}).items()})
        ctx = Ctx(funcs, models_conf.make_models() + fmt_models() + http_models() + json_models() + COMMON, mode="int", loop_bound=120, time_budget=_G.get("budget", 600))
        ctx.enum_decls = _G["enums"]
        ctx.base_assumptions = list(assume)
        return ctx, Exec(ctx)
    return z3, f, mk


def _job(name):
    t0 = time.time()
    res = {"template": name, "verdict": "unsat", "fails": [], "n_checks": 0}
    try:
        z3, f, mk = _setup()
        from mirsym.exec import z3bool
        from mirsym.models import SymStr, ConcStr
        kind, segs, want, files = templates(_G["tier"])[name]
        res["kind"] = kind
        chars, assume, holes = instantiate(z3, segs)
        assume += extra_assumptions(z3, name, holes)
        ctx, ex = mk(assume, files)
        out = ex.run_function(f, [("refval", SymStr("conf", tuple(chars)) if any(not isinstance(c, int) for c in chars) else ConcStr("".join(chr(c) for c in chars))), ("refval", ConcStr("f"))])
        res["paths"] = len(out.rets) + len(out.panics)
        s = z3.Solver()
        s.set("timeout", 120000)
        s.set("random_seed", seed() % 953)
        s.add(*assume)
        checks = []
        for pc, msg in out.panics:
            checks.append(("no panic: " + str(msg)[:90], z3bool(pc) if pc is not True else z3.BoolVal(True)))
        cover = [z3bool(pc) if pc is not True else z3.BoolVal(True) for pc, *_ in out.rets] + [z3bool(pc) if pc is not True else z3.BoolVal(True) for pc, _ in out.panics]
        checks.append(("every file has an outcome", z3.Not(z3.Or(*cover)) if cover else z3.BoolVal(True)))
        for pc, v, _, _ in out.rets:
            pcz = z3bool(pc) if pc is not True else z3.BoolVal(True)
            if kind == "tree":
                if v[1] != "Ok":
                    checks.append(("a file that follows the syntax is loaded (got an error: %s)" % str(v[2][0][1][0])[:60], pcz))
                else:
                    for what, cond in compare(z3, v[2][0], want, holes):
                        checks.append(("the tree is the one the file describes — " + what, pcz if cond is True else z3.And(pcz, cond)))
            elif kind == "error":
                if v[1] == "Ok":
                    checks.append(("a file with a syntax fault is rejected", pcz))
                else:
                    e = v[2][0][1]
                    line, fname = want
                    fn = e[1].s if hasattr(e[1], "s") else None
                    if (line is not None and e[2] != line) or fn != fname:
                        checks.append(("the error names file %s line %s (got %s line %s: %s)" % (fname, line if line is not None else "(any)", fn, e[2], str(e[0])[:50]), pcz))
        tq = time.time()
        for what, fm in checks:
            s.push()
            s.add(fm)
            r = s.check()
            res["n_checks"] += 1
            if r == z3.sat:
                m = s.model()
                txt = "".join(chr(c if isinstance(c, int) else m.eval(c, model_completion=True).as_long()) for c in chars)
                res["fails"].append({"what": what, "text": txt})
                res["verdict"] = "sat"
            elif r != z3.unsat and res["verdict"] == "unsat":
                res["verdict"] = "unknown"
            s.pop()
        if s.check() != z3.sat:
            res["verdict"] = "vacuous"
        res.update({"symex_s": round(tq - t0, 2), "solver_s": round(time.time() - tq + ctx.tq, 2), "blocks": ctx.blocks_executed, "feasibility_queries": ctx.nq, "models": sorted(ctx.calls_seen.keys())})
    except Exception as e:
        import traceback
        res.update({"verdict": "undischarged", "why": "%s: %s" % (type(e).__name__, str(e)[:300]), "tb": traceback.format_exc()[-900:]})
    res["wall_s"] = round(time.time() - t0, 2)
    return res


# ---- native side: `mtool confdir <dir hex> <conf hex>` runs parse_conf with the working directory set to a scratch dir holding the include files
def native(exe, text, files):
    d = tempfile.mkdtemp(prefix="vconf_", dir=os.path.join(WORK, "C15") if os.path.isdir(os.path.join(WORK, "C15")) else None)
    try:
        for k, v in files.items():
            with open(os.path.join(d, k), "w") as f:
                f.write(v)
        out = mengine.native_eval(exe, ["confdir %s %s" % (d.encode().hex(), text.encode("utf-8").hex() or "-")])[0]
    finally:
        shutil.rmtree(d, ignore_errors=True)
    return out


def fmt_tree(want, holes_conc):
    """Expected Debug print of the tree (mtool prints `OK {:?}`)."""
    def s(parts):
        return "".join(chr(c) for c in flat(parts, holes_conc))
    def q(t):
        return json.dumps(t, ensure_ascii=False).replace("\\u007f", "\x7f")
    tag = want[0]
    name = {"Sec": "Section", "Host": "Host", "Route": "Route", "Str": "String", "Num": "Number", "Bool": "Boolean"}[tag]
    if tag in ("Str", "Num", "Bool"):
        return "%s(%s, %s)" % (name, q(s(want[1])), q(s(want[2])))
    return "%s(%s, [%s])" % (name, q(s(want[1])), ", ".join(fmt_tree(w, holes_conc) for w in want[2]))


def expected_native(name, text, tier):
    """What the native run must print for a concrete instance of a template (None: only `no panic` is required)."""
    kind, segs, want, files = templates(tier)[name]
    pos, holes = 0, {}
    for seg in segs:
        if seg[0] == "lit":
            pos += len(seg[1])
        else:
            holes[seg[1]] = [ord(c) for c in text[pos:pos + seg[2]]]
            pos += seg[2]
    if kind == "tree":
        return "OK " + fmt_tree(want, holes)
    if kind == "error":
        return "ERRLINE %s %s" % (want[1], want[0] if want[0] is not None else "any")
    return None


def judge(name, out, text, tier):
    """-> True if the native output deviates from what the template requires"""
    if out == "PANIC" or out == "HANG":
        return True
    exp = expected_native(name, text, tier)
    if exp is None:
        return False
    if exp.startswith("ERRLINE"):
        _, fn, line = exp.split()
        if not out.startswith("ERR"):
            return True
        return not (('file: "%s"' % fn) in out and (line == "any" or ('line: %s }' % line) in out))
    return out != exp


def _concrete(job):
    name, text = job
    try:
        z3, f, mk = _setup()
        from mirsym.models import ConcStr
        kind, segs, want, files = templates(_G["tier"])[name]
        ctx, ex = mk((), files)
        out = ex.run_function(f, [("refval", ConcStr(text)), ("refval", ConcStr("f"))])
        if out.panics and not out.rets:
            return "PANIC"
        v = out.rets[0][1]
        return "OK" if v[1] == "Ok" else "ERR"
    except Exception as e:
        return "EXEC-ERROR %s: %s" % (type(e).__name__, str(e)[:200])


def run_part(tier, mir):
    import z3
    _G.update({"mir": mir, "tier": tier, "budget": 1500 if tier == "thorough" else 500})
    _G.pop("funcs", None)
    known = load_known()
    out = {"results": [], "violations": [], "known_hits": [], "machinery": [], "undischarged": [], "validation": {}}
    exe_dev = mengine.build_mtool("debug")
    exe_rel = mengine.build_mtool("release")
    rnd = random.Random(seed() * 37 + 9)
    T = templates(tier)
    jobs = []
    for name in sorted(T):
        kind, segs, want, files = T[name]
        for _ in range(3):
            conc = {seg[1]: [ord(rnd.choice(POOL[seg[3]])) for _ in range(seg[2])] for seg in segs if seg[0] == "hole"}
            chars, _, _ = instantiate(z3, segs, conc)
            jobs.append((name, "".join(chr(c) for c in chars)))
    eng = mengine.pmap(_concrete, jobs)
    nat = [native(exe_dev, t, T[n][3]) for n, t in jobs]
    short = lambda o: "PANIC" if o == "PANIC" else "OK" if o.startswith("OK") else "ERR" if o.startswith("ERR") else o[:40]
    cannot = [e for e in eng if e.startswith("EXEC-ERROR")]
    known_keys = {k for (p, k) in known if p == "C15"}
    mism = [(j, e, short(n)) for j, e, n in zip(jobs, eng, nat) if not e.startswith("EXEC-ERROR") and e != short(n)]
    refbad = [(n_, t, o) for (n_, t), o in zip(jobs, nat) if judge(n_, o, t, tier)]
    out["validation"] = {"files": len(jobs), "mismatches": len(mism), "engine_cannot_run": len(cannot), "native_deviations_from_templates": len(refbad)}
    if mism:
        out["machinery"].append("config tree: translator validation: encoding and native parser disagree on %d/%d files, e.g. %r" % (len(mism), len(jobs), mism[0]))
        return out
    if cannot:
        out["undischarged"].append({"template": "all", "why": cannot[0][:300]})
        for n_, t, o in refbad[:1]:
            _classify(out, known, n_, t, "native probe (the encoding cannot execute this tree)", exe_dev, exe_rel, tier, False)
        return out
    rs = mengine.pmap(_job, sorted(T), jobs=int(os.environ.get("VERIF_JOBS", "14")))
    out["results"] = rs
    for r in rs:
        if r["verdict"] == "sat":
            seen = set()
            for fl in r["fails"]:
                k = role(fl["text"], fl["what"])
                if k in seen:
                    continue
                seen.add(k)
                _classify(out, known, r["template"], fl["text"], fl["what"], exe_dev, exe_rel, tier, True)
        elif r["verdict"] != "unsat":
            out["undischarged"].append({"template": r["template"], "why": r.get("why", r["verdict"])})
    if out["undischarged"] and not out["violations"]:
        for n_, t, o in refbad[:1]:
            _classify(out, known, n_, t, "native probe of template instances (some template could not be decided)", exe_dev, exe_rel, tier, False)
    return out


def role(text, what):
    if "no panic" in what or "PANIC" in what:
        if re.search(r"(?m)^\s*host\s+\"\s*\{", text):
            return "config:host-name-single-quote-slice-panic"
        return "config:panic"
    if "rejected" in what:
        return "config:fault-accepted"
    if "names file" in what:
        return "config:error-line"
    return "config:tree"


def _classify(out, known, name, text, what, exe_dev, exe_rel, tier, solver):
    files = templates(tier)[name][3]
    nd, nr = native(exe_dev, text, files), native(exe_rel, text, files)
    key = role(text, what if not (nd == "PANIC") else "no panic")
    rep = {"kind": "conftree", "template": name, "text": text, "files": files, "native_dev": nd[:400], "native_release": nr[:400], "expected": expected_native(name, text, tier), "failed": what, "key": key}
    if not judge(name, nd, text, tier) and not judge(name, nr, text, tier):
        if solver:
            out["machinery"].append("config template %s: counterexample %r (%s) does not reproduce natively (native %s)" % (name, text, what[:80], nd[:100]))
        return
    if ("C15", key) in known:
        if key not in [k["key"] for k in out["known_hits"]]:
            out["known_hits"].append(rep)
    elif key not in [v["key"] for v in out["violations"]]:
        out["violations"].append(rep)


def replay(d, tier="quick"):
    exe = mengine.build_mtool("debug")
    got = native(exe, d["text"], d.get("files") or {})
    log("parse_conf(%r) with include files %s -> %s ; required: %s" % (d["text"], sorted((d.get("files") or {}).keys()), got[:300], d.get("expected") or "a value or an error (no panic)"))
    T = templates("thorough")
    if d["template"] in T:
        return judge(d["template"], got, d["text"], "thorough")
    return got == "PANIC"
