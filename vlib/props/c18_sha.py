"""C18 (SHA-1) — <T as SHA1Hash>::hash, engine M in bit-vector mode with cut points at the five loop heads.

An 80-round equivalence miter is SAT-hard (DESIGN §2), so the function is decomposed at its loop heads (located in the MIR
of the current tree) and each piece is checked from a havoc'd state against RFC 3174 (method 1):
  P[L]   entry -> outer loop head, message of L symbolic bytes: padded message, IV, block count          (every L in the bound)
  LD[c]  outer head -> schedule head: chunk[0..16] are the big-endian words of block c
  E[t]   one iteration of the schedule loop from arbitrary W: W[t] = S^1(W[t-3]^W[t-8]^W[t-14]^W[t-16])   (t = 16..79)
  EX     schedule loop exit -> round loop head: (a..e) = (h0..h4)
  R[t]   one round from an arbitrary state: RFC 3174 §6.1 (d) with f_t, K_t                               (t = 0..79)
  RX     round loop exit -> outer head: h += (a..e)
  F      outer loop exit -> return: the digest is the big-endian bytes of h0..h4
By induction over rounds and blocks these give the RFC algorithm for every message length in the bound.
"""
import hashlib, itertools, json, os, random, time

from ..common import *
from .. import mengine

_G = {}
IV = (0x67452301, 0xEFCDAB89, 0x98BADCFE, 0x10325476, 0xC3D2E1F0)


def _setup():
    import z3
    from mirsym.mir import parse_mir, ensure_parsed
    from mirsym.exec import Ctx, Exec, loop_heads
    from mirsym.models import COMMON
    from mirsym.models_sha import SHA_MODELS
    funcs = parse_mir(_G["mir"])
    c = [v for n, v in funcs.items() if not isinstance(v, tuple) and "sha1.rs" in n and n.endswith("::hash")]
    if len(c) != 1:
        raise RuntimeError("cannot locate SHA1Hash::hash in the MIR dump")
    f = ensure_parsed(c[0])
    heads = sorted(loop_heads(f))
    kinds = []
    iters = []
    for h in heads:
        t = f.blocks[h].term
        if t[0] != "call":
            raise RuntimeError("loop head bb%d does not start with an iterator call" % h)
        kinds.append("range" if "Range<usize>" in t[2] else "enum" if "Enumerate" in t[2] else "zip" if "Zip" in t[2] else "?")
        # the iterator local is the one borrowed mutably in the head block
        loc = None
        for s in f.blocks[h].stmts:
            if s[0] == "assign" and s[2][0] == "ref":
                loc = s[2][1][1]
        iters.append(loc)
    if kinds != ["range", "range", "range", "enum", "zip"]:
        raise RuntimeError("unexpected loop structure in hash(): %r — cut points cannot be resolved" % (kinds,))
    import re
    def loc(name, k=0):
        p = f.debug.get(name)
        if not p:
            raise RuntimeError("debug variable %s not found" % name)
        return int(re.fullmatch(r"_(\d+)", p[k]).group(1))
    L = {n: loc(n) for n in ("message", "h0", "h1", "h2", "h3", "h4", "chunk", "a", "b", "c", "d", "e")}
    K = dict(zip(("outer", "load", "ext", "round", "out"), heads))
    IT = dict(zip(("outer", "load", "ext", "round", "out"), iters))
    def mk(loop_bound=200):
        ctx = Ctx(funcs, SHA_MODELS + COMMON, mode="bv", loop_bound=loop_bound, time_budget=_G.get("budget", 600))
        ctx.frame_ids = itertools.count(5000)
        return ctx, Exec(ctx)
    return z3, f, L, K, IT, mk


def _eq_all(z3, pairs, pc=None, assum=()):
    """All pairs equal? simplify first, solver for the rest. Returns (ok, model_or_None, n_solver)."""
    from mirsym.models_sha import _bv
    rest = []
    for a, b in pairs:
        w = a.size() if hasattr(a, "size") else b.size() if hasattr(b, "size") else 64
        e = z3.simplify(_bv(a, w) == _bv(b, w))
        if z3.is_true(e):
            continue
        rest.append(e)
    if not rest:
        return True, None, 0
    s = z3.Solver()
    s.set("timeout", 60000)
    s.add(*assum)
    if pc is not None and pc is not True:
        s.add(pc)
    s.add(z3.Not(z3.And(*rest)))
    r = s.check()
    if r == z3.unsat:
        return True, None, 1
    if r == z3.sat:
        return False, s.model(), 1
    return None, None, 1


def _S(z3, x, k):
    return z3.RotateLeft(x, k)


def _job(job):
    kind = job[0]
    t0 = time.time()
    res = {"job": list(job)}
    try:
        z3, f, L, K, IT, mk = _setup()
        from mirsym.exec import z3bool, UNINIT
        from mirsym.models_sha import SliceIter, EnumIt, _bv
        ctx, ex = mk()
        FID = 5000
        BV = z3.BitVec
        def chunk_ref():
            return ("ref", ("local", FID, L["chunk"], ()))
        hv = [BV("h%d" % i, 32) for i in range(5)]
        av = [BV(n, 32) for n in "abcde"]
        W = [BV("w%d" % i, 32) for i in range(80)]
        nsolver = 0
        fails = []
        def check(name, pairs, pc=None):
            nonlocal nsolver
            ok, model, n = _eq_all(z3, pairs, pc)
            nsolver += n
            if ok is not True:
                fails.append((name, "sat" if ok is False else "unknown", model))
        def one_stop(out, bb):
            if out.panics:
                fails.append(("no panic: " + out.panics[0][1][:60], "sat", None))
            st = [s for s in out.stops if s[1] == bb]
            other = [s for s in out.stops if s[1] != bb]
            if len(st) != 1 or other or out.rets:
                fails.append(("control reaches bb%d exactly once (stops=%r rets=%d)" % (bb, [s[1] for s in out.stops], len(out.rets)), "sat", None))
                return None
            return st[0]
        if kind == "P":
            n = job[1]
            bs = [BV("m%d" % i, 8) for i in range(n)]
            out = ex.run_function(f, [("refval", ("agg", tuple(bs)))], stop_blocks={K["outer"]})
            st = one_stop(out, K["outer"])
            if st:
                locs = st[2]
                want = list(bs) + [0x80]
                while len(want) % 64 != 56:
                    want.append(0)
                want += [((n * 8) >> (56 - 8 * i)) & 0xFF for i in range(8)]
                msg = ex.elements(locs[L["message"]])
                if len(msg) != len(want):
                    fails.append(("padded length %d, expected %d" % (len(msg), len(want)), "sat", None))
                else:
                    check("padded message = M || 0x80 || 0* || len64", list(zip(msg, want)))
                check("initial hash value", [(locs[L["h%d" % i]], IV[i]) for i in range(5)])
                it = locs[IT["outer"]]
                if it != ("agg", (0, len(want) // 64)):
                    fails.append(("block iterator is 0..%d (got %r)" % (len(want) // 64, it), "sat", None))
        elif kind == "LD":
            c = job[1]
            msg = [BV("p%d" % i, 8) for i in range(128)]
            start = {L["message"]: ("agg", tuple(msg)), L["chunk"]: ("agg", tuple(W)), IT["outer"]: ("agg", (c, 2))}
            for i in range(5):
                start[L["h%d" % i]] = hv[i]
            out = ex.run_function(f, None, start_bb=K["outer"], start_locals=start, stop_blocks={K["ext"]})
            st = one_stop(out, K["ext"])
            if st:
                ch = ex.elements(st[2][L["chunk"]])
                check("chunk[0..16] = big-endian words of block %d" % c,
                      [(ch[i], z3.Concat(*msg[64 * c + 4 * i: 64 * c + 4 * i + 4])) for i in range(16)])
                check("chunk[16..] untouched by loading", [(ch[i], W[i]) for i in range(16, 80)])
                if st[2][IT["ext"]] != ("agg", (16, 80)):
                    fails.append(("schedule iterator is 16..80 (got %r)" % (st[2][IT["ext"]],), "sat", None))
                check("h untouched by loading", [(st[2][L["h%d" % i]], hv[i]) for i in range(5)])
        elif kind == "E":
            t = job[1]
            start = {L["chunk"]: ("agg", tuple(W)), IT["ext"]: ("agg", (t, 80)), L["message"]: ("agg", ()), IT["outer"]: ("agg", (1, 2))}
            for i in range(5):
                start[L["h%d" % i]] = hv[i]
            out = ex.run_function(f, None, start_bb=K["ext"], start_locals=start, stop_blocks={K["ext"], K["round"]})
            st = one_stop(out, K["ext"])
            if st:
                ch = ex.elements(st[2][L["chunk"]])
                check("W[%d] = S^1(W[t-3]^W[t-8]^W[t-14]^W[t-16])" % t, [(ch[t], _S(z3, W[t - 3] ^ W[t - 8] ^ W[t - 14] ^ W[t - 16], 1))])
                check("other schedule words untouched", [(ch[i], W[i]) for i in range(80) if i != t])
                if st[2][IT["ext"]] != ("agg", (t + 1, 80)):
                    fails.append(("schedule iterator advanced to %d" % (t + 1), "sat", None))
        elif kind == "EX":
            start = {L["chunk"]: ("agg", tuple(W)), IT["ext"]: ("agg", (80, 80)), L["message"]: ("agg", ()), IT["outer"]: ("agg", (1, 2))}
            for i in range(5):
                start[L["h%d" % i]] = hv[i]
            out = ex.run_function(f, None, start_bb=K["ext"], start_locals=start, stop_blocks={K["ext"], K["round"]})
            st = one_stop(out, K["round"])
            if st:
                check("(a..e) initialised from (h0..h4)", [(st[2][L[n]], hv[i]) for i, n in enumerate("abcde")])
                check("schedule untouched", [(x, W[i]) for i, x in enumerate(ex.elements(st[2][L["chunk"]]))])
                it = st[2][IT["round"]]
                if not (isinstance(it, EnumIt) and it.count == 0 and it.it.pos == 0):
                    fails.append(("round iterator starts at 0 (got %r)" % (it,), "sat", None))
        elif kind == "R":
            t = job[1]
            start = {L["chunk"]: ("agg", tuple(W)), IT["round"]: EnumIt(SliceIter(chunk_ref(), t, False), t), L["message"]: ("agg", ()), IT["outer"]: ("agg", (1, 2))}
            for i in range(5):
                start[L["h%d" % i]] = hv[i]
                start[L["abcde"[i]]] = av[i]
            out = ex.run_function(f, None, start_bb=K["round"], start_locals=start, stop_blocks={K["round"], K["outer"]})
            st = one_stop(out, K["round"])
            if st:
                A, B, C, D, E = av
                if t < 20:
                    fv, Kc = (B & C) | (~B & D), 0x5A827999
                elif t < 40:
                    fv, Kc = B ^ C ^ D, 0x6ED9EBA1
                elif t < 60:
                    fv, Kc = (B & C) | (B & D) | (C & D), 0x8F1BBCDC
                else:
                    fv, Kc = B ^ C ^ D, 0xCA62C1D6
                temp = _S(z3, A, 5) + fv + E + W[t] + z3.BitVecVal(Kc, 32)
                want = [temp, A, _S(z3, B, 30), C, D]
                check("round %d: (a,b,c,d,e)' = (S^5(a)+f_t(b,c,d)+e+W_t+K_t, a, S^30(b), c, d)" % t, [(st[2][L[n]], want[i]) for i, n in enumerate("abcde")])
                check("h untouched by a round", [(st[2][L["h%d" % i]], hv[i]) for i in range(5)])
                it = st[2][IT["round"]]
                if not (isinstance(it, EnumIt) and it.count == t + 1 and it.it.pos == t + 1):
                    fails.append(("round iterator advanced to %d (got %r)" % (t + 1, it), "sat", None))
        elif kind == "RX":
            start = {L["chunk"]: ("agg", tuple(W)), IT["round"]: EnumIt(SliceIter(chunk_ref(), 80, False), 80), L["message"]: ("agg", ()), IT["outer"]: ("agg", (1, 2))}
            for i in range(5):
                start[L["h%d" % i]] = hv[i]
                start[L["abcde"[i]]] = av[i]
            out = ex.run_function(f, None, start_bb=K["round"], start_locals=start, stop_blocks={K["round"], K["outer"]})
            st = one_stop(out, K["outer"])
            if st:
                check("h' = h + (a..e) mod 2^32", [(st[2][L["h%d" % i]], hv[i] + av[i]) for i in range(5)])
                if st[2][IT["outer"]] != ("agg", (1, 2)):
                    fails.append(("block iterator untouched by the round loop", "sat", None))
        elif kind == "F":
            start = {L["chunk"]: ("agg", tuple(W)), L["message"]: ("agg", ()), IT["outer"]: ("agg", (2, 2))}
            for i in range(5):
                start[L["h%d" % i]] = hv[i]
            out = ex.run_function(f, None, start_bb=K["outer"], start_locals=start, stop_blocks={K["load"], K["ext"], K["round"]})
            if out.panics or out.stops or len(out.rets) != 1:
                fails.append(("function returns after the last block (rets=%d stops=%d panics=%d)" % (len(out.rets), len(out.stops), len(out.panics)), "sat", None))
            else:
                dig = ex.elements(out.rets[0][1])
                want = [z3.Extract(31 - 8 * (i % 4), 24 - 8 * (i % 4), hv[i // 4]) for i in range(20)]
                if len(dig) != 20:
                    fails.append(("digest has 20 bytes", "sat", None))
                else:
                    check("digest = big-endian bytes of h0..h4", list(zip(dig, want)))
        res.update({"verdict": "unsat" if not fails else ("sat" if any(x[1] == "sat" for x in fails) else "unknown"), "fails": [(a, b) for a, b, _ in fails],
                    "blocks": ctx.blocks_executed, "solver_queries": nsolver, "models": sorted(ctx.calls_seen.keys()), "cuts": {k: "bb%d" % v for k, v in K.items()}})
    except Exception as e:
        import traceback
        res.update({"verdict": "undischarged", "why": "%s: %s" % (type(e).__name__, str(e)[:300]), "tb": traceback.format_exc()[-600:]})
    res["wall_s"] = round(time.time() - t0, 2)
    return res


def _concrete(msg):
    z3, f, L, K, IT, mk = _setup()
    ctx, ex = mk(loop_bound=5000)
    out = ex.run_function(f, [("refval", ("agg", tuple(msg)))])
    if len(out.rets) != 1 or out.panics:
        return "PANIC"
    return bytes(int(x) for x in ex.elements(out.rets[0][1])).hex()


def run_part(tier, work, mir):
    _G["mir"] = mir
    _G["budget"] = 900
    out = {"violations": [], "machinery": [], "undischarged": [], "results": [], "validation": {}}
    exe = mengine.build_mtool("debug")
    rnd = random.Random(seed() * 17 + 1)
    msgs = [b"", b"abc", b"a" * 55, b"a" * 56, b"a" * 63, b"a" * 64, b"a" * 119, b"a" * 120, b"The quick brown fox jumps over the lazy dog"] + \
           [bytes(rnd.randrange(256) for _ in range(rnd.randint(0, 200))) for _ in range(40)]
    try:
        native = mengine.native_eval(exe, ["sha1 %s" % (m.hex() or "-") for m in msgs])
        enc = mengine.pmap(_concrete, [list(m) for m in msgs])
    except Exception as e:
        out["undischarged"].append({"job": ["validation"], "why": str(e)[:300]})
        return out
    ref = [hashlib.sha1(m).hexdigest() for m in msgs]
    bad_enc = [(msgs[i].hex(), native[i], enc[i]) for i in range(len(msgs)) if native[i] != enc[i]]
    bad_ref = [(msgs[i].hex(), native[i], ref[i]) for i in range(len(msgs)) if native[i] != ref[i]]
    out["validation"] = {"inputs": len(msgs), "encoding_vs_native_disagreements": len(bad_enc), "native_vs_hashlib_disagreements": len(bad_ref)}
    if bad_enc:
        out["machinery"].append("translator validation failed: encoding and native hash disagree, e.g. %r" % (bad_enc[0],))
        return out
    LMAX = 1100 if tier == "thorough" else 130
    jobs = [("P", n) for n in range(0, LMAX + 1)] + [("LD", 0), ("LD", 1)] + [("E", t) for t in range(16, 80)] + [("EX",)] + [("R", t) for t in range(80)] + [("RX",), ("F",)]
    results = mengine.pmap(_job, jobs)
    out["results"] = results
    for r in results:
        if r["verdict"] == "unsat":
            continue
        if r["verdict"] == "undischarged":
            out["undischarged"].append(r)
        else:
            out["failed"] = out.get("failed", []) + [r]
    # a failed piece means the function differs from RFC 3174 somewhere: find a concrete witness natively
    if out.get("failed"):
        wit = None
        if bad_ref:
            wit = bad_ref[0]
        else:
            more = [bytes(rnd.randrange(256) for _ in range(n)) for n in list(range(0, 130)) + [rnd.randint(130, 1100) for _ in range(60)]]
            nat = mengine.native_eval(exe, ["sha1 %s" % (m.hex() or "-") for m in more])
            for m, n in zip(more, nat):
                if n != hashlib.sha1(m).hexdigest():
                    wit = (m.hex(), n, hashlib.sha1(m).hexdigest())
                    break
        if wit:
            out["violations"].append({"message_hex": wit[0], "native": wit[1], "expected": wit[2], "failed_pieces": [(r["job"], r["fails"][:2]) for r in out["failed"][:4]]})
        else:
            out["machinery"].append("SHA-1 pieces failed (%s) but no message with a wrong native digest was found among %d probes" % (out["failed"][0]["fails"][:1], 190))
    elif bad_ref:
        out["violations"].append({"message_hex": bad_ref[0][0], "native": bad_ref[0][1], "expected": bad_ref[0][2], "failed_pieces": "sampled input"})
    return out
