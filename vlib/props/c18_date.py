"""C18 (dates) — <DateTime as From<i64>>::from for every timestamp 1970..9999, engine M with cut points.

The function is a chain of 64-bit divisions by constants; monolithically neither bit-blasting nor z3's integer
solver decides it (DESIGN §2). It is cut at three program points that are located in the MIR of the *current* tree:
  cut1 = join after the last write to `days`            (first two writes: the division and the negative fix-up)
  cut2 = join after the 400-year normalisation          (first two writes to `remaining_days`)
  cut3 = head of the month loop
Each segment is executed symbolically from a havoc'd state that satisfies the previous invariant I_k and must
establish I_{k+1} (or, for the last one, the calendar specification). The invariants are exact (every state that
satisfies I_k is reached by a closed-form timestamp), so a counterexample maps back to a timestamp and is replayed.
"""
import datetime, json, os, random, time

from ..common import *
from .. import mengine

TMAX = 253402300799          # 9999-12-31T23:59:59Z
EPOCH_SHIFT = 951868800      # 2000-03-01T00:00:00Z  (= 11017 days)
D400, D100, D4 = 146097, 36524, 1461

_G = {}


def py_ref(ts):
    d = datetime.datetime(1970, 1, 1) + datetime.timedelta(seconds=ts)
    wd = (d.weekday() + 1) % 7          # Sunday = 0
    return "%d %d %d %d %d %d %d %d" % (ts, d.year, d.month - 1, d.day, wd, d.hour, d.minute, d.second)


def find_func(funcs):
    from mirsym.mir import ensure_parsed
    cands = [f for n, f in funcs.items() if not isinstance(f, tuple) and "date.rs" in n and n.endswith("::from") and f.ret_type.endswith("DateTime")]
    if len(cands) != 1:
        raise RuntimeError("cannot locate <DateTime as From<i64>>::from in the MIR dump (%d candidates)" % len(cands))
    return ensure_parsed(cands[0])


def local_of(func, name):
    places = func.debug.get(name)
    if not places:
        raise RuntimeError("debug variable `%s` not found: cut points cannot be resolved" % name)
    import re
    m = re.fullmatch(r"_(\d+)", places[0])
    if not m:
        raise RuntimeError("debug variable `%s` is not a plain local" % name)
    return int(m.group(1))


def write_blocks(func, local, k):
    """Blocks containing the first k writes (textual order) to `local`."""
    out = []
    for idx in sorted(func.blocks):
        b = func.blocks[idx]
        for s in b.stmts:
            if s[0] == "assign" and s[1][1] == local and not s[1][2]:
                out.append(idx)
        t = b.term
        if t[0] == "call" and t[1] is not None and t[1][1] == local and not t[1][2]:
            out.append(idx)
    return out[:k]


def cut_after(func, local, k):
    """Nearest common post-dominator of the blocks holding the first k writes to `local` (excluding them)."""
    from mirsym.exec import postdominators, successors
    wb = write_blocks(func, local, k)
    if len(wb) < k:
        raise RuntimeError("fewer than %d writes to _%d" % (k, local))
    pd = postdominators(func)
    common = None
    for b in wb:
        common = set(pd[b]) if common is None else common & pd[b]
    common -= set(wb)
    if not common:
        raise RuntimeError("no common post-dominator")
    # nearest = the one that is post-dominated by all others in the set, i.e. with the largest pdom set
    return max(common, key=lambda c: len(pd[c]))


def resolve(func):
    from mirsym.exec import loop_heads
    L = {n: local_of(func, n) for n in ("timestamp", "days", "remaining_seconds", "weekday", "y400_cycles", "remaining_days", "year", "months")}
    heads = sorted(loop_heads(func))
    if len(heads) != 1:
        raise RuntimeError("expected exactly one loop in DateTime::from, found %d" % len(heads))
    cuts = {"cut1": cut_after(func, L["days"], 2), "cut2": cut_after(func, L["remaining_days"], 2), "cut3": heads[0]}
    return L, cuts


def leap_next(z3, yoe):
    y = yoe + 1
    return z3.And(y % 4 == 0, z3.Or(y % 100 != 0, y % 400 == 0))


def days_from_civil(z3, Y, M, D):
    """Hinnant's days_from_civil: days since 1970-01-01 of the proleptic Gregorian date Y-M-D (M 1..12)."""
    y = z3.If(M <= 2, Y - 1, Y)
    era = y / 400              # z3 Int division is floor for a positive divisor
    yoe = y - era * 400
    mp = z3.If(M > 2, M - 3, M + 9)
    doy = (153 * mp + 2) / 5 + D - 1
    doe = yoe * 365 + yoe / 4 - yoe / 100 + doy
    return era * 146097 + doe - 719468


def dim(z3, Y, M):
    leap = z3.And(Y % 4 == 0, z3.Or(Y % 100 != 0, Y % 400 == 0))
    return z3.If(z3.Or(M == 1, M == 3, M == 5, M == 7, M == 8, M == 10, M == 12), 31, z3.If(M == 2, z3.If(leap, 29, 28), 30))


def _segment(which):
    """Run one obligation; returns a result dict."""
    import z3
    from mirsym.mir import parse_mir
    from mirsym.exec import Ctx, Exec, ExecError, Unwind, z3bool, is_sym
    t0 = time.time()
    res = {"segment": which}
    try:
        funcs = parse_mir(_G["mir"])
        func = find_func(funcs)
        L, cuts = resolve(func)
        res["cuts"] = {k: "bb%d" % v for k, v in cuts.items()}
        ctx = Ctx(funcs, [], mode="int", loop_bound=16, time_budget=_G.get("budget", 600))
        ex = Exec(ctx)
        I = z3.Int
        ts = I("ts")
        days, rs, wd, y400, rd, year, yoe, rd2 = I("days"), I("rs"), I("wd"), I("y400"), I("rd"), I("year"), I("yoe"), I("rd2")
        DLO, DHI = -11017, (TMAX - EPOCH_SHIFT) // 86400
        inv1 = lambda d, r, t: z3.And(d * 86400 + r == t - EPOCH_SHIFT, r >= 0, r < 86400, d >= DLO, d <= DHI, t >= 0, t <= TMAX)
        inv2 = lambda d_y400, d_rd, d_wd, r, t, d: z3.And(d == d_y400 * D400 + d_rd, d_rd >= 0, d_rd < D400, d_wd == (t / 86400 + 4) % 7, d_wd >= 0, d_wd <= 6, d_y400 >= -1, d_y400 <= 20,
                                                       r >= 0, r < 86400, d * 86400 + r == t - EPOCH_SHIFT, t >= 0, t <= TMAX)
        def inv3(v_year, v_rd2, v_months, v_wd, r, t, v_y400, v_rd, d):
            e = v_year - 2000 - 400 * v_y400
            return z3.And(v_months == 0, e >= 0, e <= 399, v_rd == 365 * e + e / 4 - e / 100 + v_rd2, v_rd2 >= 0,
                          v_rd2 <= 364 + z3.If(leap_next(z3, e), 1, 0), v_wd == (t / 86400 + 4) % 7, v_wd >= 0, v_wd <= 6, r >= 0, r < 86400)
        s = z3.Solver()
        s.set("random_seed", seed() % 997)
        checks = []   # (name, formula that must be UNSAT together with the assumptions)
        if which == "O1":
            assum = [ts >= 0, ts <= TMAX]
            ctx.base_assumptions = assum
            out = ex.run_function(func, [ts], stop_blocks={cuts["cut1"]})
            res["paths"] = len(out.stops)
            checks.append(("no return before cut1", z3.Or(*[z3bool(c) for c, _, _, _ in out.rets]) if out.rets else z3.BoolVal(False)))
            for c, m in out.panics:
                checks.append(("panic: " + m[:60], z3bool(c)))
            for c, bb, locs, _ in out.stops:
                checks.append(("I1 at cut1", z3.And(z3bool(c), z3.Not(inv1(locs[L["days"]], locs[L["remaining_seconds"]], locs[L["timestamp"]])))))
            cexvars = [ts]
        elif which == "O2":
            assum = [inv1(days, rs, ts)]
            ctx.base_assumptions = assum
            start = {L["timestamp"]: ts, L["days"]: days, L["remaining_seconds"]: rs}
            out = ex.run_function(func, None, start_bb=cuts["cut1"], start_locals=start, stop_blocks={cuts["cut2"]})
            res["paths"] = len(out.stops)
            checks.append(("no return before cut2", z3.Or(*[z3bool(c) for c, _, _, _ in out.rets]) if out.rets else z3.BoolVal(False)))
            for c, m in out.panics:
                checks.append(("panic: " + m[:60], z3bool(c)))
            for c, bb, locs, _ in out.stops:
                post = inv2(locs[L["y400_cycles"]], locs[L["remaining_days"]], locs[L["weekday"]], locs[L["remaining_seconds"]], locs[L["timestamp"]], days)
                checks.append(("I2 at cut2", z3.And(z3bool(c), z3.Not(post))))
            cexvars = [ts]
        elif which == "O3":
            assum = [inv2(y400, rd, wd, rs, ts, days)]
            ctx.base_assumptions = assum
            start = {L["timestamp"]: ts, L["remaining_seconds"]: rs, L["weekday"]: wd, L["y400_cycles"]: y400, L["remaining_days"]: rd}
            out = ex.run_function(func, None, start_bb=cuts["cut2"], start_locals=start, stop_blocks={cuts["cut3"]})
            res["paths"] = len(out.stops)
            checks.append(("no return before cut3", z3.Or(*[z3bool(c) for c, _, _, _ in out.rets]) if out.rets else z3.BoolVal(False)))
            for c, m in out.panics:
                checks.append(("panic: " + m[:60], z3bool(c)))
            for c, bb, locs, _ in out.stops:
                post = inv3(locs[L["year"]], locs[L["remaining_days"]], locs[L["months"]], locs[L["weekday"]], locs[L["remaining_seconds"]], locs[L["timestamp"]], y400, rd, days)
                post = z3.And(post, locs[L["timestamp"]] == ts)
                checks.append(("I3 at cut3", z3.And(z3bool(c), z3.Not(post))))
            cexvars = [ts]
        else:  # O4
            assum = [inv3(year, rd2, 0, wd, rs, ts, y400, rd, days), inv2(y400, rd, wd, rs, ts, days)]
            ctx.base_assumptions = assum
            start = {L["timestamp"]: ts, L["remaining_seconds"]: rs, L["weekday"]: wd, L["year"]: year, L["remaining_days"]: rd2, L["months"]: 0}
            # no summarisation at the loop head: one return case per month path (months is then a constant per case)
            out = ex.run_function(func, None, start_bb=cuts["cut3"], start_locals=start, cut_blocks=set())
            res["paths"] = len(out.rets)
            for c, m in out.panics:
                checks.append(("panic: " + m[:60], z3bool(c)))
            for pi, (c, v, _, _) in enumerate(out.rets):
                f_ts, f_year, f_month, f_day, f_wd, f_h, f_mi, f_s = v[1]
                Y, Mo, D = f_year, f_month + 1, f_day
                conj = [
                    ("timestamp field", f_ts == ts),
                    ("month/day/year ranges", z3.And(Mo >= 1, Mo <= 12, D >= 1, D <= dim(z3, Y, Mo), Y >= 1970, Y <= 9999)),
                    ("time-of-day ranges", z3.And(f_h >= 0, f_h < 24, f_mi >= 0, f_mi < 60, f_s >= 0, f_s < 60)),
                    ("time of day", f_h * 3600 + f_mi * 60 + f_s == rs),
                    ("civil date", days_from_civil(z3, Y, Mo, D) == days + 11017),
                    ("weekday (carried from cut2, where it is shown to be (ts div 86400 + 4) mod 7)", f_wd == wd),
                ]
                for nm, f in conj:
                    checks.append(("path %d: %s" % (pi, nm), z3.And(z3bool(c), z3.Not(f))))
            cexvars = [ts]
        s.add(*assum)
        tq = time.time()
        if _G.get("debug"):
            print("   ", which, "symex done in %.2fs, %d checks, %d feasibility queries (%.2fs)" % (tq - t0, len(checks), ctx.nq, ctx.tq), flush=True)
        verdict = "unsat"
        res["queries"] = []
        s.set("timeout", int(_G.get("query_timeout_ms", 120000)))
        for name, f in checks:
            s.push()
            s.add(f)
            t1 = time.time()
            r = s.check()
            if _G.get("debug"):
                print("   ", which, name, r, round(time.time() - t1, 2), flush=True)
            res["queries"].append({"check": name, "result": str(r), "s": round(time.time() - t1, 2)})
            if r == z3.sat:
                m = s.model()
                res["cex"] = {"ts": m.eval(ts, model_completion=True).as_long(), "check": name}
                verdict = "sat"
                s.pop()
                break
            if r != z3.unsat:
                verdict = "unknown"
            s.pop()
        # vacuity: the assumptions must be satisfiable
        if s.check() != z3.sat:
            verdict = "vacuous"
        res.update({"verdict": verdict, "symex_s": round(tq - t0, 2), "solver_s": round(time.time() - tq + ctx.tq, 2), "blocks": ctx.blocks_executed,
                    "feasibility_queries": ctx.nq, "n_checks": len(checks)})
    except Unwind as e:
        res.update({"verdict": "undischarged", "why": "unwinding: " + str(e)})
    except Exception as e:
        res.update({"verdict": "undischarged", "why": "%s: %s" % (type(e).__name__, str(e)[:400])})
    res["wall_s"] = round(time.time() - t0, 2)
    return res


def _concrete(ts):
    from mirsym.mir import parse_mir
    from mirsym.exec import Ctx, Exec
    funcs = parse_mir(_G["mir"])
    func = find_func(funcs)
    ctx = Ctx(funcs, [], mode="int", loop_bound=16)
    out = Exec(ctx).run_function(func, [ts])
    if len(out.rets) != 1 or out.panics:
        return "PANIC"
    return " ".join(str(int(x)) for x in out.rets[0][1][1])


REPO_TEST_TS = [1628437415, 1094474096, 1584716400, 1582979696, -84337067, -28504100829]


def run_part(tier, work, mir):
    """Returns dict(results, violations, machinery, undischarged, validation, log lines)."""
    _G["mir"] = mir
    _G["budget"] = 1800 if tier == "thorough" else 600
    exe_dev = mengine.build_mtool("debug")
    exe_rel = mengine.build_mtool("release")
    rnd = random.Random(seed() * 31 + 5)
    tss = list(REPO_TEST_TS) + [0, TMAX, 951868800, 951868799, 68169599, 68255999, 4107542400, 4107542399] + [rnd.randint(0, TMAX) for _ in range(200)]
    native = mengine.native_eval(exe_dev, ["date %d" % t for t in tss])
    enc = mengine.pmap(_concrete, tss)
    bad = [(tss[i], native[i], enc[i]) for i in range(len(tss)) if native[i] != enc[i]]
    refbad = [(t, native[i], py_ref(t)) for i, t in enumerate(tss) if 0 <= t <= TMAX and native[i] != py_ref(t)]
    out = {"validation": {"inputs": len(tss), "encoding_vs_native_disagreements": len(bad), "native_vs_python_reference_disagreements": len(refbad)},
           "violations": [], "machinery": [], "undischarged": [], "results": []}
    if bad:
        out["machinery"].append("translator validation failed: encoding and native DateTime::from disagree, e.g. %r" % (bad[0],))
        return out
    results = mengine.pmap(_segment, ["O1", "O2", "O3", "O4"])
    out["results"] = results
    for r in results:
        if r["verdict"] == "sat":
            ts = r["cex"]["ts"]
            nd = mengine.native_eval(exe_dev, ["date %d" % ts])[0]
            nr = mengine.native_eval(exe_rel, ["date %d" % ts])[0]
            want = py_ref(ts) if 0 <= ts <= TMAX else None
            r["replay"] = {"ts": ts, "native_dev": nd, "native_release": nr, "expected": want}
            if want is not None and (nd != want or nr != want):
                out["violations"].append(r)
            else:
                out["machinery"].append("segment %s: counterexample ts=%d (%s) does not reproduce natively (native %s) — invariant/encoding problem" % (r["segment"], ts, r["cex"]["check"], nd))
        elif r["verdict"] != "unsat":
            out["undischarged"].append(r)
    # a reference disagreement on the sampled inputs is itself a reproduced violation (found by validation, not by the solver)
    for t, n, w in refbad[:1]:
        out["violations"].append({"segment": "validation", "replay": {"ts": t, "native_dev": n, "native_release": n, "expected": w}, "cex": {"ts": t, "check": "sampled input"}})
    return out
