"""C15 — config loading (claimed: the K/M/G size-suffix kernel `parse_size`, engine M). Also the config part of C03."""
import json, os, random, re, time
from ..common import *
from .. import mengine, kengine

ID = "C15"
ENGINE = "M"
TECHNIQUE = "symbolic execution of the MIR of config::tree (parse_size over strings of symbolic Unicode scalar values; parse_conf/parse_section/include over configuration templates with symbolic holes and an in-memory file system) -> z3; counterexamples replayed through the public parse_conf natively (dev + release)"

_G = {}
I64_MIN, I64_MAX = -(1 << 63), (1 << 63) - 1
WS = [0x85, 0xA0, 0x1680, 0x2028, 0x2029, 0x202F, 0x205F, 0x3000] + list(range(0x2000, 0x200B))


def _func():
    from mirsym.mir import parse_mir, ensure_parsed
    funcs = parse_mir(_G["mir"])
    f = funcs.get("parse_size")
    if f is None or isinstance(f, tuple):
        c = [v for n, v in funcs.items() if not isinstance(v, tuple) and n.endswith("parse_size")]
        if len(c) != 1:
            raise RuntimeError("cannot locate config::tree::parse_size in the MIR dump")
        f = c[0]
    return funcs, ensure_parsed(f)


def _valid_char(z3, c):
    """A character that can be part of a value token: valid scalar, no whitespace/control, none of # { } \" (so that the
    value reaches parse_size unchanged when embedded in `k <value>`)."""
    return z3.And(c > 0x20, c != 0x7F, c <= 0x10FFFF, z3.Or(c < 0xD800, c > 0xDFFF), c != 35, c != 123, c != 125, c != 34,
                  *[c != w for w in WS])


def _obligation(n):
    import z3
    from mirsym.exec import Ctx, Exec, ExecError, Unwind, z3bool, ite, b_and, b_or, is_sym
    from mirsym.models import COMMON, SymStr, parse_int_cases
    t0 = time.time()
    res = {"n": n}
    try:
        funcs, f = _func()
        ctx = Ctx(funcs, COMMON, mode="int", loop_bound=8, time_budget=_G.get("budget", 600))
        ex = Exec(ctx)
        cs = [z3.Int("c%d" % i) for i in range(n)]
        assum = [_valid_char(z3, c) for c in cs]
        # caller's precondition (parse_section): the token is not an i64 literal — those are typed by an earlier branch
        int_acc, int_val = parse_int_cases(cs)
        assum.append(z3.Not(z3bool(int_acc)))
        ctx.base_assumptions = assum
        out = ex.run_function(f, [("refval", SymStr("size", tuple(cs)))])
        res["paths"] = len(out.rets)
        # reference
        last = cs[-1]
        up = z3.If(z3.And(last >= 97, last <= 122), last - 32, last)
        if n == 1:
            exp_ok, exp_val = z3bool(int_acc), int_val
        else:
            pre_acc, pre_val = parse_int_cases(cs[:-1])
            mult = z3.If(up == 75, 1024, z3.If(up == 77, 1024 ** 2, 1024 ** 3))
            suffix = z3.Or(up == 75, up == 77, up == 71)
            scaled = pre_val * mult
            fits = z3.And(scaled >= I64_MIN, scaled <= I64_MAX)
            is_digit = z3.And(last >= 48, last <= 57)
            exp_ok = z3.Or(z3.And(suffix, z3bool(pre_acc), fits), z3.And(is_digit, z3bool(int_acc)))
            exp_val = z3.If(suffix, scaled, int_val)
        s = z3.Solver()
        s.set("random_seed", seed() % 977)
        s.set("timeout", 120000)
        s.add(*assum)
        checks = []
        for c, m in out.panics:
            checks.append(("no panic: " + m[:70], z3bool(c)))
        total = z3.Or(*[z3bool(c) for c, _, _, _ in out.rets] + [z3bool(c) for c, _ in out.panics]) if (out.rets or out.panics) else z3.BoolVal(False)
        checks.append(("every input has an outcome", z3.Not(total)))
        for pi, (c, v, _, _) in enumerate(out.rets):
            if v[1] == "Ok":
                checks.append(("path %d: accepted only if the text is an integer or <integer>[KMG] that fits i64" % pi, z3.And(z3bool(c), z3.Not(exp_ok))))
                checks.append(("path %d: value = integer * 1024^j" % pi, z3.And(z3bool(c), exp_ok, v[2][0] != exp_val)))
            else:
                checks.append(("path %d: a well-formed size is not rejected" % pi, z3.And(z3bool(c), exp_ok)))
        tq = time.time()
        verdict = "unsat"
        nq = 0
        for name, fm in checks:
            s.push()
            s.add(fm)
            r = s.check()
            nq += 1
            if r == z3.sat:
                m = s.model()
                chars = [m.eval(c, model_completion=True).as_long() for c in cs]
                res.setdefault("cexs", []).append({"check": name, "chars": chars})
                verdict = "sat"
            elif r != z3.unsat and verdict == "unsat":
                verdict = "unknown"
            s.pop()
        if s.check() != z3.sat:
            verdict = "vacuous"
        res.update({"verdict": verdict, "n_checks": nq, "symex_s": round(tq - t0, 2), "solver_s": round(time.time() - tq + ctx.tq, 2), "blocks": ctx.blocks_executed,
                    "feasibility_queries": ctx.nq, "models": sorted(ctx.calls_seen.keys())})
    except Unwind as e:
        res.update({"verdict": "undischarged", "why": "unwinding: " + str(e)})
    except Exception as e:
        import traceback
        res.update({"verdict": "undischarged", "why": "%s: %s" % (type(e).__name__, str(e)[:300]), "tb": traceback.format_exc()[-700:]})
    res["wall_s"] = round(time.time() - t0, 2)
    return res


def ref_value(text):
    """Reference typing of a value token (no quotes/whitespace): ('num', v) | ('bool', b) | ('err',)"""
    def i64(t):
        if re.fullmatch(r"[+-]?[0-9]+", t):
            v = int(t)
            return v if I64_MIN <= v <= I64_MAX else None
        return None
    v = i64(text)
    if v is not None:
        return ("num", v)
    if text in ("true", "false"):
        return ("bool", text)
    if len(text) >= 2 and text[-1] in "kKmMgG":
        p = i64(text[:-1])
        if p is not None:
            v = p * 1024 ** ("kmg".index(text[-1].lower()) + 1)
            if I64_MIN <= v <= I64_MAX:
                return ("num", v)
    return ("err",)


def native_value(exe, text):
    conf = "server {\nk %s\n}" % text
    out = mengine.native_eval(exe, ["conf " + conf.encode("utf-8").hex()])[0]
    if out == "PANIC":
        return ("panic",), out
    m = re.match(r'OK Section\("server", \[(Number|Boolean|String)\("k", "(.*)"\)\]\)$', out)
    if m:
        kind, txt = m.groups()
        if kind == "Number":
            try:
                return ("num", int(txt)), out
            except ValueError:
                return ("other", txt), out
        if kind == "Boolean":
            return ("bool", txt), out
        return ("str", txt), out
    if out.startswith("ERR"):
        return ("err",), out
    return ("other", out), out


def _encoding_value(text):
    from mirsym.exec import Ctx, Exec
    from mirsym.models import COMMON, ConcStr
    try:
        funcs, f = _func()
        ctx = Ctx(funcs, COMMON, mode="int", loop_bound=8)
        out = Exec(ctx).run_function(f, [("refval", ConcStr(text))])
        if out.panics and not out.rets:
            return ("panic",)
        v = out.rets[0][1]
        return ("num", int(v[2][0])) if v[1] == "Ok" else ("err",)
    except Exception as e:
        return ("exec-error", "%s: %s" % (type(e).__name__, str(e)[:200]))


def run(tier):
    t0 = time.time()
    known = load_known()
    work = mengine.setup(ID)
    kengine.write_lists({})
    from mirsym.dump import dump_mir
    log("== %s tier=%s seed=%d; /repo HEAD %s%s" % (ID, tier, seed(), git_head(REPO), " +uncommitted changes" if repo_dirty() else ""))
    try:
        mir, dt = dump_mir("humphrey-server", work, features="verif")
    except Exception as e:
        log("ERROR: " + str(e)[:2000])
        write_evidence(ID, tier, {"evaluations": 0, "distinct_nontrivial": 0, "explanation": "MIR dump failed"}, [], time.time() - t0, 0)
        return 2
    _G["mir"] = mir
    _G["budget"] = 1200 if tier == "thorough" else 400
    exe_dev = mengine.build_mtool("debug")
    exe_rel = mengine.build_mtool("release")
    # translator validation: size-like tokens through the encoding (parse_size) and the native parser (parse_conf on `k <token>`)
    rnd = random.Random(seed() * 11 + 7)
    toks = ["5K", "5k", "12M", "3g", "0G", "7", "-4K", "+4m", "K", "1X", "12", "9223372036854775807", "8388607G", "1.5K", "1_0K", "٣K"]
    alpha = "0123456789KMGkmg+-xé"
    toks += ["".join(rnd.choice(alpha) for _ in range(rnd.randint(1, 6))) for _ in range(150)]
    val_bad, exec_err = [], None
    nat = {}
    for t in toks:
        rv = ref_value(t)
        if rv[0] == "bool" or re.fullmatch(r"[+-]?[0-9]+", t):
            continue          # typed by earlier branches of parse_section, never reach parse_size
        e = _encoding_value(t)
        if e[0] == "exec-error":
            exec_err = e[1]
            break
        n, raw = native_value(exe_dev, t)
        nat[t] = n
        if e[0] == "panic" and n[0] == "panic":
            continue
        # i64 tokens are typed by an earlier branch of parse_conf with the same meaning
        if e != n:
            val_bad.append((t, e, n))
    if exec_err:
        log("UNDISCHARGED: the MIR executor cannot run the current parse_size (%s) — property not decided on this tree" % exec_err)
        # native probe (sampling, reported as such; it discharges nothing): boundary tokens typed by the real parser vs the reference
        probe = list(toks) + ["9KK", "1MM", "4kk", "1KM", "8388607G", "8388608G", "-8388608G", "-8388609G", "9007199254740991K", "9007199254740992K", "-9007199254740992K",
                              "-9007199254740993K", "8796093022207M", "8796093022208M", "-8796093022209M", "-8589934593G", "-9223372036854775808K", "9223372036854775807K",
                              "1éK", "éK", "1é", "K", "kK", "+K", "-M", "00K", "+0G", "1 K".replace(" ", ""), "0x1K", "1e3K", "1.0M"]
        bad = None
        for t in probe:
            want = ref_value(t)
            if want[0] == "bool":
                continue
            nd, rawd = native_value(exe_dev, t)
            nr, rawr = native_value(exe_rel, t)
            if nd != want or nr != want:
                bad = {"value": t, "expected": want, "native_dev": rawd[:120], "native_release": rawr[:120], "check": "native probe (the encoding cannot execute this tree)", "n": len(t), "key": None}
                break
        nviol = 0
        if bad:
            os.makedirs(REPLAY_DIR, exist_ok=True)
            path = os.path.join(REPLAY_DIR, "C15-parse_size.json")
            with open(path, "w") as f:
                json.dump(dict(bad, property=ID, engine="M", how="./check C15 --replay " + path), f, indent=1)
            log("VIOLATION property=%s replay=%s" % (ID, path))
            log("   config line `k %s`: expected %r, natively dev: %s / release: %s (native probe)" % (bad["value"], bad["expected"], bad["native_dev"], bad["native_release"]))
            nviol = 1
        write_evidence(ID, tier, {"evaluations": 1, "distinct_nontrivial": 0, "explanation": "encoding cannot execute the current code: " + exec_err + "; native probe of %d boundary tokens only" % len(probe), "samples": [exec_err]}, [], time.time() - t0, nviol)
        return 1 if nviol else 0
    if val_bad:
        log("MACHINERY-ERROR: translator validation failed: encoding and native parser disagree on %d tokens, e.g. %r" % (len(val_bad), val_bad[0]))
        write_evidence(ID, tier, {"evaluations": len(toks), "distinct_nontrivial": 0, "explanation": "translator validation failed", "samples": [repr(val_bad[0])]}, [], time.time() - t0, 0)
        return 2
    log("   translator validation: encoding of parse_size == native parse_conf typing on %d tokens" % len(nat))
    NMAX = 8 if tier == "thorough" else 6
    # longer tokens are needed for the i64 range: 10 digits + G already overflow, 19 digits + suffix are the extreme
    extra = [11, 12, 20] if tier != "thorough" else list(range(9, 22))
    results = mengine.pmap(_obligation, list(range(1, NMAX + 1)) + extra)
    violations, known_hits, machinery, undis = [], [], [], []
    seen = set()
    for r in results:
        if r["verdict"] == "sat":
            for cex in r.get("cexs", []):
                text = "".join(chr(c) for c in cex["chars"])
                n_dev, raw_dev = native_value(exe_dev, text)
                n_rel, raw_rel = native_value(exe_rel, text)
                want = ref_value(text)
                bad_dev = n_dev != want
                bad_rel = n_rel != want
                rep = {"value": text, "expected": want, "native_dev": raw_dev[:120], "native_release": raw_rel[:120], "check": cex["check"], "n": r["n"]}
                if not (bad_dev or bad_rel):
                    machinery.append(rep)
                    continue
                # role of the failing input (known-finding keys)
                if any(ord(ch) > 127 for ch in text[-1:]):
                    key = "parse_size:non-ascii-last-char:slice-panic"
                elif want == ("err",) and re.fullmatch(r"[+-]?[0-9]+[kKmMgG]", text):
                    key = "parse_size:suffix-multiplication-overflow"
                else:
                    key = None
                rep["key"] = key
                if key and (ID, key) in known:
                    if key not in seen:
                        known_hits.append(rep)
                        seen.add(key)
                else:
                    violations.append(rep)
        elif r["verdict"] != "unsat":
            undis.append(r)
    rc = 0
    for rep in known_hits:
        log("KNOWN-FINDING: property=%s key=%s %s [value %r: dev %s / release %s]" % (ID, rep["key"], known[(ID, rep["key"])], rep["value"], rep["native_dev"][:60], rep["native_release"][:60]))
    os.makedirs(REPLAY_DIR, exist_ok=True)
    if violations:
        rep = violations[0]
        path = os.path.join(REPLAY_DIR, "C15-parse_size.json")
        with open(path, "w") as f:
            json.dump(dict(rep, property=ID, engine="M", how="./check C15 --replay " + path), f, indent=1)
        log("VIOLATION property=%s replay=%s" % (ID, path))
        log("   config line `k %s`: expected %r, natively dev: %s / release: %s (failed obligation n=%d: %s)" % (rep["value"], rep["expected"], rep["native_dev"], rep["native_release"], rep["n"], rep["check"]))
        rc = 1
    for rep in machinery[:3]:
        log("MACHINERY-ERROR: z3 counterexample %r (%s) is typed correctly by the native parser (%s) — encoding/reference problem, not reported" % (rep["value"], rep["check"], rep["native_dev"]))
        rc = rc or 2
    for r in undis:
        log("UNDISCHARGED: n=%d — %s" % (r["n"], r.get("why", r["verdict"])))
        if r.get("tb"):
            log("      " + r["tb"].replace("\n", "\n      "))
    # ---- the tree parser (parse_conf / parse_section / include) on templates
    from . import c15_tree
    try:
        tp = c15_tree.run_part(tier, mir)
    except Exception as e:
        log("UNDISCHARGED: config tree parser — %s" % str(e)[:500])
        tp = {"results": [], "violations": [], "known_hits": [], "machinery": [], "undischarged": [{"template": "all", "why": str(e)[:300]}], "validation": {}}
    for v in tp["known_hits"]:
        log("KNOWN-FINDING: property=%s key=%s %s [parse_conf(%r) -> %s]" % (ID, v["key"], known[(ID, v["key"])], v["text"], v["native_dev"][:80]))
    for i, v in enumerate(tp["violations"][:3]):
        path = os.path.join(REPLAY_DIR, "C15-tree-%d.json" % i)
        with open(path, "w") as f:
            json.dump(dict(v, property=ID, engine="M", how="./check C15 --replay " + path), f, indent=1)
        log("VIOLATION property=%s replay=%s" % (ID, path))
        log("   parse_conf(%r)%s -> %s (release %s); required: %s (template %s: %s)" % (v["text"], " with include files %s" % sorted(v["files"]) if v["files"] else "", v["native_dev"][:160], v["native_release"][:100],
                                                                                    v["expected"] or "a value or an error", v["template"], v["failed"][:120]))
        rc = 1
    for m in tp["machinery"][:3]:
        log("MACHINERY-ERROR: " + m)
        rc = rc or 2
    for r in tp["undischarged"][:5]:
        log("UNDISCHARGED: config template %s — %s" % (r.get("template"), r.get("why")))
    okt = [r for r in tp["results"] if r["verdict"] == "unsat"]
    log("   tree parser: %d/%d templates discharged (tree == what the file describes / fault rejected with its line / no panic), translator validation on %s files" % (len(okt), len(tp["results"]), tp["validation"].get("files")))
    violations = violations + [dict(v, value=v["text"], n=len(v["text"]), check=v["failed"]) for v in tp["violations"]]
    ok = [r for r in results if r["verdict"] == "unsat"]
    cov = {
        "tree_parser": {"templates": len(tp["results"]), "discharged": len(okt), "kinds": {k: len([r for r in tp["results"] if r.get("kind") == k]) for k in ("tree", "error", "nopanic")},
                        "names": [r["template"] for r in tp["results"]], "validation": tp["validation"], "undischarged": tp["undischarged"], "known_findings_seen": tp["known_hits"],
                        "functions_encoded": "humphrey-server/src/config/tree.rs: parse_conf, parse_section (recursive), include, clean_up, quiet_assert, parse_size (MIR of the current working tree); traceback.rs TracebackIterator (modelled: 3 lines)",
                        "obligations": "tree: every path returns Ok with exactly the tree written next to the template; error: every path returns Err naming the expected file and line; nopanic: a value or an error on every path",
                        "include": "File::open / read_to_string answer from an in-memory file system given with the template; the native replay writes the same files into a scratch directory",
                        "std_models_trusted": sorted(set(m for r in tp["results"] for m in r.get("models", [])))},
        "evaluations": len(results) + len(tp["results"]), "distinct_nontrivial": len([r for r in results if r["verdict"] in ("unsat", "sat") and r["n"] >= 2]) + len([r for r in tp["results"] if r["verdict"] in ("unsat", "sat")]),
        "rule": "one evaluation = one token length n: z3 decides `no panic`, `accepted iff <int> or <int>[KMG] fitting i64`, `value = int*1024^j` for ALL strings of n Unicode scalar values that can form a value token; non-trivial = n >= 2 and a verdict",
        "samples": [{k: r.get(k) for k in ("n", "verdict", "paths", "n_checks", "symex_s", "solver_s")} for r in results[:4]],
        "obligations": len(results) + len(tp["results"]), "discharged": len(ok) + len(okt),
        "states": max(1, sum(r.get("blocks", 0) for r in results)), "transitions": max(1, sum(r.get("feasibility_queries", 0) + r.get("n_checks", 0) for r in results)),
        "traces_validated_against_impl": len(nat) + len(violations) + len(known_hits) + len(machinery),
        "undischarged": [{"n": r["n"], "why": r.get("why", r["verdict"])} for r in undis],
        "violations_reproduced": violations[:5], "known_findings_seen": known_hits,
        "functions_encoded": ["humphrey-server/src/config/tree.rs: parse_size (private; MIR of the current working tree)"],
        "std_models_trusted": sorted(set(m for r in results for m in r.get("models", []))),
        "bounds": {"token_length": "1..%d characters and %s" % (NMAX, extra), "characters": "symbolic Unicode scalar values that may appear inside a value token (no whitespace, no # { } \")"},
        "outside_bounds": ["Config::from_tree (tree -> Config: HashMap, defaults, validation rules, blacklist/route files on disk)", "configuration texts outside the listed templates; holes never contain line terminators or non-ASCII characters (parse_size covers non-ASCII value tokens)"],
        "translator_validation": {"tokens": len(nat), "disagreements": 0},
        "solver_time_s": round(sum(r.get("solver_s", 0) for r in results), 2),
        "engines": {"mirsym": "own MIR symbolic executor", "z3": "5.1.0"}, "repo_head": git_head(REPO), "repo_dirty": repo_dirty(), "exhaustive": False,
        "explanation": "bounded: every value token of the listed lengths",
    }
    write_evidence(ID, tier, cov, ["std models (str::parse::<i64> as its documented grammar, str slicing with char-boundary checks, Chars::last, to_ascii_uppercase)", "z3 is sound"], time.time() - t0, len(violations))
    log("== %s: %d/%d obligations discharged, %d reproduced violation(s), %d known finding(s), %d undischarged; %.0fs wall" % (ID, len(ok), len(results), len(violations), len(known_hits), len(undis), time.time() - t0))
    return rc


def replay(d, path):
    mengine.setup(ID)
    kengine.write_lists({})
    if d.get("kind") == "conftree":
        from . import c15_tree
        if c15_tree.replay(d):
            log("VIOLATION property=%s replay=%s" % (ID, path))
            return 1
        return 0
    exe = mengine.build_mtool("debug")
    n, raw = native_value(exe, d["value"])
    want = ref_value(d["value"])
    log("k %s -> %s ; expected %r" % (d["value"], raw, want))
    if n != want:
        log("VIOLATION property=%s replay=%s" % (ID, path))
        return 1
    return 0
