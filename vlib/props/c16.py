"""C16 — file cache: inductive step of Cache::set / Cache::get (engine M: MIR -> z3)."""
import json, os, random, time
from ..common import *
from .. import mengine, kengine

ID = "C16"
ENGINE = "M"
TECHNIQUE = "symbolic execution of the MIR of Cache::set / Cache::get from an arbitrary pre-state satisfying a representation invariant (inductive step) -> z3; counterexample pre-states rebuilt natively through the verif hook and replayed"

_G = {}


def _funcs():
    from mirsym.mir import parse_mir, ensure_parsed
    funcs = parse_mir(_G["mir"])
    def find(suffix):
        c = [f for n, f in funcs.items() if not isinstance(f, tuple) and "server/cache.rs" in n and n.endswith(suffix)]
        if len(c) != 1:
            raise RuntimeError("cannot locate Cache%s in the MIR dump (%d candidates)" % (suffix, len(c)))
        return ensure_parsed(c[0])
    return funcs, find("::set"), find("::get")


def _prestate(z3, n, tagp):
    """n symbolic entries + cache fields. Returns (cache value, vars dict, invariant formula list)."""
    from mirsym.exec import agg
    from mirsym.models_cache import Deque, StrTok, VecU8
    I = z3.Int
    items, ents = [], []
    for i in range(n):
        e = {"route": I("%sr%d" % (tagp, i)), "host": I("%sh%d" % (tagp, i)), "mime": I("%sm%d" % (tagp, i)), "time": I("%st%d" % (tagp, i)),
             "len": I("%sl%d" % (tagp, i)), "tag": I("%sd%d" % (tagp, i))}
        ents.append(e)
        items.append(agg(StrTok(e["route"]), e["host"], e["mime"], e["time"], VecU8(e["len"], e["tag"])))
    limit, tlimit, size = I(tagp + "limit"), I(tagp + "tlimit"), I(tagp + "size")
    cache = agg(limit, tlimit, size, Deque(tuple(items)))
    inv = [limit >= 0, limit <= 65536, tlimit >= 0, tlimit < (1 << 40), size == (sum(e["len"] for e in ents) if ents else 0), size <= limit]
    for e in ents:
        inv += [e["len"] >= 0, e["route"] >= 0, e["route"] <= 2, e["host"] >= 0, e["host"] <= 1, e["time"] >= 0, e["time"] < (1 << 40), e["tag"] >= 1]
    for i in range(n):
        for j in range(i + 1, n):
            inv.append(z3.Or(ents[i]["route"] != ents[j]["route"], ents[i]["host"] != ents[j]["host"]))
    return cache, {"ents": ents, "limit": limit, "tlimit": tlimit, "size": size}, inv


def _item_fields(item):
    tok, host, mime, tm, vec = item[1]
    return tok.id, host, mime, tm, vec.length_, vec.tag


def _obligation(job):
    """('set'|'get', n entries)"""
    import z3
    from mirsym.exec import Ctx, Exec, ExecError, Unwind, z3bool, agg, is_sym
    from mirsym.models import COMMON
    from mirsym.models_cache import make_models, Clock, StrTok, VecU8, Deque
    op, n = job
    t0 = time.time()
    res = {"op": op, "n": n}
    try:
        funcs, fset, fget = _funcs()
        cache, V, inv = _prestate(z3, n, "")
        ents = V["ents"]
        clock = Clock(floor_terms=[e["time"] for e in ents])
        ctx = Ctx(funcs, make_models(clock) + COMMON, mode="int", loop_bound=n + 3, time_budget=_G.get("budget", 600))
        ex = Exec(ctx)
        kr, kh = z3.Int("kr"), z3.Int("kh")
        vlen, vtag, vmime = z3.Int("vlen"), z3.Int("vtag"), z3.Int("vmime")
        assum = list(inv) + [kr >= 0, kr <= 2, kh >= 0, kh <= 1]
        HEAPF = 999999      # synthetic frame that owns the cache value (the harness' stack slot)
        cref = ("ref", ("local", HEAPF, 0, ()))
        checks = []
        s = z3.Solver()
        s.set("random_seed", seed() % 991)
        s.set("timeout", 120000)
        if op == "set":
            assum += [vlen >= 0, vlen <= V["limit"], vtag == 0]      # caller's guard: size_limit >= contents.len()
            ctx.base_assumptions = assum
            out = ex.run_function(fset, [cref, ("refval", StrTok(kr)), kh, VecU8(vlen, vtag), vmime], heap={HEAPF: {0: cache}})
            res["paths"] = len(out.rets)
            for c, m in out.panics:
                checks.append(("no panic: " + m[:70], z3bool(c)))
            total = z3.Or(*[z3bool(c) for c, _, _, _ in out.rets] + [z3bool(c) for c, _ in out.panics]) if (out.rets or out.panics) else z3.BoolVal(False)
            checks.append(("every pre-state has an outcome", z3.Not(total)))
            old_ids = [tuple(_item_fields(("agg", (StrTok(e["route"]), e["host"], e["mime"], e["time"], VecU8(e["len"], e["tag"]))))) for e in ents]
            for pi, (c, v, locs, heap) in enumerate(out.rets):
                # summaries are explored under local conditions only: drop return cases that are infeasible from this pre-state
                sf = z3.Solver()
                sf.add(*assum)
                sf.add(*clock.constraints)
                sf.add(z3bool(c))
                if sf.check() == z3.unsat:
                    continue
                post = heap[HEAPF][0]
                limit2, tl2, size2, dq2 = post[1]
                items2 = dq2.items
                pc = z3bool(c)
                t_set = clock.values[-1] if clock.values else None
                conj = []
                conj.append(("limits unchanged", z3.And(limit2 == V["limit"], tl2 == V["tlimit"])))
                conj.append(("size bookkeeping == sum of lengths", size2 == sum(_item_fields(it)[4] for it in items2)))
                conj.append(("size <= limit", size2 <= limit2))
                if not items2:
                    conj.append(("new entry present", z3.BoolVal(False)))
                else:
                    r, h, mi, tm, ln, tg = _item_fields(items2[-1])
                    conj.append(("last entry is the stored item (key, mime, bytes, time = clock)", z3.And(r == kr, h == kh, mi == vmime, ln == vlen, tg == vtag, tm == t_set if t_set is not None else False)))
                    # retained entries: each is field-for-field one of the old entries, in the old order, and does not have the new key
                    last = -1
                    for it in items2[:-1]:
                        f = _item_fields(it)
                        alts = []
                        for j in range(last + 1, n):
                            o = old_ids[j]
                            alts.append(z3.And(*[a == b for a, b in zip(f, o)]))
                        conj.append(("retained entry is an unmodified old entry", z3.Or(*alts) if alts else z3.BoolVal(False)))
                        conj.append(("retained entry has a different key", z3.Or(f[0] != kr, f[1] != kh)))
                    for a in range(len(items2)):
                        for b in range(a + 1, len(items2)):
                            fa, fb = _item_fields(items2[a]), _item_fields(items2[b])
                            conj.append(("keys pairwise distinct", z3.Or(fa[0] != fb[0], fa[1] != fb[1])))
                for nm, f in conj:
                    checks.append(("path %d: %s" % (pi, nm), z3.And(pc, z3.Not(f))))
                # retrievable immediately: run get(k) on the post-state at any later instant within the time limit
                clock2 = Clock(floor_terms=[t_set] if t_set is not None else [], name="later")
                ctx2 = Ctx(funcs, make_models(clock2) + COMMON, mode="int", loop_bound=n + 4)
                ctx2.base_assumptions = assum + clock.constraints + [pc]
                ex2 = Exec(ctx2)
                out2 = ex2.run_function(fget, [("ref", ("local", HEAPF, 0, ())), ("refval", StrTok(kr)), kh], heap={HEAPF: {0: post}})
                tget = clock2.values[-1]
                within = tget - t_set <= tl2
                for c2, m2 in out2.panics:
                    checks.append(("path %d: get after set: no panic: %s" % (pi, m2[:50]), z3.And(pc, z3bool(c2), *clock2.constraints)))
                for c2, v2, _, _ in out2.rets:
                    if v2[1] == "None":
                        checks.append(("path %d: stored item retrievable within the time limit" % pi, z3.And(pc, z3bool(c2), within, *clock2.constraints)))
                    else:
                        got = ex2.deref(v2[2][0], type("S", (), {"frame": -1, "locals": {}, "heap": {HEAPF: {0: post}}})())
                        f = _item_fields(got)
                        checks.append(("path %d: get after set returns exactly the stored item" % pi,
                                       z3.And(pc, z3bool(c2), *clock2.constraints, z3.Not(z3.And(f[0] == kr, f[1] == kh, f[2] == vmime, f[4] == vlen, f[5] == vtag)))))
                res.setdefault("calls", set()).update(ctx2.calls_seen.keys())
        else:
            ctx.base_assumptions = assum
            out = ex.run_function(fget, [cref, ("refval", StrTok(kr)), kh], heap={HEAPF: {0: cache}})
            res["paths"] = len(out.rets)
            tget = clock.values[-1] if clock.values else z3.IntVal(0)
            for c, m in out.panics:
                checks.append(("no panic: " + m[:70], z3.And(z3bool(c), *clock.constraints)))
            for pi, (c, v, locs, heap) in enumerate(out.rets):
                pc = z3.And(z3bool(c), *clock.constraints)
                if v[1] == "None":
                    # None is always allowed by the property; but a fresh matching entry must be found (liveness of lookups)
                    fresh = [z3.And(e["route"] == kr, e["host"] == kh, tget - e["time"] <= V["tlimit"]) for e in ents]
                    checks.append(("path %d: a matching entry within the time limit is returned" % pi, z3.And(pc, z3.Or(*fresh)) if fresh else z3.BoolVal(False)))
                else:
                    st_like = type("S", (), {"frame": -1, "locals": {}, "heap": {HEAPF: {0: cache}}})()
                    got = ex.deref(v[2][0], st_like)
                    f = _item_fields(got)
                    alts = [z3.And(f[0] == e["route"], f[1] == e["host"], f[2] == e["mime"], f[3] == e["time"], f[4] == e["len"], f[5] == e["tag"]) for e in ents]
                    checks.append(("path %d: returned item is an entry of the cache with the requested key" % pi, z3.And(pc, z3.Not(z3.And(f[0] == kr, f[1] == kh, z3.Or(*alts) if alts else False)))))
                    checks.append(("path %d: returned item is not older than the time limit" % pi, z3.And(pc, z3.Not(tget - f[3] <= V["tlimit"]))))
        s.add(*assum)
        s.add(*clock.constraints)
        tq = time.time()
        verdict = "unsat"
        nq = 0
        for name, f in checks:
            s.push()
            s.add(f)
            r = s.check()
            nq += 1
            if r == z3.sat:
                m = s.model()
                ev = lambda t: m.eval(t, model_completion=True).as_long()
                res["cex"] = {"check": name, "limit": ev(V["limit"]), "tlimit": ev(V["tlimit"]), "size": ev(V["size"]),
                              "entries": [{k: ev(e[k]) for k in ("route", "host", "len", "time")} for e in ents],
                              "key": [ev(kr), ev(kh)], "vlen": ev(vlen) if op == "set" else None,
                              "clock": [ev(t) for t in clock.values]}
                verdict = "sat"
                s.pop()
                break
            if r != z3.unsat:
                verdict = "unknown"
            s.pop()
        if s.check() != z3.sat:
            verdict = "vacuous"
        calls = set(ctx.calls_seen.keys()) | res.pop("calls", set())
        res.update({"verdict": verdict, "n_checks": nq, "symex_s": round(tq - t0, 2), "solver_s": round(time.time() - tq + ctx.tq, 2), "blocks": ctx.blocks_executed,
                    "feasibility_queries": ctx.nq, "models": sorted(calls)})
    except Unwind as e:
        res.update({"verdict": "undischarged", "why": "unwinding: " + str(e)})
    except Exception as e:
        import traceback
        res.update({"verdict": "undischarged", "why": "%s: %s" % (type(e).__name__, str(e)[:300]), "tb": traceback.format_exc()[-800:]})
    res["wall_s"] = round(time.time() - t0, 2)
    return res


def _native_line(cex, op):
    now_ref = max([e["time"] for e in cex["entries"]] + cex.get("clock", [0]) + [0])
    parts = ["cache", str(cex["limit"]), str(cex["tlimit"]), str(cex["size"]), str(len(cex["entries"]))]
    for e in cex["entries"]:
        age = max(0, now_ref - e["time"])
        parts += ["/r%d" % e["route"], str(e["host"]), str(e["len"]), str(age)]
    parts += [op, "/r%d" % cex["key"][0], str(cex["key"][1])]
    if op == "set":
        parts.append(str(cex["vlen"]))
    return " ".join(parts)


def _native_violates(cex, op, out):
    """Property-level judgement of a native run from a counterexample pre-state."""
    if out == "PANIC":
        return "panic"
    import re
    m = re.match(r"OK size=(\d+) items=(\S*) get=(\S+)", out)
    if not m:
        return "unparseable: " + out
    size = int(m.group(1))
    items = [tuple(x.split(":")) for x in m.group(2).split(",") if x]
    got = m.group(3)
    key = ("/r%d" % cex["key"][0], str(cex["key"][1]))
    if op == "set":
        if size != sum(int(i[2]) for i in items):
            return "size bookkeeping != sum of lengths"
        if size > cex["limit"]:
            return "size exceeds the limit"
        if len(set((i[0], i[1]) for i in items)) != len(items):
            return "duplicate keys"
        if not items or (items[-1][0], items[-1][1]) != key or int(items[-1][2]) != cex["vlen"] or items[-1][3] != "238" and cex["vlen"] > 0:
            return "stored item is not the last entry"
        if got == "none" or tuple(got.split(":"))[:3] != (key[0], key[1], str(cex["vlen"])):
            return "stored item not retrievable immediately"
    else:
        now_ref = max([e["time"] for e in cex["entries"]] + cex.get("clock", [0]) + [0])
        if got != "none":
            g = tuple(got.split(":"))
            if (g[0], g[1]) != key:
                return "get returned another key's entry"
            for e in cex["entries"]:
                if ("/r%d" % e["route"], str(e["host"])) == key and now_ref - e["time"] > cex["tlimit"]:
                    return "get returned an entry older than the time limit (age %d > %d)" % (now_ref - e["time"], cex["tlimit"])
        else:
            for e in cex["entries"]:
                if ("/r%d" % e["route"], str(e["host"])) == key and now_ref - e["time"] <= cex["tlimit"]:
                    return "get did not return a matching entry that is within the time limit (age %d <= %d)" % (now_ref - e["time"], cex["tlimit"])
    return None


def run(tier):
    t0 = time.time()
    work = mengine.setup(ID)
    kengine.write_lists({})
    from mirsym.dump import dump_mir
    log("== %s tier=%s seed=%d; /repo HEAD %s%s" % (ID, tier, seed(), git_head(REPO), " +uncommitted changes" if repo_dirty() else ""))
    try:
        mir, dt = dump_mir("humphrey-server", work, features="verif")
    except Exception as e:
        log("ERROR: " + str(e)[:2000])
        write_evidence(ID, tier, {"evaluations": 0, "distinct_nontrivial": 0, "explanation": "MIR dump failed"}, [], time.time() - t0, 0)
        return 2
    _G["mir"] = mir
    _G["budget"] = 1800 if tier == "thorough" else 600
    log("   MIR of humphrey-server dumped from the working tree in %.1fs (%d lines)" % (dt, mir.count("\n")))
    exe_dev = mengine.build_mtool("debug")
    exe_rel = mengine.build_mtool("release")

    # translator validation: concrete set/get sequences through the native code and through the encoding
    val = _validate(exe_dev)
    if val.get("error"):
        log("UNDISCHARGED: the MIR executor cannot run the current Cache code (%s) — property not decided on this tree" % val["error"])
        write_evidence(ID, tier, {"evaluations": 1, "distinct_nontrivial": 0, "explanation": "encoding cannot execute the current code: " + val["error"], "samples": [val["error"]]}, [], time.time() - t0, 0)
        return 0
    if val["bad"]:
        log("MACHINERY-ERROR: translator validation failed: encoding and native Cache disagree on %d of %d concrete scenarios, e.g. %r" % (len(val["bad"]), val["n"], val["bad"][0]))
        write_evidence(ID, tier, {"evaluations": val["n"], "distinct_nontrivial": 0, "explanation": "translator validation failed", "samples": [repr(val["bad"][0])]}, [], time.time() - t0, 0)
        return 2
    log("   translator validation: encoding == native Cache::set/get on %d seeded concrete scenarios" % val["n"])

    NMAX = 4 if tier == "thorough" else 3
    jobs = [(op, n) for n in range(0, NMAX + 1) for op in ("set", "get")]
    results = mengine.pmap(_obligation, jobs)
    violations, machinery, undis = [], [], []
    for r in results:
        if r["verdict"] == "sat":
            line = _native_line(r["cex"], r["op"])
            nd = mengine.native_eval(exe_dev, [line])[0]
            nr = mengine.native_eval(exe_rel, [line])[0]
            why = _native_violates(r["cex"], r["op"], nd) or _native_violates(r["cex"], r["op"], nr)
            r["replay"] = {"request": line, "native_dev": nd, "native_release": nr, "violates": why}
            (violations if why else machinery).append(r)
        elif r["verdict"] != "unsat":
            undis.append(r)
    rc = 0
    os.makedirs(REPLAY_DIR, exist_ok=True)
    if violations:
        r = violations[0]
        path = os.path.join(REPLAY_DIR, "C16-cache.json")
        with open(path, "w") as f:
            json.dump({"property": ID, "engine": "M", "op": r["op"], "cex": r["cex"], "request": r["replay"]["request"], "native_dev": r["replay"]["native_dev"],
                       "violates": r["replay"]["violates"], "how": "./check C16 --replay " + path}, f, indent=1)
        log("VIOLATION property=%s replay=%s" % (ID, path))
        log("   %s from the pre-state `%s`: natively %s -> %s (failed obligation: %s)" % (r["op"], r["replay"]["request"], r["replay"]["native_dev"], r["replay"]["violates"], r["cex"]["check"]))
        rc = 1
    for r in machinery:
        log("MACHINERY-ERROR: z3 counterexample for %s/n=%d (%s) is not a property violation natively (%s) — invariant too weak or encoding problem; not reported" % (r["op"], r["n"], r["cex"]["check"], r["replay"]["native_dev"]))
        rc = rc or 2
    for r in undis:
        log("UNDISCHARGED: %s n=%d — %s" % (r["op"], r["n"], r.get("why", r["verdict"])))
        if r.get("tb"):
            log("      " + r["tb"].replace("\n", "\n      "))
    ok = [r for r in results if r["verdict"] == "unsat"]
    models = sorted(set(m for r in results for m in r.get("models", [])))
    cov = {
        "evaluations": len(results),
        "distinct_nontrivial": len([r for r in ok if r["n"] >= 1]),
        "rule": "one evaluation = one inductive-step obligation (operation, number of entries n in the pre-state); z3 decides every listed post-condition for ALL pre-states with n entries that satisfy the invariant; non-trivial = n >= 1 and all queries unsat",
        "samples": [{k: r.get(k) for k in ("op", "n", "verdict", "paths", "n_checks", "symex_s", "solver_s")} for r in (ok[-3:] + violations[:1] + undis[:1])],
        "obligations": len(results), "discharged": len(ok),
        "states": max(1, sum(r.get("blocks", 0) for r in results)),
        "transitions": max(1, sum(r.get("feasibility_queries", 0) + r.get("n_checks", 0) for r in results)),
        "traces_validated_against_impl": val["n"] + len(violations) + len(machinery),
        "states_transitions_note": "states = MIR basic blocks executed symbolically; transitions = solver queries; traces_validated = concrete scenarios run through both the encoding and the native code + replayed counterexamples",
        "undischarged": [{"op": r["op"], "n": r["n"], "why": r.get("why", r["verdict"])} for r in undis],
        "violations_reproduced": [r["replay"] for r in violations],
        "functions_encoded": ["humphrey-server/src/server/cache.rs: Cache::set, Cache::get and their position() predicates (MIR of the current working tree)"],
        "std_models_trusted": models,
        "invariant": "entries have pairwise distinct (route, host) keys; cache_size == sum of data lengths; cache_size <= cache_limit; every cache_time <= the clock",
        "bounds": {"entries": "0..%d in the pre-state" % NMAX, "routes": "3 symbolic ids", "hosts": "{0,1}", "lengths_limits_times": "cache_limit 0..65536 (so lengths 0..65536), times and time limit unbounded integers < 2^40; no unrolling depends on them",
                   "eviction_loop": "bounded by entries+3 loop-head visits (exceeding it is reported)"},
        "assumes": ["set is only called with value.len() <= cache_limit (the caller's guard in static.rs)", "the clock is non-decreasing and not before any stored cache_time",
                    "threads: set needs &mut Cache behind RwLock::write, get needs &Cache behind read — exclusivity is Rust's guarantee, so sequential steps cover all interleavings of the lock sections (trusted)"],
        "outside_bounds": ["more than %d entries" % NMAX, "file contents changing on disk / the handlers around the cache (file system)", "Cache::from(&Config) producing the empty initial state (read from the code, not executed)",
                           "route strings are modelled by identity only (String == &str is equality of ids)"],
        "translator_validation": {"scenarios": val["n"], "disagreements": 0},
        "solver_time_s": round(sum(r.get("solver_s", 0) for r in results), 2),
        "engines": {"mirsym": "own MIR symbolic executor (/verif/mirsym)", "z3": "5.1.0"},
        "repo_head": git_head(REPO), "repo_dirty": repo_dirty(), "exhaustive": False,
        "explanation": "inductive step: holds for histories of any length provided the stated invariant (shown to be preserved by set, trivially by get, and true of the empty cache)",
    }
    write_evidence(ID, tier, cov, cov["assumes"] + ["std models listed in std_models_trusted", "z3 is sound"], time.time() - t0, len(violations))
    log("== %s: %d/%d obligations discharged, %d reproduced violation(s), %d undischarged; %.0fs wall" % (ID, len(ok), len(results), len(violations), len(undis), time.time() - t0))
    return rc


def _scenario_encoding(sc):
    """Run a concrete scenario through the encoding; returns the same line format as mtool."""
    import z3
    from mirsym.exec import Ctx, Exec, agg
    from mirsym.models import COMMON
    from mirsym.models_cache import make_models, Clock, StrTok, VecU8, Deque
    funcs, fset, fget = _funcs()
    limit, tl, size, ents, op, key, vlen = sc
    NOW = 10 ** 6
    items = tuple(agg(StrTok(r), h, 7, NOW - age, VecU8(ln, i + 1)) for i, (r, h, ln, age) in enumerate(ents))
    cache = agg(limit, tl, size, Deque(items))
    HEAPF = 999999
    class FixedClock(Clock):
        def tick(self, site=None):
            self.values.append(NOW)
            return NOW
    def run(f, args, cachev):
        clock = FixedClock()
        ctx = Ctx(funcs, make_models(clock) + COMMON, mode="int", loop_bound=64)
        ex = Exec(ctx)
        out = ex.run_function(f, args, heap={HEAPF: {0: cachev}})
        return ex, out
    cref = ("ref", ("local", HEAPF, 0, ()))
    if op == "set":
        ex, out = run(fset, [cref, ("refval", StrTok(key[0])), key[1], VecU8(vlen, 238), 9], cache)
        if out.panics and not out.rets:
            return "PANIC"
        cache = out.rets[0][3][HEAPF][0]
    ex, out = run(fget, [cref, ("refval", StrTok(key[0])), key[1]], cache)
    if out.panics and not out.rets:
        return "PANIC"
    v = out.rets[0][1]
    def fmt(it):
        tok, host, mime, tm, vec = it[1]
        return "/r%d:%d:%d:%d" % (tok.id, host, vec.length_, vec.tag if vec.length_ > 0 else 0)
    if v[1] == "None":
        got = "none"
    else:
        got = fmt(ex.deref(v[2][0], type("S", (), {"frame": -1, "locals": {}, "heap": {HEAPF: {0: cache}}})()))
    return "OK size=%d items=%s get=%s" % (cache[1][2], ",".join(fmt(i) for i in cache[1][3].items), got)


def _validate(exe):
    rnd = random.Random(seed() * 13 + 3)
    scs = []
    for _ in range(120):
        n = rnd.randint(0, 4)
        keys = rnd.sample([(r, h) for r in range(3) for h in range(2)], n)
        ents = [(r, h, rnd.randint(0, 6), rnd.choice([0, 1, 5, 59, 60, 61, 100])) for r, h in keys]
        size = sum(e[2] for e in ents)
        limit = size + rnd.randint(0, 6)
        tl = rnd.choice([0, 1, 60])
        op = rnd.choice(["set", "get"])
        key = (rnd.randint(0, 2), rnd.randint(0, 1))
        vlen = rnd.randint(0, limit)
        scs.append((limit, tl, size, ents, op, key, vlen))
    lines = []
    for limit, tl, size, ents, op, key, vlen in scs:
        parts = ["cache", str(limit), str(tl), str(size), str(len(ents))]
        for r, h, ln, age in ents:
            parts += ["/r%d" % r, str(h), str(ln), str(age)]
        parts += [op, "/r%d" % key[0], str(key[1])] + ([str(vlen)] if op == "set" else [])
        lines.append(" ".join(parts))
    native = mengine.native_eval(exe, lines)
    try:
        enc = [_scenario_encoding(sc) for sc in scs]
    except Exception as e:
        import traceback
        return {"error": "%s: %s" % (type(e).__name__, str(e)[:300]) + " | " + traceback.format_exc()[-400:], "n": len(scs), "bad": []}
    bad = [(lines[i], native[i], enc[i]) for i in range(len(scs)) if native[i] != enc[i]]
    return {"n": len(scs), "bad": bad}


def replay(d, path):
    mengine.setup(ID)
    kengine.write_lists({})
    exe = mengine.build_mtool("debug")
    out = mengine.native_eval(exe, [d["request"]])[0]
    why = _native_violates(d["cex"], d["op"], out)
    log("%s -> %s (%s)" % (d["request"], out, why or "no violation"))
    if why:
        log("VIOLATION property=%s replay=%s" % (ID, path))
        return 1
    return 0
