"""C13 (value clause) — `Value::parse` returns the value the text denotes, engine M over TEMPLATES.

The acceptance obligations of c13.py cover every string up to 5 (6) characters; a `\\uXXXX` escape needs 8, a surrogate pair 14, an
object with two members more. Here the structure of the document is concrete and the holes are symbolic characters of a class
(plain string characters over all of Unicode, hex digits, decimal digits, the simple escapes, whitespace); the obligation is that
every path returns Ok and the value tree equals the one the bytes denote: string contents character by character (escapes decoded,
surrogate pairs combined per RFC 8259 §7), number tokens handed to f64::from_str exactly as written, members in document order.
`reject` templates are texts that are not JSON for any value of the holes (`\\u+123`, a lone low surrogate is left open).
"""
import json, os, random, re, struct, time

from ..common import *
from .. import mengine

_G = {}


def L(t):
    return ("lit", t)


def H(name, k, cls):
    return ("hole", name, k, cls)


def cls_pred(z3, cls, c):
    if cls == "plain":      # unescaped string character
        return z3.And(c >= 0x20, c <= 0x10FFFF, c != 0x22, c != 0x5C, z3.Or(c < 0xD800, c > 0xDFFF))
    if cls == "hex":
        return z3.Or(z3.And(c >= 48, c <= 57), z3.And(c >= 65, c <= 70), z3.And(c >= 97, c <= 102))
    if cls == "digit":
        return z3.And(c >= 48, c <= 57)
    if cls == "digit19":
        return z3.And(c >= 49, c <= 57)
    if cls == "esc":
        return z3.Or(*[c == ord(x) for x in '"\\/bfnrt'])
    if cls == "ws":
        return z3.Or(c == 0x20, c == 0x09, c == 0x0A, c == 0x0D)
    if cls == "sign":
        return z3.Or(c == 43, c == 45)
    if cls == "e":
        return z3.Or(c == 101, c == 69)
    if cls == "hi_d":       # third hex digit of a high surrogate D8xx..DBxx
        return z3.Or(c == 56, c == 57, c == 65, c == 66, c == 97, c == 98)
    if cls == "lo_d":       # third hex digit of a low surrogate DCxx..DFxx
        return z3.Or(z3.And(c >= 67, c <= 70), z3.And(c >= 99, c <= 102))
    if cls == "dD":
        return z3.Or(c == 100, c == 68)
    if cls == "nonsur1":    # first hex digit of a non-surrogate escape: anything but d/D
        return z3.And(cls_pred(z3, "hex", c), c != 100, c != 68)
    raise ValueError(cls)


def templates(tier):
    T = {}
    def ok(name, segs, value):
        T[name] = ("ok", segs, value)
    def rej(name, segs):
        T[name] = ("reject", segs, None)
    ok("str3", [L('"'), H("a", 3, "plain"), L('"')], ("S", [("h", "a")]))
    ok("str_esc", [L('"'), H("a", 1, "plain"), L("\\"), H("e", 1, "esc"), H("b", 1, "plain"), L('"')], ("S", [("h", "a"), ("esc", "e"), ("h", "b")]))
    ok("u_bmp", [L('"\\u'), H("x", 1, "nonsur1"), H("y", 3, "hex"), L('"')], ("S", [("u", ["x", "y"])]))
    ok("u_bmp_d", [L('"\\u'), H("d", 1, "dD"), H("y", 1, "digit"), H("z", 2, "hex"), L('"')], ("S", [("u", ["d", "y", "z"])]))     # D0xx..D9xx minus surrogates: y in 0..7
    ok("u_pair", [L('"\\u'), H("d1", 1, "dD"), H("h", 1, "hi_d"), H("p", 2, "hex"), L("\\u"), H("d2", 1, "dD"), H("l", 1, "lo_d"), H("q", 2, "hex"), L('"')],
       ("S", [("pair", ["d1", "h", "p"], ["d2", "l", "q"])]))
    ok("u_pair_mid", [L('"'), H("a", 1, "plain"), L("\\u"), H("d1", 1, "dD"), H("h", 1, "hi_d"), H("p", 2, "hex"), L("\\u"), H("d2", 1, "dD"), H("l", 1, "lo_d"), H("q", 2, "hex"), H("b", 1, "plain"), L('"')],
       ("S", [("h", "a"), ("pair", ["d1", "h", "p"], ["d2", "l", "q"]), ("h", "b")]))
    ok("two_u", [L('"\\u00'), H("x", 2, "hex"), L("\\u"), H("n", 1, "nonsur1"), H("y", 3, "hex"), L('"')], ("S", [("u", [L("00"), "x"]), ("u", ["n", "y"])]))
    ok("num_int", [H("a", 1, "digit19"), H("b", 2, "digit")], ("N", [("h", "a"), ("h", "b")]))
    ok("num_neg_frac", [L("-"), H("a", 1, "digit"), L("."), H("b", 2, "digit")], ("N", [L("-"), ("h", "a"), L("."), ("h", "b")]))
    ok("num_exp", [H("a", 1, "digit19"), L("."), H("b", 1, "digit"), H("e", 1, "e"), H("s", 1, "sign"), H("x", 2, "digit")], ("N", [("h", "a"), L("."), ("h", "b"), ("h", "e"), ("h", "s"), ("h", "x")]))
    ok("num_ws", [H("w", 1, "ws"), L("-0"), H("v", 1, "ws")], ("N", [L("-0")]))
    ok("arr", [L("["), H("a", 1, "digit"), L(","), H("w", 1, "ws"), L('"'), H("s", 1, "plain"), L('",null,true,false]')],
       ("A", [("N", [("h", "a")]), ("S", [("h", "s")]), "null", "true", "false"]))
    ok("arr_nested", [L("[["), H("a", 1, "digit"), L("],[],["), H("w", 1, "ws"), L("],{}]")], ("A", [("A", [("N", [("h", "a")])]), ("A", []), ("A", []), ("O", [])]))
    ok("obj2", [L('{"'), H("k", 1, "plain"), L('":'), H("a", 1, "digit"), L(',"'), H("j", 1, "plain"), L('"'), H("w", 1, "ws"), L(':"'), H("s", 1, "plain"), L('"}')],
       ("O", [([("h", "k")], ("N", [("h", "a")])), ([("h", "j")], ("S", [("h", "s")]))]))
    ok("obj_order", [L('{"b":1,"a":2,"b":'), H("x", 1, "digit"), L("}")], ("O", [([L("b")], ("N", [L("1")])), ([L("a")], ("N", [L("2")])), ([L("b")], ("N", [("h", "x")]))]))
    ok("obj_nested", [L('{"a":{"'), H("k", 1, "plain"), L('":['), H("x", 1, "digit"), L(']},"c":null}')],
       ("O", [([L("a")], ("O", [([("h", "k")], ("A", [("N", [("h", "x")])]))])), ([L("c")], "null")]))
    ok("key_esc", [L('{"\\'), H("e", 1, "esc"), L('\\u00'), H("x", 2, "hex"), L('":true}')], ("O", [([("esc", "e"), ("u", [L("00"), "x"])], "true")]))
    rej("u_plus", [L('"\\u+'), H("x", 3, "hex"), L('"')])
    rej("u_short", [L('"\\u'), H("x", 3, "hex"), L('"')])
    rej("u_nonhex", [L('"\\u'), H("x", 2, "hex"), L("g"), H("y", 1, "hex"), L('"')])
    rej("ctrl_in_string", [L('"a\x1f"')])
    rej("ctrl_tab_in_string", [L('"\t"')])
    if tier == "thorough":
        ok("str6", [L('"'), H("a", 6, "plain"), L('"')], ("S", [("h", "a")]))
        ok("three_esc", [L('"\\'), H("e", 1, "esc"), L("\\"), H("f", 1, "esc"), L("\\"), H("g", 1, "esc"), L('"')], ("S", [("esc", "e"), ("esc", "f"), ("esc", "g")]))
        ok("two_pairs", [L('"\\u'), H("d1", 1, "dD"), H("h", 1, "hi_d"), H("p", 2, "hex"), L("\\u"), H("d2", 1, "dD"), H("l", 1, "lo_d"), H("q", 2, "hex"),
                         L("\\u"), H("d3", 1, "dD"), H("h2", 1, "hi_d"), H("p2", 2, "hex"), L("\\u"), H("d4", 1, "dD"), H("l2", 1, "lo_d"), H("q2", 2, "hex"), L('"')],
           ("S", [("pair", ["d1", "h", "p"], ["d2", "l", "q"]), ("pair", ["d3", "h2", "p2"], ["d4", "l2", "q2"])]))
        ok("obj3", [L('{"a":['), H("x", 1, "digit"), L(',{"b":"'), H("s", 2, "plain"), L('"}],"c":-'), H("y", 1, "digit"), L("e"), H("z", 1, "digit"), L(',"d":{}}')],
           ("O", [([L("a")], ("A", [("N", [("h", "x")]), ("O", [([L("b")], ("S", [("h", "s")]))])])), ([L("c")], ("N", [L("-"), ("h", "y"), L("e"), ("h", "z")])), ([L("d")], ("O", []))]))
    return T


ESC_MAP = {ord('"'): 0x22, ord("\\"): 0x5C, ord("/"): 0x2F, ord("b"): 8, ord("f"): 12, ord("n"): 10, ord("r"): 13, ord("t"): 9}


def instantiate(z3, segs, conc=None):
    chars, assume, holes = [], [], {}
    for seg in segs:
        if seg[0] == "lit":
            chars += [ord(c) for c in seg[1]]
        else:
            _, name, k, cls = seg
            if conc is not None:
                cs = list(conc[name])
            else:
                cs = [z3.Int("%s%d" % (name, i)) for i in range(k)]
                assume += [cls_pred(z3, cls, c) for c in cs]
            holes[name] = cs
            chars += cs
    return chars, assume, holes


def extra_assumptions(z3, name, holes):
    """u_bmp_d: \\uD0xx..\\uD7xx only (second digit 0..7), so that the escape is not a surrogate."""
    if name == "u_bmp_d":
        return [holes["y"][0] <= 55]
    return []


def hexval(z3, c):
    if isinstance(c, int):
        return c - 48 if c <= 57 else c - 55 if c <= 70 else c - 87
    return z3.If(c <= 57, c - 48, z3.If(c <= 70, c - 55, c - 87))


def unit(z3, parts, holes):
    ds = []
    for p in parts:
        ds += [ord(c) for c in p[1]] if isinstance(p, tuple) else holes[p]
    assert len(ds) == 4, ds
    v = 0
    for d in ds:
        v = v * 16 + hexval(z3, d)
    return v


def exp_chars(z3, parts, holes):
    out = []
    for p in parts:
        if p[0] == "lit":
            out += [ord(c) for c in p[1]]
        elif p[0] == "h":
            out += holes[p[1]]
        elif p[0] == "esc":
            c = holes[p[1]][0]
            if isinstance(c, int):
                out.append(ESC_MAP[c])
            else:
                e = z3.IntVal(0)
                for k, v in ESC_MAP.items():
                    e = z3.If(c == k, v, e)
                out.append(e)
        elif p[0] == "u":
            out.append(unit(z3, p[1], holes))
        elif p[0] == "pair":
            hi, lo = unit(z3, p[1], holes), unit(z3, p[2], holes)
            out.append(0x10000 + (hi - 0xD800) * 1024 + (lo - 0xDC00))
        else:
            raise ValueError(p)
    return out


def compare(z3, got, want, holes, path="$"):
    """-> list of (what, z3 condition under which the values DIFFER) ; a structural mismatch is ('...', True)"""
    from mirsym.models import str_chars
    def kind(g):
        return g[1].split("::")[-1] if isinstance(g, tuple) and g and g[0] == "enum" else None
    if want in ("null", "true", "false"):
        if want == "null":
            return [] if kind(got) == "Null" else [("%s: expected null, got %s" % (path, kind(got)), True)]
        if kind(got) != "Bool":
            return [("%s: expected a boolean, got %s" % (path, kind(got)), True)]
        b = got[2][0]
        exp = want == "true"
        if isinstance(b, bool):
            return [] if b == exp else [("%s: boolean value" % path, True)]
        return [("%s: boolean value" % path, b != exp)]
    tag = want[0]
    if tag in ("S", "N"):
        if kind(got) != ("String" if tag == "S" else "Number"):
            return [("%s: expected a %s, got %s" % (path, "string" if tag == "S" else "number", kind(got)), True)]
        if tag == "S":
            gc = list(str_chars(got[2][0]))
        else:
            v = got[2][0]
            if not (isinstance(v, tuple) and v[0] == "opaque" and v[1] == "f64"):
                return [("%s: number is not the f64 of a token: %r" % (path, v), True)]
            gc = list(v[2])
        wc = exp_chars(z3, want[1], holes)
        if len(gc) != len(wc):
            return [("%s: %s has %d characters, the text denotes %d" % (path, "string" if tag == "S" else "number token", len(gc), len(wc)), True)]
        diffs = [g != w for g, w in zip(gc, wc) if not (isinstance(g, int) and isinstance(w, int) and g == w)]
        diffs = [d for d in diffs if d is not False]
        if any(d is True for d in diffs):
            return [("%s: %s contents" % (path, "string" if tag == "S" else "number token"), True)]
        return [("%s: %s contents" % (path, "string" if tag == "S" else "number token"), z3.Or(*diffs))] if diffs else []
    if tag == "A":
        if kind(got) != "Array":
            return [("%s: expected an array, got %s" % (path, kind(got)), True)]
        items = list(got[2][0].items)
        if len(items) != len(want[1]):
            return [("%s: array has %d elements, the text denotes %d" % (path, len(items), len(want[1])), True)]
        out = []
        for i, (g, w) in enumerate(zip(items, want[1])):
            out += compare(z3, g, w, holes, "%s[%d]" % (path, i))
        return out
    if tag == "O":
        if kind(got) != "Object":
            return [("%s: expected an object, got %s" % (path, kind(got)), True)]
        items = list(got[2][0].items)
        if len(items) != len(want[1]):
            return [("%s: object has %d members, the text denotes %d" % (path, len(items), len(want[1])), True)]
        out = []
        for i, (g, (wk, wv)) in enumerate(zip(items, want[1])):
            k, v = g[1][0], g[1][1]
            out += compare(z3, ("enum", "Value::String", (k,)), ("S", wk), holes, "%s.key%d" % (path, i))
            out += compare(z3, v, wv, holes, "%s.member%d" % (path, i))
        return out
    raise ValueError(want)


def _job(name):
    import z3
    from mirsym.exec import Ctx, Exec, z3bool
    from mirsym.models import COMMON, SymStr
    from mirsym.models_json import make_models
    from . import c13
    t0 = time.time()
    res = {"template": name, "verdict": "unsat", "fails": [], "n_checks": 0}
    try:
        c13._G["mir"] = _G["mir"]
        funcs, f = c13._parse_fn()
        kind, segs, want = templates(_G["tier"])[name]
        chars, assume, holes = instantiate(z3, segs)
        assume += extra_assumptions(z3, name, holes)
        ctx = Ctx(funcs, make_models() + COMMON, mode="int", loop_bound=4 * len(chars) + 12, time_budget=_G.get("budget", 600))
        ctx.base_assumptions = list(assume)
        ex = Exec(ctx)
        out = ex.run_function(f, [("refval", SymStr("in", tuple(chars)))])
        res["paths"] = len(out.rets) + len(out.panics)
        res["kind"] = kind
        s = z3.Solver()
        s.set("timeout", 120000)
        s.set("random_seed", seed() % 977)
        s.add(*assume)
        checks = []
        for pc, msg in out.panics:
            checks.append(("no panic: " + str(msg)[:80], z3bool(pc) if pc is not True else z3.BoolVal(True)))
        cover = [z3bool(pc) if pc is not True else z3.BoolVal(True) for pc, *_ in out.rets] + [z3bool(pc) if pc is not True else z3.BoolVal(True) for pc, _ in out.panics]
        checks.append(("every input has an outcome", z3.Not(z3.Or(*cover)) if cover else z3.BoolVal(True)))
        for pc, v, _, _ in out.rets:
            pcz = z3bool(pc) if pc is not True else z3.BoolVal(True)
            if kind == "reject":
                if v[1] == "Ok":
                    checks.append(("a text that is not RFC 8259 JSON is rejected", pcz))
                continue
            if v[1] != "Ok":
                checks.append(("a JSON text is accepted", pcz))
                continue
            for what, cond in compare(z3, v[2][0], want, holes):
                checks.append(("the value is the one the text denotes — " + what, pcz if cond is True else z3.And(pcz, cond)))
        tq = time.time()
        for what, fm in checks:
            s.push()
            s.add(fm)
            r = s.check()
            res["n_checks"] += 1
            if r == z3.sat:
                m = s.model()
                txt = "".join(chr(c if isinstance(c, int) else m.eval(c, model_completion=True).as_long()) for c in chars)
                res["fails"].append({"what": what, "text": txt})
                res["verdict"] = "sat"
            elif r != z3.unsat and res["verdict"] == "unsat":
                res["verdict"] = "unknown"
            s.pop()
        if s.check() != z3.sat:
            res["verdict"] = "vacuous"
        res.update({"symex_s": round(tq - t0, 2), "solver_s": round(time.time() - tq + ctx.tq, 2), "blocks": ctx.blocks_executed, "feasibility_queries": ctx.nq, "models": sorted(ctx.calls_seen.keys())})
    except Exception as e:
        import traceback
        res.update({"verdict": "undischarged", "why": "%s: %s" % (type(e).__name__, str(e)[:300]), "tb": traceback.format_exc()[-900:]})
    res["wall_s"] = round(time.time() - t0, 2)
    return res


# ---- native side ---------------------------------------------------------------------------------------------------------
def py_dump(text):
    """Canonical dump (mtool jsonv format) of what the text denotes per RFC 8259, or None if it is not JSON."""
    def no_const(x):
        raise ValueError("non-finite constant")
    def dstr(s):
        # Python keeps lone surrogates from escapes; combine pairs the way RFC 8259 §7 says
        cps = []
        i = 0
        while i < len(s):
            c = ord(s[i])
            if 0xD800 <= c <= 0xDBFF and i + 1 < len(s) and 0xDC00 <= ord(s[i + 1]) <= 0xDFFF:
                cps.append(0x10000 + ((c - 0xD800) << 10) + (ord(s[i + 1]) - 0xDC00))
                i += 2
            else:
                cps.append(c)
                i += 1
        return "S%d:%s" % (len(cps), ",".join("%x" % c for c in cps))
    def d(v):
        if v is None:
            return "n"
        if v is True:
            return "t"
        if v is False:
            return "f"
        if isinstance(v, float):
            return "N%016x" % struct.unpack(">Q", struct.pack(">d", v))[0]
        if isinstance(v, str):
            return dstr(v)
        if isinstance(v, list) and v and v[0] == "\x00obj":
            return "O{%s}" % ";".join("%s=%s" % (dstr(k), d(x)) for k, x in v[1])
        if isinstance(v, list):
            return "A[%s]" % ";".join(d(x) for x in v)
        raise ValueError(v)
    try:
        v = json.loads(text, parse_constant=no_const, parse_int=float, parse_float=float, object_pairs_hook=lambda ps: ["\x00obj", ps])
    except (ValueError, RecursionError):
        return None
    return d(v)


def native(exe, text):
    return mengine.native_eval(exe, ["jsonv " + (text.encode("utf-8", "surrogatepass").hex() or "-")])[0]


def want_native(text):
    w = py_dump(text)
    return "ERR" if w is None else "OK " + w


def role(text, what):
    if re.search(r"\\u\+[0-9a-fA-F]{3}", text):
        return "string-escape:u-plus-sign"
    if "reject" in what:
        return "accepts-non-json"
    if "surrogate" in what or re.search(r"\\u[dD][89abAB]", text):
        return "value:surrogate-pair"
    return "value:" + re.sub(r"[^a-z]+", "-", what.split("—")[-1].strip().lower())[:40]


def _concrete(text):
    import z3
    from mirsym.exec import Ctx, Exec
    from mirsym.models import COMMON, ConcStr
    from mirsym.models_json import make_models
    from . import c13
    try:
        c13._G["mir"] = _G["mir"]
        funcs, f = c13._parse_fn()
        ctx = Ctx(funcs, make_models() + COMMON, mode="int", loop_bound=2000)
        out = Exec(ctx).run_function(f, [("refval", ConcStr(text))])
        if out.panics and not out.rets:
            return "PANIC"
        v = out.rets[0][1]
        if v[1] != "Ok":
            return "ERR"
        return "OK " + dump_engine(v[2][0])
    except Exception as e:
        return "EXEC-ERROR %s: %s" % (type(e).__name__, str(e)[:200])


def dump_engine(v):
    from mirsym.models import str_chars
    k = v[1].split("::")[-1]
    def ds(s):
        cs = list(str_chars(s))
        return "S%d:%s" % (len(cs), ",".join("%x" % c for c in cs))
    if k == "Null":
        return "n"
    if k == "Bool":
        return "t" if v[2][0] else "f"
    if k == "Number":
        tok = "".join(chr(c) for c in v[2][0][2])
        return "N%016x" % struct.unpack(">Q", struct.pack(">d", float(tok)))[0]
    if k == "String":
        return ds(v[2][0])
    if k == "Array":
        return "A[%s]" % ";".join(dump_engine(x) for x in v[2][0].items)
    if k == "Object":
        return "O{%s}" % ";".join("%s=%s" % (ds(m[1][0]), dump_engine(m[1][1])) for m in v[2][0].items)
    raise ValueError(v)


DOCS = ['"Hello"', '"\\ud83d\\ude02"', '"\\u00e9\\n"', "[1, 2.5, -3e2]", '{"a": 1, "b": [true, null], "a": "x"}', "  [ ]  ", '{"k":{"j":[[]]}}', '"\\/\\b\\f\\r\\t\\\\\\""', "0", "-0", "1E+2",
        '"\U0001d11e"', '["\\u0041\\u00df\\u6771"]', "12345678901234567890", "1e400", '"\\ud834\\udd1e"', "[0.1,1e-7]"]


def run_part(tier, mir):
    import z3
    _G.update({"mir": mir, "tier": tier, "budget": 1500 if tier == "thorough" else 500})
    known = load_known()
    out = {"results": [], "violations": [], "known_hits": [], "machinery": [], "undischarged": [], "validation": {}}
    exe_dev = mengine.build_mtool("debug")
    exe_rel = mengine.build_mtool("release")
    rnd = random.Random(seed() * 23 + 1)
    T = templates(tier)
    docs = list(DOCS)
    for name in sorted(T):
        kind, segs, want = T[name]
        for _ in range(3):
            conc = {}
            for seg in segs:
                if seg[0] == "hole":
                    pool = {"plain": "aZ 9é€\U0001d11e~/", "hex": "0123456789abcdefABCDEF", "digit": "0123456789", "digit19": "123456789", "esc": '"\\/bfnrt', "ws": " \t\n\r", "sign": "+-", "e": "eE",
                            "hi_d": "89abAB", "lo_d": "cdefCDEF", "dD": "dD", "nonsur1": "0123456789abcefABCEF"}[seg[3]]
                    conc[seg[1]] = [ord(rnd.choice(pool)) for _ in range(seg[2])]
            if name == "u_bmp_d":
                conc["y"] = [ord(rnd.choice("01234567"))]
            chars, _, _ = instantiate(z3, segs, conc)
            docs.append("".join(chr(c) for c in chars))
    known_plus = ("C13", "string-escape:u-plus-sign") in known
    docs = [t for t in docs if not (known_plus and role(t, "") == "string-escape:u-plus-sign")]
    eng = mengine.pmap(_concrete, docs)
    nat = [native(exe_dev, t) for t in docs]
    cannot = [e for e in eng if e.startswith("EXEC-ERROR")]
    mism = [(t, e, n) for t, e, n in zip(docs, eng, nat) if not e.startswith("EXEC-ERROR") and e != n]
    refbad = [(t, n, want_native(t)) for t, n in zip(docs, nat) if n != want_native(t)]
    out["validation"] = {"documents": len(docs), "mismatches": len(mism), "engine_cannot_run": len(cannot), "native_vs_reference_disagreements": len(refbad)}
    if mism:
        out["machinery"].append("value templates: translator validation: encoding and native parser disagree on %d/%d documents, e.g. %r" % (len(mism), len(docs), mism[0]))
        return out
    if cannot:
        out["undischarged"].append({"template": "all", "why": cannot[0][:300]})
        for t, n, w in refbad[:1]:
            _classify(out, known, t, "native probe (the encoding cannot execute this tree)", exe_dev, exe_rel, False)
        return out
    rs = mengine.pmap(_job, sorted(T), jobs=int(os.environ.get("VERIF_JOBS", "14")))
    out["results"] = rs
    for r in rs:
        if r["verdict"] == "sat":
            seen = set()
            for fl in r["fails"]:
                rl = role(fl["text"], fl["what"])
                if rl in seen:
                    continue
                seen.add(rl)
                _classify(out, known, fl["text"], fl["what"], exe_dev, exe_rel, True, r["template"])
        elif r["verdict"] != "unsat":
            out["undischarged"].append({"template": r["template"], "why": r.get("why", r["verdict"])})
    if out["undischarged"] and not out["violations"]:
        # native probe (sampling; discharges nothing): the concrete template instances of the validation against the reference
        for t, n, w in refbad[:1]:
            _classify(out, known, t, "native probe of template instances (some template could not be decided)", exe_dev, exe_rel, False)
    return out


def _classify(out, known, text, what, exe_dev, exe_rel, solver, template=None):
    nd, nr, want = native(exe_dev, text), native(exe_rel, text), want_native(text)
    key = role(text, what)
    rep = {"kind": "value", "text": text, "native_dev": nd, "native_release": nr, "expected": want, "failed": what, "key": key, "template": template}
    if nd == want and nr == want:
        if solver:
            out["machinery"].append("value template %s: counterexample %r (%s) does not reproduce natively (native %s)" % (template, text, what[:80], nd[:80]))
        return
    if ("C13", key) in known:
        if key not in [k["key"] for k in out["known_hits"]]:
            out["known_hits"].append(rep)
    elif key not in [v["key"] for v in out["violations"]]:
        out["violations"].append(rep)


def replay(d):
    exe = mengine.build_mtool("debug")
    got, want = native(exe, d["text"]), want_native(d["text"])
    log("Value::parse(%r) -> %s ; the text denotes %s" % (d["text"], got[:200], want[:200]))
    return got != want
