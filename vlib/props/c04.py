"""C04 — routing order."""
from ..kengine import H

ID = "C04"
MODULE = "c04"
ENGINE = "K"

STUB = "kani::stub(humphrey::krauss::wildcard_match, crate::c04::stub_match)"
STUB_FD = "kani::stub(<std::os::fd::OwnedFd as std::ops::Drop>::drop, crate::c04::stub_fd_drop)"

META = {
    "functions_encoded": [
        "humphrey/src/app.rs: get_handler (via app::verif::get_handler)",
        "humphrey/src/app.rs: call_websocket_handler (via app::verif::call_websocket_handler)",
        "humphrey/src/route.rs: <String as Route>::route_matches",
        "humphrey/src/http/headers.rs: Headers::get / HeaderType eq",
    ],
    "reference_model": "inline in kani/src/c04.rs: first host whose predicate is true -> first route of it whose predicate is true; else (no host matched, or that sub-app had no match) first matching default route; else none",
    "stubs": ["humphrey::krauss::wildcard_match -> uninterpreted predicate (one symbolic truth value per registered pattern; the matcher itself is C05)",
              "<std::os::fd::OwnedFd as Drop>::drop -> counter (websocket harnesses: observes 'connection closed without upgrade')"],
    "assumes": ["one request: Host header 'h' (or absent), path '/p'; patterns are distinct ids, so every pattern's outcome is independent"],
    "outside_bounds": [
        "more than 3 host sub-apps / 3 routes per app (quantifier says 0..4 x 0..6)",
        "that the choice depends ONLY on Host/path/registration order holds by construction of the harness (nothing else is an input of get_handler): stated, not decided",
        "the tokio twin of the router; extraction of Host/path from the raw request (parser)",
    ],
}


def harnesses():
    hs = []
    def add(kind, h, r, d, hh, tier):
        nm = "c04_%s_h%d_r%d_d%d_%s" % (kind, h, r, d, "host" if hh else "nohost")
        body = "%s::<_, %d, %d, %d, %d>" % ("route" if kind == "http" else "ws_route", h, r, d, hh)
        attrs = [STUB] + ([STUB_FD] if kind == "ws" else [])
        hs.append(H(nm, body, 6, tier, "%s routing: %d host sub-apps x %d routes, %d default routes, Host header %s; every matcher outcome (2^%d tables)" % (
            kind, h, r, d, "present" if hh else "absent", h + h * r + d), attrs=attrs, timeout=1800, mem_gb=10))
    quick = {(0, 0, 0), (0, 0, 2), (1, 1, 1), (1, 2, 2), (2, 1, 1), (2, 2, 2)}
    for h in range(0, 4):
        for r in range(0, 4):
            if h == 0 and r > 0:
                continue
            for d in range(0, 4):
                for hh in (1, 0):
                    if hh == 0 and not (h, r, d) in ((2, 2, 2), (1, 1, 1), (3, 3, 3)):
                        continue
                    tier = "quick" if (h, r, d) in quick else ("rot" if h <= 2 and r <= 2 and d <= 2 else "thorough")
                    add("http", h, r, d, hh, tier)
    for (h, r, d, hh, tier) in ((0, 0, 0, 1, "quick"), (1, 1, 1, 1, "quick"), (2, 2, 2, 1, "quick"), (2, 2, 2, 0, "thorough"), (2, 1, 2, 1, "thorough"), (3, 2, 2, 1, "thorough")):
        add("ws", h, r, d, hh, tier)
    for x in hs:
        x.module = MODULE
    return hs
