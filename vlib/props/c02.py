"""C02 — request parsing (claimed: header-table kernel only)."""
from ..kengine import H

ID = "C02"
MODULE = "c02"
ENGINE = "K"

NAMES = ["Accept", "Accept-Charset", "Accept-Encoding", "Accept-Language", "Access-Control-Request-Method", "Access-Control-Request-Headers",
         "Authorization", "Cache-Control", "Connection", "Content-Encoding", "Content-Length", "Content-Type", "Cookie", "Date", "Expect",
         "Forwarded", "From", "Host", "Origin", "Pragma", "Referer", "Upgrade", "User-Agent", "Via", "Warning",
         "Access-Control-Allow-Origin", "Access-Control-Allow-Headers", "Access-Control-Allow-Methods", "Age", "Allow", "Content-Disposition",
         "Content-Language", "Content-Location", "ETag", "Expires", "Last-Modified", "Link", "Location", "Server", "Set-Cookie", "Transfer-Encoding"]

META = {
    "functions_encoded": [
        "humphrey/src/http/headers.rs: <HeaderType as From<&str>>::from, <HeaderType as ToString>::to_string, PartialEq for HeaderType",
        "humphrey/src/http/headers.rs: Headers::{new, add, get, get_all, remove, len}, <T as HeaderLike>::to_header",
    ],
    "reference_model": "inline in kani/src/c02.rs (canonical name table; first/all/remove over a 3-name alphabet)",
    "stubs": [],
    "assumes": ["custom names are printable ASCII without ':'"],
    "outside_bounds": [
        "Request::from_stream as a whole: start line, query split, header line splitting, cookies, X-Forwarded-For, bodies, read segmentation, the serialise-then-parse round trip and the tokio parser — Kani cannot finish symbolic execution of the parser even on a concrete request (io::Error/dyn Error drop glue, BufReader, String building; DESIGN §2), so these clauses are NOT decided",
        "header tables with more than 3 entries; custom names longer than 3 bytes; non-ASCII header names",
    ],
}


def harnesses():
    hs = []
    quick = {"Host", "Connection", "Content-Length", "Cookie", "Upgrade", "Transfer-Encoding", "Content-Type", "Date", "Server", "ETag"}
    for i, n in enumerate(NAMES):
        hs.append(H("c02_known_%02d" % i, "known_name::<_, %d, %d>" % (i, len(n)), len(n) + 2, "quick" if n in quick else "rot",
                    "header `%s` under every upper/lower-case spelling (2^%d masks): same variant, not Custom, prints canonically" % (n, sum(c.isalpha() for c in n)),
                    timeout=1200, mem_gb=8))
    for n in (1, 2, 3):
        hs.append(H("c02_custom_%d" % n, "custom_names::<_, %d>" % n, n + 2, "quick" if n <= 2 else "thorough",
                    "two arbitrary %d-byte printable names: same header iff equal ignoring ASCII case" % n, timeout=1200, mem_gb=8))
    for n in (0, 1, 2, 3, 4):
        hs.append(H("c02_table_%d" % n, "table::<_, %d>" % n, 6, "quick" if n in (1, 2) else "thorough",
                    "header table with %d symbolic entries over {Host, Cookie, Custom(x-a)}: get = first, get_all = all in order, remove = exactly those" % n, timeout=1800, mem_gb=16))
    for n in (2, 3, 4):
        hs.append(H("c02_table_rm_%d" % n, "table_rm::<_, %d>" % n, 6, "quick" if n == 3 else "thorough",
                    "header table with %d symbolic entries over {Host, Cookie, Custom(x-a)}: after remove(q) the fields of any other name keep their values and relative order" % n, timeout=1800, mem_gb=16))
    for h in hs:
        h.module = MODULE
    return hs
