"""C02 — request parsing: header-table kernel (engine K) + the parser on request templates (engine M)."""
from ..kengine import H

ID = "C02"
MODULE = "c02"
ENGINE = "KM"
TECHNIQUE = "header names and the header table: Kani/CBMC bounded model checking of the compiled code; the parser: symbolic execution of the MIR of Request::from_stream on well-formed request templates with symbolic holes -> z3, compared field by field with what the bytes denote; counterexamples replayed natively"

NAMES = ["Accept", "Accept-Charset", "Accept-Encoding", "Accept-Language", "Access-Control-Request-Method", "Access-Control-Request-Headers",
         "Authorization", "Cache-Control", "Connection", "Content-Encoding", "Content-Length", "Content-Type", "Cookie", "Date", "Expect",
         "Forwarded", "From", "Host", "Origin", "Pragma", "Referer", "Upgrade", "User-Agent", "Via", "Warning",
         "Access-Control-Allow-Origin", "Access-Control-Allow-Headers", "Access-Control-Allow-Methods", "Age", "Allow", "Content-Disposition",
         "Content-Language", "Content-Location", "ETag", "Expires", "Last-Modified", "Link", "Location", "Server", "Set-Cookie", "Transfer-Encoding"]

META = {
    "functions_encoded": [
        "humphrey/src/http/headers.rs: <HeaderType as From<&str>>::from, <HeaderType as ToString>::to_string, PartialEq for HeaderType",
        "humphrey/src/http/headers.rs: Headers::{new, add, get, get_all, remove, len}, <T as HeaderLike>::to_header",
    ],
    "reference_model": "inline in kani/src/c02.rs (canonical name table; first/all/remove over a 3-name alphabet)",
    "stubs": [],
    "assumes": ["custom names are printable ASCII without ':'"],
    "outside_bounds": [
        "engine K cannot finish symbolic execution of Request::from_stream even on a concrete request (io::Error/dyn Error drop glue, BufReader, String building; DESIGN §2): the parser is decided on engine M (see `request_parser`) for request TEMPLATES — concrete structure, symbolic path/query/version digit/header values/custom names/body bytes",
        "NOT decided: cookies (get_cookies), X-Forwarded-For (Address::from_headers is modelled as `no such field`), read segmentation (BufReader is a model; the native validation varies it), non-ASCII header values, bodies above 64 bytes, the serialise-then-parse round trip (format!), the tokio parser (async)",
        "header tables with more than 3 entries; custom names longer than 3 bytes; non-ASCII header names",
    ],
}


def harnesses():
    hs = []
    quick = {"Host", "Connection", "Content-Length", "Cookie", "Upgrade", "Transfer-Encoding", "Content-Type", "Date", "Server", "ETag"}
    for i, n in enumerate(NAMES):
        hs.append(H("c02_known_%02d" % i, "known_name::<_, %d, %d>" % (i, len(n)), len(n) + 2, "quick" if n in quick else "rot",
                    "header `%s` under every upper/lower-case spelling (2^%d masks): same variant, not Custom, prints canonically" % (n, sum(c.isalpha() for c in n)),
                    timeout=1200, mem_gb=8))
    for n in (1, 2, 3):
        hs.append(H("c02_custom_%d" % n, "custom_names::<_, %d>" % n, n + 2, "quick" if n <= 2 else "thorough",
                    "two arbitrary %d-byte printable names: same header iff equal ignoring ASCII case" % n, timeout=1200, mem_gb=8))
    for n in (0, 1, 2, 3, 4):
        hs.append(H("c02_table_%d" % n, "table::<_, %d>" % n, 6, "quick" if n in (1, 2) else "thorough",
                    "header table with %d symbolic entries over {Host, Cookie, Custom(x-a)}: get = first, get_all = all in order, remove = exactly those" % n, timeout=1800, mem_gb=16))
    for n in (2, 3, 4):
        hs.append(H("c02_table_rm_%d" % n, "table_rm::<_, %d>" % n, 6, "quick" if n == 3 else "thorough",
                    "header table with %d symbolic entries over {Host, Cookie, Custom(x-a)}: after remove(q) the fields of any other name keep their values and relative order" % n, timeout=1800, mem_gb=16))
    for h in hs:
        h.module = MODULE
    return hs


def run(tier, run_k):
    import json, os, time
    from ..common import WORK, REPLAY_DIR, log, write_evidence
    from . import c02_req
    k = run_k()
    t0, rc, cov, assumptions, nviol = k["t0"], k["rc"], k["cov"], k["assumptions"], k["violations"]
    from mirsym.dump import dump_mir
    work = os.path.join(WORK, ID)
    try:
        mir, dt = dump_mir("humphrey", work, features="verif")
        d = c02_req.run_part(tier, work, mir)
    except Exception as e:
        log("UNDISCHARGED: request parser — %s" % str(e)[:500])
        d = {"results": [], "violations": [], "machinery": [], "undischarged": [{"template": "all", "why": str(e)[:300]}], "validation": {}}
    for r in d["violations"][:1]:
        path = os.path.join(REPLAY_DIR, "C02-request.json")
        os.makedirs(REPLAY_DIR, exist_ok=True)
        with open(path, "w") as f:
            json.dump({"property": ID, "engine": "M", "kind": "request", "replay": r["replay"], "how": "./check C02 --replay " + path}, f, indent=1)
        log("VIOLATION property=%s replay=%s" % (ID, path))
        rp = r["replay"]
        log("   request %r" % rp["text"][:200])
        log("   natively (dev / release): %s / %s" % (rp["native_dev"][:240], rp["native_release"][:240]))
        log("   the bytes denote: %s   [failed: %s]" % (str(rp["expected"])[:240], rp["failed"][:160]))
        rc = 1
        nviol += 1
    for m in d["machinery"]:
        log("MACHINERY-ERROR: request parser — " + m[:600])
        rc = rc or 2
    for r in d["undischarged"][:6]:
        log("UNDISCHARGED: request parser template %s — %s" % (r.get("template"), r.get("why")))
    ok = [r for r in d["results"] if r["verdict"] == "unsat"]
    log("   request parser (engine M): %d/%d templates discharged, %d paths, %d z3 checks, translator validation on %s requests" % (
        len(ok), len(d["results"]), sum(r.get("paths", 0) for r in d["results"]), sum(r.get("n_checks", 0) for r in d["results"]), d["validation"].get("inputs")))
    cov["evaluations"] += len(d["results"])
    cov["distinct_nontrivial"] += len(ok)
    cov["obligations"] = cov.get("obligations", 0) + len(d["results"])
    cov["discharged"] = cov.get("discharged", 0) + len(ok)
    cov["states"] = cov.get("states", 0) + sum(r.get("blocks", 0) for r in d["results"])
    cov["transitions"] = cov.get("transitions", 0) + sum(r.get("n_checks", 0) for r in d["results"])
    cov["traces_validated_against_impl"] = cov.get("traces_validated_against_impl", 0) + (d["validation"].get("inputs") or 0)
    cov["solver_time_s"] = round(cov.get("solver_time_s", 0) + sum(r.get("solver_s", 0) for r in d["results"]), 2)
    cov["request_parser"] = {
        "functions_encoded": ["humphrey/src/http/request.rs: Request::{from_stream, from_stream_inner}, safe_assert, OptionToRequestResult::to_error",
                              "humphrey/src/http/method.rs: Method::from_name", "humphrey/src/http/headers.rs: <HeaderType as From<&str>>::from, Headers::{new, add, get}, Header::new, derived PartialEq/Clone of HeaderType"],
        "templates": {r["template"]: {k2: r.get(k2) for k2 in ("verdict", "paths", "n_checks", "wall_s", "why")} for r in d["results"]},
        "bounds": "one obligation per template: all five methods; path 1..3 (thorough 12) characters of visible ASCII; query 0..3 (8) incl. '?'; HTTP/1.0 and 1.1; header values 1..4 (22) characters with 0..2 leading SP/HT, inner SP/HT and ':' allowed, last character not whitespace; known names in mixed case, repeated names, custom names of 2..4 (6) token characters; Content-Length bodies of 0, 2, 4 (64) arbitrary bytes, also followed by a second request",
        "obligation": "for every value of the holes: Ok(Request) with the method, uri, query, version, the header list (each name typed as the listed variant iff equal ignoring ASCII case, else Custom(lower-cased); values with leading whitespace removed and the rest preserved; order preserved), the body bytes, and exactly the request's bytes consumed; the explored paths cover all hole values; no panic",
        "std_models_trusted": sorted(set(m for r in d["results"] for m in r.get("models", [])))[:80],
        "translator_validation": d["validation"],
        "undischarged": d["undischarged"][:10],
        "violations": [r["replay"] for r in d["violations"]][:3],
    }
    cov["functions_encoded"] = list(cov.get("functions_encoded", [])) + cov["request_parser"]["functions_encoded"]
    cov.setdefault("engines", {})["mirsym"] = "own MIR symbolic executor (/verif/mirsym) + z3 5.1.0"
    assumptions = assumptions + ["request parser: the BufReader/read_until/read_exact model over the scripted bytes, Address::from_headers modelled (no X-Forwarded-For in the templates), the listed std models; MIR text = compiled function (validated per run on concrete requests incl. malformed ones against the native parser under three read plans)"]
    write_evidence(ID, tier, cov, assumptions, time.time() - t0, nviol)
    log("== %s: %d/%d obligations discharged (K header kernel + M request parser), %d violation(s); %.0fs wall" % (ID, cov["discharged"], cov["obligations"], nviol, time.time() - t0))
    return rc


def replay(d, path):
    from .. import mengine, kengine
    from . import c02_req
    mengine.setup(ID)
    kengine.write_lists({})
    return c02_req.replay(d, path)
