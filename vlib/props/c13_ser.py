"""C13 (serialiser clause) — `Value::serialize` / `serialize_pretty` of string values emit valid RFC 8259 string literals that
denote the same characters, engine M.

The MIR of serialize.rs (`Value::serialize` -> `string_to_string`, `write!` through the fmt::Arguments model) runs on
`Value::String` of n symbolic Unicode scalar values. Obligation per return path: the output is `"` seg_1 .. seg_n `"` where seg_i is
a valid RFC 8259 §7 encoding of the i-th character: the character itself (>= U+0020, not `"` or `\\`), a two-character escape, a
`\\uXXXX` escape, or a surrogate-pair escape. That is both `valid RFC 8259 text` and `parses back to an equal value` for strings.
"""
import itertools, json, os, random, time

from ..common import *
from .. import mengine

_G = {}
ESC = {ord('"'): 0x22, ord("\\"): 0x5C, ord("/"): 0x2F, ord("b"): 8, ord("f"): 12, ord("n"): 10, ord("r"): 13, ord("t"): 9}


def valid_enc(z3, seg, c):
    hexd = lambda x: z3.Or(z3.And(x >= 48, x <= 57), z3.And(x >= 65, x <= 70), z3.And(x >= 97, x <= 102))
    hexv = lambda x: z3.If(x <= 57, x - 48, z3.If(x <= 70, x - 55, x - 87))
    unit = lambda d: hexv(d[0]) * 4096 + hexv(d[1]) * 256 + hexv(d[2]) * 16 + hexv(d[3])
    if len(seg) == 1:
        return z3.And(seg[0] == c, c >= 0x20, c != 0x22, c != 0x5C)
    if len(seg) == 2:
        return z3.And(seg[0] == 0x5C, z3.Or(*[z3.And(seg[1] == e, c == v) for e, v in ESC.items()]))
    if len(seg) == 6:
        return z3.And(seg[0] == 0x5C, seg[1] == 0x75, *[hexd(x) for x in seg[2:6]], unit(seg[2:6]) == c)
    if len(seg) == 12:
        hi, lo = unit(seg[2:6]), unit(seg[8:12])
        return z3.And(seg[0] == 0x5C, seg[1] == 0x75, seg[6] == 0x5C, seg[7] == 0x75, *[hexd(x) for x in seg[2:6] + seg[8:12]],
                      hi >= 0xD800, hi <= 0xDBFF, lo >= 0xDC00, lo <= 0xDFFF, 0x10000 + (hi - 0xD800) * 1024 + (lo - 0xDC00) == c)
    return z3.BoolVal(False)


def well_encoded(z3, out, cs):
    """out (list of char terms) == '"' + valid encodings of cs + '"'"""
    m = len(out)
    if m < 2:
        return z3.BoolVal(False)
    body = out[1:-1]
    alts = []
    for lens in itertools.product((1, 2, 6, 12), repeat=len(cs)):
        if sum(lens) != len(body):
            continue
        pos, conj = 0, []
        for l, c in zip(lens, cs):
            conj.append(valid_enc(z3, body[pos:pos + l], c))
            pos += l
        alts.append(z3.And(*conj) if conj else z3.BoolVal(True))
    inner = z3.Or(*alts) if alts else z3.BoolVal(False)
    return z3.And(out[0] == 0x22, out[-1] == 0x22, inner)


def _setup():
    import z3
    from mirsym.mir import parse_mir, ensure_parsed
    from mirsym.exec import Ctx, Exec
    from mirsym.models import COMMON
    from mirsym.models_fmt import make_models as fmt_models
    from mirsym.models_http import make_models as http_models
    from mirsym.models_json import make_models as json_models
    funcs = parse_mir(_G["mir"])

    def find(suffix):
        c = [v for n, v in funcs.items() if not isinstance(v, tuple) and n.endswith(suffix) and "serialize" in n]
        if len(c) != 1:
            raise RuntimeError("cannot locate %s in the MIR dump (%d candidates)" % (suffix, len(c)))
        return ensure_parsed(c[0])

    def mk(assume=()):
        ctx = Ctx(funcs, fmt_models() + json_models() + http_models() + COMMON, mode="int", loop_bound=64, time_budget=_G.get("budget", 600))
        ctx.base_assumptions = list(assume)
        if "enums" not in _G:
            from mirsym.models_ws import load_enum_decls
            _G["enums"] = load_enum_decls(os.path.join(REPO, "humphrey-json", "src"))
        ctx.enum_decls = _G["enums"]
        return ctx, Exec(ctx)
    return z3, find, mk


def _job(job):
    entry, n = job
    t0 = time.time()
    res = {"entry": entry, "n": n, "verdict": "unsat", "cexs": [], "n_checks": 0}
    try:
        z3, find, mk = _setup()
        from mirsym.exec import z3bool
        from mirsym.models import SymStr, str_chars
        cs = [z3.Int("c%d" % i) for i in range(n)]
        assume = [z3.And(c >= 0, c <= 0x10FFFF, z3.Or(c < 0xD800, c > 0xDFFF)) for c in cs]
        ctx, ex = mk(assume)
        val = ("enum", "Value::String", (SymStr("s", tuple(cs)),))
        if entry == "serialize":
            out = ex.run_function(find("::serialize"), [("refval", val)])
        else:
            # serialize_pretty(indent) = serialize_pretty_indent(0, indent) (a one-line wrapper whose callee name the dump spells differently)
            out = ex.run_function(find("::serialize_pretty_indent"), [("refval", val), 0, int(entry.split(":")[1])])
        res["paths"] = len(out.rets) + len(out.panics)
        s = z3.Solver()
        s.set("timeout", 120000)
        s.set("random_seed", seed() % 967)
        s.add(*assume)
        checks = []
        for pc, msg in out.panics:
            checks.append(("no panic: " + str(msg)[:80], z3bool(pc) if pc is not True else z3.BoolVal(True)))
        cover = [z3bool(pc) if pc is not True else z3.BoolVal(True) for pc, *_ in out.rets] + [z3bool(pc) if pc is not True else z3.BoolVal(True) for pc, _ in out.panics]
        checks.append(("every value has an outcome", z3.Not(z3.Or(*cover)) if cover else z3.BoolVal(True)))
        for pc, v, _, _ in out.rets:
            pcz = z3bool(pc) if pc is not True else z3.BoolVal(True)
            o = list(str_chars(v))
            checks.append(("the output is a valid RFC 8259 string literal denoting the same characters", z3.And(pcz, z3.Not(well_encoded(z3, o, cs)))))
        tq = time.time()
        for what, fm in checks:
            s.push()
            s.add(fm)
            r = s.check()
            res["n_checks"] += 1
            if r == z3.sat:
                m = s.model()
                res["cexs"].append({"check": what, "chars": [m.eval(c, model_completion=True).as_long() for c in cs]})
                res["verdict"] = "sat"
            elif r != z3.unsat and res["verdict"] == "unsat":
                res["verdict"] = "unknown"
            s.pop()
        if s.check() != z3.sat:
            res["verdict"] = "vacuous"
        res.update({"symex_s": round(tq - t0, 2), "solver_s": round(time.time() - tq + ctx.tq, 2), "blocks": ctx.blocks_executed, "feasibility_queries": ctx.nq, "models": sorted(ctx.calls_seen.keys())})
    except Exception as e:
        import traceback
        res.update({"verdict": "undischarged", "why": "%s: %s" % (type(e).__name__, str(e)[:300]), "tb": traceback.format_exc()[-900:]})
    res["wall_s"] = round(time.time() - t0, 2)
    return res


def dump_of(chars):
    return "S%d:%s" % (len(chars), ",".join("%x" % c for c in chars))


def native_ser(exe, chars, indent=None):
    out = mengine.native_eval(exe, ["jsonser %s %s" % ("-" if indent is None else indent, dump_of(chars))])[0]
    if out in ("PANIC", "?"):
        return out
    return bytes.fromhex(out).decode("utf-8") if out != "-" else ""


def ref_ok(text, chars):
    """Independent judge of a native output: strict JSON text that parses (Python json) to exactly the string."""
    try:
        v = json.loads(text)
    except ValueError:
        return False
    if not isinstance(v, str):
        return False
    cps, i = [], 0
    while i < len(v):
        c = ord(v[i])
        if 0xD800 <= c <= 0xDBFF and i + 1 < len(v) and 0xDC00 <= ord(v[i + 1]) <= 0xDFFF:
            cps.append(0x10000 + ((c - 0xD800) << 10) + (ord(v[i + 1]) - 0xDC00))
            i += 2
        else:
            cps.append(c)
            i += 1
    # Python's json accepts raw control characters only with strict=False; loads() above is strict
    return cps == list(chars)


def _concrete(chars):
    try:
        z3, find, mk = _setup()
        from mirsym.models import ConcStr, str_chars
        ctx, ex = mk()
        out = ex.run_function(find("::serialize"), [("refval", ("enum", "Value::String", (ConcStr("".join(chr(c) for c in chars)),)))])
        if out.panics and not out.rets:
            return "PANIC"
        return "".join(chr(c) for c in str_chars(out.rets[0][1]))
    except Exception as e:
        return "EXEC-ERROR %s: %s" % (type(e).__name__, str(e)[:200])


def run_part(tier, mir):
    _G.update({"mir": mir, "budget": 1500 if tier == "thorough" else 500})
    out = {"results": [], "violations": [], "machinery": [], "undischarged": [], "validation": {}}
    exe_dev = mengine.build_mtool("debug")
    exe_rel = mengine.build_mtool("release")
    rnd = random.Random(seed() * 29 + 4)
    pool = [0, 1, 8, 9, 10, 12, 13, 0x1F, 0x20, 0x22, 0x2F, 0x5C, 0x7F, 0x80, 0xE9, 0x20AC, 0xFFFF, 0x10000, 0x1D11E, 0x10FFFF, 65, 97]
    samples = [[c] for c in pool] + [[rnd.choice(pool) for _ in range(rnd.randint(0, 5))] for _ in range(60)]
    eng = mengine.pmap(_concrete, samples)
    nat = [native_ser(exe_dev, cs) for cs in samples]
    cannot = [e for e in eng if e.startswith("EXEC-ERROR")]
    mism = [(cs, e, n) for cs, e, n in zip(samples, eng, nat) if not e.startswith("EXEC-ERROR") and e != n]
    refbad = [(cs, n) for cs, n in zip(samples, nat) if not ref_ok(n, cs)]
    out["validation"] = {"values": len(samples), "mismatches": len(mism), "engine_cannot_run": len(cannot), "native_outputs_rejected_by_reference": len(refbad)}
    if mism:
        out["machinery"].append("serialiser: translator validation: encoding and native code disagree on %d/%d values, e.g. %r" % (len(mism), len(samples), mism[0]))
        return out
    if cannot:
        out["undischarged"].append({"job": "all", "why": cannot[0][:300]})
        for cs, n in refbad[:1]:
            _classify(out, cs, None, "native probe (the encoding cannot execute this tree)", exe_dev, exe_rel, False)
        return out
    jobs = [("serialize", n) for n in ((0, 1, 2, 3) if tier == "thorough" else (0, 1, 2))] + [("pretty:4", 1)] + ([("pretty:0", 2)] if tier == "thorough" else [])
    rs = mengine.pmap(_job, jobs)
    out["results"] = rs
    for r in rs:
        if r["verdict"] == "sat":
            for cex in r["cexs"][:1]:
                _classify(out, cex["chars"], None if r["entry"] == "serialize" else int(r["entry"].split(":")[1]), cex["check"], exe_dev, exe_rel, True)
        elif r["verdict"] != "unsat":
            out["undischarged"].append({"job": [r["entry"], r["n"]], "why": r.get("why", r["verdict"])})
    if out["undischarged"] and not out["violations"]:
        for cs, n in refbad[:1]:
            _classify(out, cs, None, "native probe (some obligation could not be decided)", exe_dev, exe_rel, False)
    return out


def _classify(out, chars, indent, what, exe_dev, exe_rel, solver):
    nd, nr = native_ser(exe_dev, chars, indent), native_ser(exe_rel, chars, indent)
    rep = {"kind": "serialize", "chars": list(chars), "indent": indent, "native_dev": nd, "native_release": nr, "failed": what, "key": "serialize:string"}
    if ref_ok(nd, chars) and ref_ok(nr, chars):
        if solver:
            out["machinery"].append("serialiser: counterexample %r (%s) does not reproduce natively (output %r parses back to the value)" % (chars, what[:60], nd))
        return
    if not out["violations"]:
        out["violations"].append(rep)


def replay(d):
    exe = mengine.build_mtool("debug")
    got = native_ser(exe, d["chars"], d.get("indent"))
    ok = ref_ok(got, d["chars"])
    log("serialize(String(%r)) = %r ; strict JSON that parses back to the value: %s" % ("".join(chr(c) for c in d["chars"]), got, ok))
    return not ok
