"""C10 (long payloads) — Frame::from_stream and From<Frame> for Vec<u8>, engine M in bit-vector mode.

Engine K keeps payloads small (symbolic allocation sizes explode in CBMC); the payload length classes of the property
(126, 127, 128, 65534..65537, 70 KiB) are decided here on the MIR of the current tree: the frame's length/encoding/mask bit are
concrete per obligation, the first header byte (FIN, RSV1-3, opcode), the masking key and every payload byte are symbolic.
  dec  : decoding the bytes of a frame returns exactly FIN, RSV, opcode, mask, length, key and the unmasked payload; reserved opcodes
         are rejected; a frame cut short anywhere (header, extended length, key, first or later 64 KiB chunk) is a read error.
  enc  : encoding a frame (any FIN/RSV bits and key, each opcode) gives the RFC 6455 section 5.2 layout with the shortest length form and
         the payload masked with the key.
"""
import itertools, json, os, random, time

from ..common import *
from .. import mengine
from .c11_msg import enc_len, _native_many

_G = {}
HEAPF = -7
OPS = {0: "Continuation", 1: "Text", 2: "Binary", 8: "Close", 9: "Ping", 10: "Pong"}


def _setup():
    import z3
    from mirsym.mir import parse_mir
    from mirsym.exec import Ctx, Exec
    from mirsym.models import COMMON
    from mirsym.models_ws import make_models, load_enum_decls
    if "funcs" not in _G:
        _G["funcs"] = parse_mir(_G["mir"])
        _G["enums"] = load_enum_decls(os.path.join(REPO, "humphrey-ws", "src"))
    funcs = _G["funcs"]
    dec = [v for n, v in funcs.items() if not isinstance(v, tuple) and n.endswith("::from_stream") and "frame.rs" in n]
    enc = [v for n, v in funcs.items() if not isinstance(v, tuple) and n.endswith("::from") and "frame.rs" in n and v.args and v.args[0][1].strip() == "Frame"]
    if len(dec) != 1 or len(enc) != 1:
        raise RuntimeError("cannot locate Frame::from_stream / From<Frame> for Vec<u8> in the MIR dump (%d, %d)" % (len(dec), len(enc)))
    def mk():
        ctx = Ctx(funcs, make_models() + COMMON, mode="bv", loop_bound=80, time_budget=_G.get("budget", 900))
        ctx.frame_ids = itertools.count(9500)
        ctx.enum_decls = _G["enums"]
        return ctx, Exec(ctx)
    return z3, dec[0], enc[0], mk


def _job(job):
    t0 = time.time()
    res = {"job": list(job), "verdict": "unsat", "fails": [], "n_checks": 0, "paths": 0}
    try:
        z3, fdec, fenc, mk = _setup()
        from mirsym.exec import z3bool
        from mirsym.models_sha import _bv
        from mirsym.models_ws import NetStream
        from mirsym.models_json import VecM
        ctx, ex = mk()
        solver_s = 0.0
        def valid(pc, goal, what, inp=None):
            nonlocal solver_s
            s = z3.Solver(); s.set("timeout", 120000)
            if pc is not True:
                s.add(z3bool(pc))
            s.add(z3.Not(goal) if goal is not None else z3.BoolVal(True))
            t = time.time(); r = s.check(); solver_s += time.time() - t
            res["n_checks"] += 1
            if r != z3.unsat:
                m = s.model() if r == z3.sat else None
                res["fails"].append({"what": what, "status": str(r), "input": _mb(z3, m, inp) if (m is not None and inp is not None) else None})
            return r == z3.unsat
        def as_bool(x):
            if isinstance(x, bool):
                return z3.BoolVal(x)
            if isinstance(x, int):
                return z3.BoolVal(bool(x))
            return x if z3.is_bool(x) else (x != 0)
        def eq8(pairs):
            cs = []
            for a, b in pairs:
                e = z3.simplify(_bv(a, 8) == _bv(b, 8))
                if z3.is_true(e):
                    continue
                cs.append(e)
            return z3.And(*cs) if cs else z3.BoolVal(True)
        if job[0] == "dec":
            _, ln, mask, enc, cut = job
            b0 = z3.BitVec("b0", 8)
            key = [z3.BitVec("k%d" % j, 8) for j in range(4)] if mask else []
            pay = [z3.BitVec("p%d" % j, 8) for j in range(ln)]
            full = [b0] + enc_len(mask, ln, enc) + key + pay
            inp = full[:len(full) - cut]
            out = ex.run_function(fdec, [("ref", ("local", HEAPF, 0, ()))], heap={HEAPF: {0: NetStream(tuple(inp))}})
            res["paths"] = len(out.rets) + len(out.panics)
            for pc, msg in out.panics:
                valid(pc, None, "no panic: " + str(msg)[:100], inp)
            nib = z3.Extract(3, 0, b0)
            validop = z3.Or(*[nib == o for o in OPS])
            for pc, val, locs, heap in out.rets:
                if val[1] == "Err":
                    e = val[2][0][1].split("::")[-1]
                    if e == "InvalidOpcode":
                        valid(pc, z3.Not(validop), "InvalidOpcode only for a reserved opcode", inp)
                    elif e == "ReadError":
                        if cut == 0:
                            valid(pc, None, "a complete frame is not a read error", inp)
                        # with cut > 0 a reserved opcode may be reported either way
                    else:
                        valid(pc, None, "unexpected error " + e, inp)
                    continue
                if cut > 0:
                    valid(pc, None, "truncated input yields a read error (got Ok with %d payload bytes)" % len(ex.elements(val[2][0][1][6])), inp)
                    continue
                fin, rsv, opcode, m, length, k, payload = val[2][0][1]
                op = [o for o, nme in OPS.items() if nme == opcode[1].split("::")[-1]]
                goals = [as_bool(fin) == (z3.Extract(7, 7, b0) == 1), nib == op[0] if op else z3.BoolVal(False)]
                for i, r in enumerate(ex.elements(rsv)):
                    goals.append(as_bool(r) == (z3.Extract(6 - i, 6 - i, b0) == 1))
                goals.append(as_bool(m) == z3.BoolVal(bool(mask)))
                goals.append(_bv(length, 64) == ln)
                valid(pc, z3.And(*goals), "FIN, RSV, opcode, mask flag and length are the ones in the header", inp)
                got = list(ex.elements(payload))
                if len(got) != ln:
                    valid(pc, None, "payload has %d bytes, the frame carries %d" % (len(got), ln), inp)
                else:
                    valid(pc, eq8([(g, (p ^ key[j % 4]) if mask else p) for j, (g, p) in enumerate(zip(got, pay))]), "payload is the frame's payload unmasked with the key", inp)
                valid(pc, eq8(list(zip(ex.elements(k), key if mask else [0, 0, 0, 0]))), "masking key as sent (zero when unmasked)", inp)
                if heap[HEAPF][0].pos != len(full):
                    valid(pc, None, "consumed %d bytes, the frame has %d" % (heap[HEAPF][0].pos, len(full)), inp)
            cover = [z3bool(pc) if pc is not True else z3.BoolVal(True) for pc, *_ in out.rets] + [z3bool(pc) if pc is not True else z3.BoolVal(True) for pc, _ in out.panics]
            valid(True, z3.Or(*cover), "paths cover every first header byte")
            if cut > 0:
                # a valid opcode must give ReadError
                oks = [z3bool(pc) if pc is not True else z3.BoolVal(True) for pc, val, *_ in out.rets if val[1] == "Err" and val[2][0][1].endswith("ReadError")]
                valid(validop, z3.Or(*oks) if oks else z3.BoolVal(False), "a truncated frame with a valid opcode is a read error", inp)
        else:
            _, ln, mask, opv = job
            fin, r1, r2, r3 = z3.Bool("fin"), z3.Bool("r1"), z3.Bool("r2"), z3.Bool("r3")
            key = [z3.BitVec("k%d" % j, 8) for j in range(4)]
            pay = [z3.BitVec("p%d" % j, 8) for j in range(ln)]
            frame = ("agg", (fin, ("agg", (r1, r2, r3)), ("enum", "Opcode::" + OPS[opv], ()), bool(mask), ln, ("agg", tuple(key)), VecM(tuple(pay))))
            out = ex.run_function(fenc, [frame])
            res["paths"] = len(out.rets) + len(out.panics)
            for pc, msg in out.panics:
                valid(pc, None, "no panic: " + str(msg)[:100])
            if ln < 126:
                hdr_len = [(mask << 7) | ln]
            elif ln < 65536:
                hdr_len = [(mask << 7) | 126, ln >> 8, ln & 255]
            else:
                hdr_len = [(mask << 7) | 127] + [(ln >> (56 - 8 * j)) & 255 for j in range(8)]
            b0 = z3.Concat(z3.If(fin, z3.BitVecVal(1, 1), z3.BitVecVal(0, 1)), z3.If(r1, z3.BitVecVal(1, 1), z3.BitVecVal(0, 1)), z3.If(r2, z3.BitVecVal(1, 1), z3.BitVecVal(0, 1)),
                           z3.If(r3, z3.BitVecVal(1, 1), z3.BitVecVal(0, 1)), z3.BitVecVal(opv, 4))
            want = [b0] + hdr_len + (key if mask else []) + [(p ^ key[j % 4]) if mask else p for j, p in enumerate(pay)]
            for pc, val, locs, heap in out.rets:
                got = list(ex.elements(val))
                if len(got) != len(want):
                    valid(pc, None, "encoded frame has %d bytes, RFC 6455 5.2 with the shortest length form needs %d" % (len(got), len(want)))
                else:
                    valid(pc, eq8(list(zip(got, want))), "bytes = header | shortest length form | key | payload masked with the key")
        res["solver_s"] = round(solver_s, 2)
        res["blocks"] = ctx.blocks_executed
        if res["fails"]:
            res["verdict"] = "sat" if any(x["status"] == "sat" for x in res["fails"]) else "unknown"
    except Exception as e:
        import traceback
        res["verdict"] = "error"
        res["why"] = (str(e) + " | " + traceback.format_exc().strip().split("\n")[-3].strip())[:400]
    res["wall_s"] = round(time.time() - t0, 2)
    return res


def _mb(z3, m, inp):
    return bytes((b if isinstance(b, int) else m.eval(b, model_completion=True).as_long()) & 255 for b in inp).hex()


def jobs_for(tier):
    rnd = random.Random(seed() * 17 + 1)
    J = []
    # the longest first
    J.append(("dec", 65537, 1, 64, 0))
    J.append(("dec", 65537, 0, 64, 1))
    J.append(("enc", 65536, 1, 2))
    for ln, enc in [(126, 16), (127, 16), (128, 16), (125, 7), (125, 16), (300, 64)]:
        J.append(("dec", ln, rnd.choice([0, 1]), enc, 0))
    for ln, enc, cut in [(126, 16, 1), (126, 16, 127), (126, 16, 129), (200, 16, rnd.randrange(1, 200)), (5, 64, rnd.randrange(6, 13)), (128, 16, 131)]:
        J.append(("dec", ln, 1, enc, cut))
    for ln in (125, 126, 127, 300):
        J.append(("enc", ln, rnd.choice([0, 1]), rnd.choice(list(OPS))))
    if tier == "thorough":
        for ln in (65534, 65535, 65536, 70 * 1024):
            J.append(("dec", ln, 1, 64 if ln > 65535 else 16, 0))
        J.append(("dec", 65536, 0, 64, 0))
        J.append(("dec", 131073, 1, 64, 0))
        J.append(("dec", 131073, 1, 64, 2))
        J.append(("dec", 65537, 1, 64, 65537))
        for ln in (0, 1, 124, 125, 126, 127, 128, 1000, 65535, 65536, 65537):
            for mask in (0, 1):
                J.append(("enc", ln, mask, rnd.choice(list(OPS))))
        for opv in OPS:
            J.append(("enc", 126, 1, opv))
        for _ in range(10):
            ln = rnd.randrange(126, 2000)
            J.append(("dec", ln, rnd.choice([0, 1]), rnd.choice([16, 64]), rnd.choice([0, 0, rnd.randrange(1, ln)])))
    return J


def ref_decode(data):
    """RFC 6455 5.2 decoder -> the string `mtool framedec` prints."""
    if len(data) < 2:
        return "ERR ReadError"
    b0, b1 = data[0], data[1]
    if (b0 & 15) not in OPS:
        return "ERR InvalidOpcode"
    pos = 2
    ln = b1 & 127
    if ln == 126:
        if len(data) < pos + 2:
            return "ERR ReadError"
        ln = int.from_bytes(data[pos:pos + 2], "big"); pos += 2
    elif ln == 127:
        if len(data) < pos + 8:
            return "ERR ReadError"
        ln = int.from_bytes(data[pos:pos + 8], "big"); pos += 8
    mask = b1 >> 7
    key = b"\0\0\0\0"
    if mask:
        if len(data) < pos + 4:
            return "ERR ReadError"
        key = data[pos:pos + 4]; pos += 4
    if len(data) < pos + ln:
        return "ERR ReadError"
    pay = bytes((c ^ key[i % 4]) if mask else c for i, c in enumerate(data[pos:pos + ln]))
    return "OK %d %d%d%d %d %d %d %s %s" % (b0 >> 7, (b0 >> 6) & 1, (b0 >> 5) & 1, (b0 >> 4) & 1, b0 & 15, mask, ln, key.hex(), pay.hex() or "-")


def ref_encode(fin, rsv, op, mask, key, pay):
    n = len(pay)
    out = bytes([(fin << 7) | (rsv[0] << 6) | (rsv[1] << 5) | (rsv[2] << 4) | op])
    if n < 126:
        out += bytes([(mask << 7) | n])
    elif n < 65536:
        out += bytes([(mask << 7) | 126]) + n.to_bytes(2, "big")
    else:
        out += bytes([(mask << 7) | 127]) + n.to_bytes(8, "big")
    if mask:
        out += key + bytes(c ^ key[i % 4] for i, c in enumerate(pay))
    else:
        out += pay
    return out.hex()


def _engine_concrete(item):
    """Concrete frame through the engine -> the mtool string."""
    try:
        z3, fdec, fenc, mk = _setup()
        from mirsym.models_ws import NetStream
        from mirsym.models_json import VecM
        ctx, ex = mk()
        ci = lambda x: int(x) if isinstance(x, int) else (1 if z3.is_true(z3.simplify(x)) else 0 if z3.is_false(z3.simplify(x)) else z3.simplify(x).as_long())
        if item[0] == "dec":
            data = item[1]
            out = ex.run_function(fdec, [("ref", ("local", HEAPF, 0, ()))], heap={HEAPF: {0: NetStream(tuple(data))}})
            if out.panics and not out.rets:
                return "PANIC"
            val = out.rets[0][1]
            if val[1] == "Err":
                return "ERR " + val[2][0][1].split("::")[-1]
            fin, rsv, opcode, m, length, k, payload = val[2][0][1]
            op = [o for o, nme in OPS.items() if nme == opcode[1].split("::")[-1]][0]
            pay = bytes(ci(c) for c in ex.elements(payload))
            return "OK %d %s %d %d %d %s %s" % (ci(fin), "".join(str(ci(r)) for r in ex.elements(rsv)), op, ci(m), ci(length), bytes(ci(c) for c in ex.elements(k)).hex(), pay.hex() or "-")
        _, fin, rsv, op, mask, key, pay = item
        frame = ("agg", (bool(fin), ("agg", tuple(bool(r) for r in rsv)), ("enum", "Opcode::" + OPS[op], ()), bool(mask), len(pay), ("agg", tuple(key)), VecM(tuple(pay))))
        out = ex.run_function(fenc, [frame])
        if out.panics and not out.rets:
            return "PANIC"
        return bytes(ci(c) for c in ex.elements(out.rets[0][1])).hex()
    except Exception as e:
        return "ENGINE-ERROR " + str(e)[:200]


def run_part(tier, work, mir):
    _G["mir"] = mir
    _G["budget"] = 900 if tier == "quick" else 3000
    res = {"results": [], "violations": [], "machinery": [], "undischarged": [], "validation": {}}
    exe = mengine.build_mtool("debug")
    exe_rel = mengine.build_mtool("release")
    # ---- translator validation: concrete frames (valid, reserved opcodes, truncated, all length forms incl. one beyond 64 KiB) through engine and native code
    rnd = random.Random(seed() * 23 + 9)
    items, lines = [], []
    for i in range(30 if tier == "quick" else 120):
        ln = rnd.choice([0, 1, 5, 125, 126, 127, 128, 300, rnd.randrange(0, 2000)]) if i else 65536 + rnd.randrange(1, 500)
        mask = rnd.choice([0, 1])
        key = bytes(rnd.randrange(256) for _ in range(4))
        pay = bytes(rnd.randrange(256) for _ in range(ln))
        b0 = rnd.randrange(256) if rnd.random() < 0.3 else ((rnd.randrange(16) << 4) | rnd.choice(list(OPS)))
        enc = 7 if ln < 126 and rnd.random() < 0.7 else (16 if ln < 65536 and rnd.random() < 0.6 else 64)
        if ln >= 126 and enc == 7:
            enc = 16
        data = bytes([b0] + enc_len(mask, ln, enc)) + (key if mask else b"") + pay
        if rnd.random() < 0.25:
            data = data[:rnd.randrange(0, len(data))]
        items.append(("dec", list(data))); lines.append("framedec " + (data.hex() or "-"))
        if (b0 & 15) in OPS and i % 2 == 0:
            items.append(("enc", b0 >> 7, [(b0 >> 6) & 1, (b0 >> 5) & 1, (b0 >> 4) & 1], b0 & 15, mask, list(key), list(pay)))
            lines.append("frameenc %d %d%d%d %d %d %s %s" % (b0 >> 7, (b0 >> 6) & 1, (b0 >> 5) & 1, (b0 >> 4) & 1, b0 & 15, mask, key.hex(), pay.hex() or "-"))
    eng = mengine.pmap(_engine_concrete, items)
    nat = mengine.native_eval(exe, lines)
    cannot = [e for e in eng if e.startswith("ENGINE-ERROR")]
    mism = [{"request": l[:120], "engine": e[:160], "native": n[:160]} for l, e, n in zip(lines, eng, nat) if e != n and not e.startswith("ENGINE-ERROR")]
    refbad = []
    for it, n, l in zip(items, nat, lines):
        want = ref_decode(bytes(it[1])) if it[0] == "dec" else ref_encode(it[1], it[2], it[3], it[4], bytes(it[5]), bytes(it[6]))
        if want != n:
            refbad.append({"request": l[:200], "reference": want[:200], "native": n[:200], "line": l})
    res["validation"] = {"inputs": len(items), "mismatches": len(mism), "engine_cannot_run": len(cannot), "examples": mism[:3], "reference_vs_native_disagreements": [{k: v for k, v in x.items() if k != "line"} for x in refbad[:3]]}
    if mism:
        res["machinery"].append("translator validation: engine and native disagree on %d/%d frames, e.g. %s" % (len(mism), len(items), json.dumps(mism[0])[:400]))
        return res
    rs = mengine.pmap(_job, jobs_for(tier))
    res["results"] = rs
    if cannot or any(r["verdict"] in ("error", "unknown") for r in rs):
        # native probe (sampling; discharges nothing): the validation frames against the RFC reference
        for x in refbad[:1]:
            res["violations"].append({"job": "probe", "confirmed": True, "replay": {"request": x["line"] if len(x["line"]) < 6000 else x["line"][:6000], "expected": x["reference"][:300], "native_dev": x["native"][:300],
                                                                                    "native_release": mengine.native_eval(exe_rel, [x["line"]])[0][:300], "failed": "native probe (the engine cannot run this tree)"}})
    if res["violations"]:
        return res
    for r in rs:
        if r["verdict"] == "unsat":
            continue
        done = False
        if r["job"][0] == "dec":
            for f in r["fails"]:
                if f["status"] == "sat" and f.get("input"):
                    # replay through recv on a loopback socket (mtool wsmsg): a data frame with FIN delivers exactly the payload; a truncated one is a ReadError
                    data = bytes.fromhex(f["input"])
                    line = "framedec " + (data.hex() or "-")
                    nd, nr = mengine.native_eval(exe, [line])[0], mengine.native_eval(exe_rel, [line])[0]
                    want = ref_decode(data)
                    rep = {"request": line, "native_dev": nd[:300], "native_release": nr[:300], "expected": want[:300], "failed": f["what"], "job": r["job"]}
                    if nd != want or nr != want:
                        res["violations"].append({"job": r["job"], "confirmed": True, "replay": rep})
                    else:
                        res["machinery"].append("counterexample for %s (%s) does not reproduce natively" % (r["job"], f["what"][:100]))
                    done = True
                    break
        if not done:
            if r["verdict"] == "sat" and r["job"][0] == "enc":
                # encoder counterexample: re-run natively with a concrete instance of the same shape against the reference
                _, ln, mask, opv = r["job"]
                key = bytes(rnd.randrange(1, 256) for _ in range(4)); pay = bytes(rnd.randrange(256) for _ in range(ln))
                line = "frameenc 1 000 %d %d %s %s" % (opv, mask, key.hex(), pay.hex() or "-")
                nd, nr = mengine.native_eval(exe, [line])[0], mengine.native_eval(exe_rel, [line])[0]
                want = ref_encode(1, [0, 0, 0], opv, mask, key, pay)
                rep = {"request": line if len(line) < 6000 else line[:6000], "native_dev": nd[:300], "native_release": nr[:300], "expected": want[:300], "failed": r["fails"][0]["what"], "job": r["job"]}
                if nd != want or nr != want:
                    res["violations"].append({"job": r["job"], "confirmed": True, "replay": rep})
                else:
                    res["machinery"].append("encoder counterexample for %s (%s) does not reproduce natively on a concrete instance" % (r["job"], r["fails"][0]["what"][:100]))
            else:
                res["undischarged"].append({"job": r["job"], "why": r.get("why") or "; ".join(x["what"] + " -> " + x["status"] for x in r["fails"])[:300]})
    return res


def replay(d, path):
    exe = mengine.build_mtool("debug")
    exe_rel = mengine.build_mtool("release")
    r = d["replay"]
    line = r["request"]
    nd, nr = mengine.native_eval(exe, [line])[0], mengine.native_eval(exe_rel, [line])[0]
    parts = line.split()
    if parts[0] == "framedec":
        want = ref_decode(bytes.fromhex(parts[1]) if parts[1] != "-" else b"")
    else:
        want = ref_encode(int(parts[1]), [int(c) for c in parts[2]], int(parts[3]), int(parts[4]), bytes.fromhex(parts[5]), bytes.fromhex(parts[6]) if parts[6] != "-" else b"")
    log("replay %s" % line[:200])
    log("   native (dev)     : %s" % nd[:300])
    log("   native (release) : %s" % nr[:300])
    log("   RFC 6455 5.2     : %s" % want[:300])
    if nd != want or nr != want:
        log("VIOLATION property=C10 replay=%s" % path)
        return 1
    log("not reproduced on the current tree")
    return 0
